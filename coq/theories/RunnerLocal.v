(* RunnerLocal.v — locality of hook faults (C12):
   two runs of the same program whose configurations differ only in WHICH hook
   invocations raise.  (A) an element none of whose own sites is affected behaves
   identically when started in the same state; (B) without aborting steps every element
   hands the runner state back exactly as it received it. *)
From BV Require Import Base Status Rollup Runner RunnerQuiet RunnerHooks.
From BVGen Require Import StatusTable.

Definition set_faults (cfg : config) (f : hookname -> nat -> bool) : config :=
  mkConfig (c_dry cfg) (c_stop cfg) (c_show_skipped cfg) (c_expr cfg) (c_hooks cfg) f
           (c_hook_cleanups cfg) (c_wip cfg) (c_cont cfg) (c_aborts cfg) (c_excl cfg).

(* ------------------------------------------------------------------ (B) frames *)
Definition na_steps (steps : list step) : bool :=
  forallb (fun s => negb (step_aborts (st_kind s))) steps.
Definition na_sitem (it : sitem) : bool :=
  match it with SScen s => na_steps (sc_steps s) | SOutline o => na_steps (o_steps o) end.
Definition na_rule (r : rule) : bool := na_steps (opt_steps (r_bg r)) && forallb na_sitem (r_items r).
Definition na_fitem (it : fitem) : bool :=
  match it with FItem i => na_sitem i | FRule r => na_rule r end.
Definition na_feature (f : feature) : bool :=
  na_steps (opt_steps (f_bg f)) && forallb na_fitem (f_items f).

Lemma na_steps_app a b : na_steps (a ++ b) = na_steps a && na_steps b.
Proof. apply forallb_app. Qed.

(* no hook calls context.abort(): the assumption under which a run leaves the state as it found it *)
Definition no_hook_aborts (c : config) : Prop := forall h k, c_aborts c h k = false.

(* the state after is the state before, except that the top frame may have grown *)
Definition grows (st st' : rstate) : Prop :=
  aborted st' = aborted st /\ tl (stack st') = tl (stack st) /\ (stack st <> [] -> stack st' <> []).

Lemma grows_refl st : grows st st.
Proof. repeat split; auto. Qed.

Lemma grows_trans a b c : grows a b -> grows b c -> grows a c.
Proof. intros (A1 & A2 & A3) (B1 & B2 & B3). repeat split; try congruence. auto. Qed.

Lemma add_cleanups_grows st cs : grows st (add_cleanups st cs).
Proof.
  unfold add_cleanups, grows. destruct (stack st) as [|fr rest] eqn:E; cbn; rewrite ?E; repeat split; auto.
  intros _. discriminate.
Qed.

Lemma set_aborted_false st : set_aborted st false = st.
Proof. unfold set_aborted. rewrite orb_false_r. apply state_eta. Qed.

Lemma run_hook_grows c (Hna : no_hook_aborts c) st h k st' r ev :
  is_all_hook h = false -> run_hook c st h k = (st', r, ev) -> grows st st'.
Proof.
  intros Hh. unfold run_hook. rewrite Hh.
  destruct (c_dry c || negb (c_hooks c h)).
  - intros E; inversion E; subst. apply grows_refl.
  - rewrite (Hna h k). destruct (c_faults c h k); intros E; inversion E; subst; cbn [orb]; rewrite ?set_aborted_false; apply add_cleanups_grows.
Qed.

Lemma run_tag_hooks_grows c (Hna : no_hook_aborts c) h (Hh : is_all_hook h = false) tags : forall st st' r ev,
  run_tag_hooks c st h tags = (st', r, ev) -> grows st st'.
Proof.
  induction tags as [|t tl0 IH]; intros st st' r ev; cbn [run_tag_hooks].
  - intros E; inversion E; subst. apply grows_refl.
  - destruct (run_hook c st h t) as [[st1 b1] e1] eqn:E1.
    destruct (run_tag_hooks c st1 h tl0) as [[st2 b2] e2] eqn:E2.
    intros E; inversion E; subst.
    eapply grows_trans; [eapply (run_hook_grows _ Hna); eauto | eapply IH; eauto].
Qed.

Lemma run_step_grows c (Hna : no_hook_aborts c) st wip scid s st' status skip ev :
  step_aborts (st_kind s) = false ->
  run_step c st wip scid s = (st', status, skip, ev) -> grows st st'.
Proof.
  intros Ha. unfold run_step.
  assert (D : forall k, step_aborts k = false ->
              run_defined_step c st wip scid k (st_id s) = (st', status, skip, ev) -> grows st st').
  { intros k Hk. unfold run_defined_step.
    destruct (run_hook c st HBeforeStep (st_id s)) as [[st1 rb] eb] eqn:E1.
    apply (run_hook_grows _ Hna) in E1; [|reflexivity].
    destruct rb.
    - destruct (run_hook c st1 HAfterStep (st_id s)) as [[st3 ra] ea] eqn:E3.
      apply (run_hook_grows _ Hna) in E3; [|reflexivity].
      intros E; inversion E; subst. eapply grows_trans; eauto.
    - rewrite Hk, set_aborted_false.
      destruct (run_hook c (add_cleanups st1 (step_cleanup k (st_id s))) HAfterStep (st_id s)) as [[st3 ra] ea] eqn:E3.
      apply (run_hook_grows _ Hna) in E3; [|reflexivity].
      intros E; inversion E; subst.
      eapply grows_trans; [eassumption|]. eapply grows_trans; [apply add_cleanups_grows | eassumption]. }
  destruct (st_kind s) eqn:K; try (apply D; assumption).
  intros E; inversion E; subst. apply grows_refl.
Qed.

Lemma steps_loop_grows c (Hna : no_hook_aborts c) wip dry scid steps : forall st l st' l' sts ev,
  na_steps steps = true ->
  steps_loop c st wip dry scid l steps = (st', l', sts, ev) -> grows st st'.
Proof.
  induction steps as [|s r IH]; intros st l st' l' sts ev Hn; cbn [steps_loop].
  - intros E; inversion E; subst. apply grows_refl.
  - cbn in Hn. apply andb_true_iff in Hn as [Hs Hr]. apply negb_true_iff in Hs.
    destruct (l_run_steps l).
    + destruct (run_step c st wip scid s) as [[[st1 status] skip] ev1] eqn:E1.
      apply (run_step_grows _ Hna) in E1; [|assumption].
      match goal with |- context [steps_loop c st1 wip dry scid ?L r] =>
        destruct (steps_loop c st1 wip dry scid L r) as [[[st2 l2] sts2] ev2] eqn:E2 end.
      intros E; inversion E; subst. eapply grows_trans; [eassumption | eapply IH; eauto].
    + destruct (l_failed l || dry).
      * match goal with |- context [let '(status, ev) := ?X in _] => destruct X as [status0 ev0] end.
        destruct (steps_loop c st wip dry scid l r) as [[[st2 l2] sts2] ev2] eqn:E2.
        intros E; inversion E; subst. eapply IH; eauto.
      * destruct (steps_loop c st wip dry scid l r) as [[[st2 l2] sts2] ev2] eqn:E2.
        intros E; inversion E; subst. eapply IH; eauto.
Qed.

Lemma pop_after_push st st3 st' cr ev :
  grows (push st) st3 -> pop st3 = (st', cr, ev) -> st' = st.
Proof.
  intros (A1 & A2 & A3). unfold pop. cbn in A1, A2, A3.
  destruct (stack st3) as [|fr rest] eqn:E.
  - exfalso. apply A3; [discriminate | reflexivity].
  - intros X; inversion X; subst. cbn in A2. rewrite A1, A2. apply state_eta.
Qed.

Lemma run_scenario_frame c (Hna : no_hook_aborts c) st id all_steps oe eff own st' res fld ev :
  na_steps all_steps = true ->
  run_scenario c st id all_steps oe eff own = (st', res, fld, ev) -> st' = st.
Proof.
  intros Hn. unfold run_scenario. cbv zeta.
  set (hc := negb (c_dry c) && sel c eff).
  assert (G1 : forall st1 hf e, (if hc then
        let '(sa, b1, e1) := run_tag_hooks c (push st) HBeforeTag own in
        let '(sb, b2, e2) := run_hook c sa HBeforeScenario id in (sb, b1 || b2, e1 ++ e2)
      else (push st, false, [])) = (st1, hf, e) -> grows (push st) st1).
  { intros st1 hf e. destruct hc.
    - destruct (run_tag_hooks c (push st) HBeforeTag own) as [[sa b1] e1] eqn:E1.
      apply (run_tag_hooks_grows _ Hna) in E1; [|reflexivity].
      destruct (run_hook c sa HBeforeScenario id) as [[sb b2] e2] eqn:E2.
      apply (run_hook_grows _ Hna) in E2; [|reflexivity].
      intros E; inversion E; subst. eapply grows_trans; eauto.
    - intros E; inversion E; subst. apply grows_refl. }
  match goal with |- context [if hc then ?A else ?B] => destruct (if hc then A else B) as [[st1 hf] evb] eqn:E1 end.
  specialize (G1 _ _ _ eq_refl). clear E1. rename G1 into E1.
  match goal with |- context [scenario_steps ?a ?b ?c0 ?d ?e ?f ?g ?h] =>
    destruct (scenario_steps a b c0 d e f g h) as [[[st2 l2] statuses] ev_steps] eqn:E2 end.
  assert (G2 : grows st1 st2).
  { unfold scenario_steps in E2.
    match type of E2 with (if ?b then _ else _) = _ => destruct b end.
    - inversion E2; subst. apply grows_refl.
    - eapply (steps_loop_grows _ Hna); eauto. }
  assert (G3 : forall st3 hf2 e, (if hc then
        let '(sa, b1, e1) := run_hook c st2 HAfterScenario id in
        let '(sb, b2, e2) := run_tag_hooks c sa HAfterTag own in (sb, hf || b1 || b2, e1 ++ e2)
      else (st2, hf, [])) = (st3, hf2, e) -> grows st2 st3).
  { intros st3 hf2 e. destruct hc.
    - destruct (run_hook c st2 HAfterScenario id) as [[sa b1] e1] eqn:E3.
      apply (run_hook_grows _ Hna) in E3; [|reflexivity].
      destruct (run_tag_hooks c sa HAfterTag own) as [[sb b2] e2] eqn:E4.
      apply (run_tag_hooks_grows _ Hna) in E4; [|reflexivity].
      intros E; inversion E; subst. eapply grows_trans; eauto.
    - intros E; inversion E; subst. apply grows_refl. }
  match goal with |- context [if hc then ?A else ?B] => destruct (if hc then A else B) as [[st3 hf2] eva] eqn:E3 end.
  specialize (G3 _ _ _ eq_refl). clear E3. rename G3 into E3.
  destruct (pop st3) as [[st4 cr] evp] eqn:E4.
  intros E; inversion E; subst.
  eapply pop_after_push; [|eassumption].
  eapply grows_trans; [eassumption|]. eapply grows_trans; eassumption.
Qed.

Lemma run_rows_frame c (Hna : no_hook_aborts c) all_steps oe anc (Hn : na_steps all_steps = true) rows : forall st stopped st' rs fld ev,
  run_rows c st all_steps oe anc rows stopped = (st', rs, fld, ev) -> st' = st.
Proof.
  induction rows as [|rw r IH]; intros st stopped st' rs fld ev; cbn [run_rows].
  - intros E; inversion E; subst. reflexivity.
  - destruct stopped.
    + destruct (run_rows c st all_steps oe anc r true) as [[[st2 rs2] f2] ev2] eqn:E2.
      intros E; inversion E; subst. eapply IH; eauto.
    + destruct (run_scenario c st (rw_id rw) all_steps oe (rw_tags rw ++ anc) (rw_tags rw))
        as [[[st1 res] fld1] ev1] eqn:E1.
      apply (run_scenario_frame _ Hna) in E1; [|assumption]. subst st1.
      match goal with |- context [run_rows c st all_steps oe anc r ?B] =>
        destruct (run_rows c st all_steps oe anc r B) as [[[st2 rs2] f2] ev2] eqn:E2 end.
      intros E; inversion E; subst. eapply IH; eauto.
Qed.

Lemma run_sitem_frame c (Hna : no_hook_aborts c) st bg anc it st' res fld ev :
  na_steps bg = true -> na_sitem it = true ->
  run_sitem c st bg anc it = (st', res, fld, ev) -> st' = st.
Proof.
  intros Hb Hi. destruct it as [s|o]; cbn [run_sitem na_sitem] in *.
  - match goal with |- context [run_scenario ?a ?b ?c0 ?d ?e ?f ?g] =>
      destruct (run_scenario a b c0 d e f g) as [[[st1 r1] f1] e1] eqn:E1 end.
    apply (run_scenario_frame _ Hna) in E1; [|rewrite na_steps_app, Hb, Hi; reflexivity].
    intros E; inversion E; subst. reflexivity.
  - unfold run_outline.
    match goal with |- context [run_rows ?a ?b ?c0 ?d ?e ?f ?g] =>
      destruct (run_rows a b c0 d e f g) as [[[st1 r1] f1] e1] eqn:E1 end.
    apply (run_rows_frame _ Hna) in E1; [|rewrite na_steps_app, Hb, Hi; reflexivity].
    intros E; inversion E; subst. reflexivity.
Qed.

Lemma run_sitems_frame c (Hna : no_hook_aborts c) bg anc (Hb : na_steps bg = true) items : forall st stopped st' rs fld ev,
  forallb na_sitem items = true ->
  run_sitems c st bg anc items stopped = (st', rs, fld, ev) -> st' = st.
Proof.
  induction items as [|it r IH]; intros st stopped st' rs fld ev Hn; cbn [run_sitems].
  - intros E; inversion E; subst. reflexivity.
  - cbn in Hn. apply andb_true_iff in Hn as [Hi Hr]. destruct stopped.
    + destruct (run_sitems c st bg anc r true) as [[[st2 rs2] f2] ev2] eqn:E2.
      intros E; inversion E; subst. eapply IH; eauto.
    + destruct (run_sitem c st bg anc it) as [[[st1 res] fld1] ev1] eqn:E1.
      apply (run_sitem_frame _ Hna) in E1; try assumption. subst st1.
      match goal with |- context [run_sitems c st bg anc r ?B] =>
        destruct (run_sitems c st bg anc r B) as [[[st2 rs2] f2] ev2] eqn:E2 end.
      intros E; inversion E; subst. eapply IH; eauto.
Qed.

(* the opening and the closing half of a container *)
Definition open_phase (c : config) (st0 : rstate) (hc : bool) (hb : hookname) (id : nat) (tags : list nat)
  : rstate * bool * list event :=
  if hc then
    let '(sa, b1, e1) := run_tag_hooks c st0 HBeforeTag tags in
    let '(sb, b2, e2) := run_hook c sa hb id in
    (sb, b1 || b2, e1 ++ e2)
  else (st0, false, []).

Definition close_phase (c : config) (st2 : rstate) (hc hf : bool) (ha : hookname) (id : nat) (tags : list nat)
  : rstate * bool * list event :=
  if hc then
    let '(sa, b1, e1) := run_hook c st2 ha id in
    let '(sb, b2, e2) := run_tag_hooks c sa HAfterTag tags in
    (sb, hf || b1 || b2, e1 ++ e2)
  else (st2, hf, []).

Lemma open_phase_grows c (Hna : no_hook_aborts c) st0 hc hb id tags st1 hf e :
  is_all_hook hb = false -> open_phase c st0 hc hb id tags = (st1, hf, e) -> grows st0 st1.
Proof.
  intros Hh. unfold open_phase. destruct hc.
  - destruct (run_tag_hooks c st0 HBeforeTag tags) as [[sa b1] e1] eqn:E1.
    apply (run_tag_hooks_grows _ Hna) in E1; [|reflexivity].
    destruct (run_hook c sa hb id) as [[sb b2] e2] eqn:E2.
    apply (run_hook_grows _ Hna) in E2; [|assumption].
    intros E; inversion E; subst. eapply grows_trans; eauto.
  - intros E; inversion E; subst. apply grows_refl.
Qed.

Lemma close_phase_grows c (Hna : no_hook_aborts c) st2 hc hf ha id tags st3 hf2 e :
  is_all_hook ha = false -> close_phase c st2 hc hf ha id tags = (st3, hf2, e) -> grows st2 st3.
Proof.
  intros Hh. unfold close_phase. destruct hc.
  - destruct (run_hook c st2 ha id) as [[sa b1] e1] eqn:E1.
    apply (run_hook_grows _ Hna) in E1; [|assumption].
    destruct (run_tag_hooks c sa HAfterTag tags) as [[sb b2] e2] eqn:E2.
    apply (run_tag_hooks_grows _ Hna) in E2; [|reflexivity].
    intros E; inversion E; subst. eapply grows_trans; eauto.
  - intros E; inversion E; subst. apply grows_refl.
Qed.

(* run_rule, opened up along its phases *)
Lemma run_rule_phases c st r anc inh fhb :
  let hc := negb (c_dry c) && rule_runs c anc r in
  let '(st1, hf, evb) := open_phase c (push st) hc HBeforeRule (r_id r) (r_tags r) in
  let skip := if hc then hf || aborted st1 else aborted st in
  let '(st2, rs, itf, evi) :=
    run_sitems c st1 (inh ++ opt_steps (r_bg r)) (r_tags r ++ anc) (r_items r) skip in
  let '(st3, hf2, eva) := close_phase c st2 hc hf HAfterRule (r_id r) (r_tags r) in
  let '(st4, cr, evp) := pop st3 in
  exists res fld ev, run_rule c st r anc inh fhb = (st4, res, fld, ev) /\ rr_items res = rs.
Proof.
  unfold run_rule, open_phase, close_phase. cbv zeta.
  destruct (negb (c_dry c) && rule_runs c anc r).
  - destruct (run_tag_hooks c (push st) HBeforeTag (r_tags r)) as [[sa b1] e1].
    destruct (run_hook c sa HBeforeRule (r_id r)) as [[sb b2] e2].
    match goal with |- context [run_sitems ?a ?b ?c0 ?d ?e ?f] =>
      destruct (run_sitems a b c0 d e f) as [[[st2 rs] itf] evi] end.
    destruct (run_hook c st2 HAfterRule (r_id r)) as [[sc b3] e3].
    destruct (run_tag_hooks c sc HAfterTag (r_tags r)) as [[sd b4] e4].
    destruct (pop sd) as [[st4 cr] evp]. eauto.
  - match goal with |- context [run_sitems ?a ?b ?c0 ?d ?e ?f] =>
      destruct (run_sitems a b c0 d e f) as [[[st2 rs] itf] evi] end.
    destruct (pop st2) as [[st4 cr] evp]. eauto.
Qed.

Lemma run_rule_frame c (Hna : no_hook_aborts c) st r anc inh fhb st' res fld ev :
  na_steps inh = true -> na_rule r = true ->
  run_rule c st r anc inh fhb = (st', res, fld, ev) -> st' = st.
Proof.
  intros Hi Hr. unfold na_rule in Hr. apply andb_true_iff in Hr as [Hb Hits].
  pose proof (run_rule_phases c st r anc inh fhb) as P. cbv zeta in P.
  destruct (open_phase c (push st) (negb (c_dry c) && rule_runs c anc r) HBeforeRule (r_id r) (r_tags r))
    as [[st1 hf] evb] eqn:E1.
  apply (open_phase_grows _ Hna) in E1; [|reflexivity].
  match type of P with context [run_sitems ?a ?b ?c0 ?d ?e ?f] =>
    destruct (run_sitems a b c0 d e f) as [[[st2 rs] itf] evi] eqn:E2 end.
  apply (run_sitems_frame _ Hna) in E2; [|rewrite na_steps_app, Hi, Hb; reflexivity|assumption]. subst st2.
  match type of P with context [close_phase ?a ?b ?c0 ?d ?e ?f ?g] =>
    destruct (close_phase a b c0 d e f g) as [[st3 hf2] eva] eqn:E3 end.
  apply (close_phase_grows _ Hna) in E3; [|reflexivity].
  destruct (pop st3) as [[st4 cr] evp] eqn:E4.
  destruct P as (res0 & fld0 & ev0 & P & _). rewrite P. intros E; inversion E; subst.
  eapply pop_after_push; [|eassumption]. eapply grows_trans; eassumption.
Qed.

Lemma run_fitem_frame c (Hna : no_hook_aborts c) st bg hb anc it st' res fld ev :
  na_steps bg = true -> na_fitem it = true ->
  run_fitem c st bg hb anc it = (st', res, fld, ev) -> st' = st.
Proof.
  intros Hb Hi. destruct it as [i|r]; cbn [run_fitem na_fitem] in *.
  - destruct (run_sitem c st bg anc i) as [[[st1 r1] f1] e1] eqn:E1.
    apply (run_sitem_frame _ Hna) in E1; try assumption. intros E; inversion E; subst. reflexivity.
  - destruct (run_rule c st r anc bg hb) as [[[st1 r1] f1] e1] eqn:E1.
    apply (run_rule_frame _ Hna) in E1; try assumption. intros E; inversion E; subst. reflexivity.
Qed.

Lemma run_fitems_frame c (Hna : no_hook_aborts c) bg hb anc (Hb : na_steps bg = true) items : forall st stopped st' rs fld ev,
  forallb na_fitem items = true ->
  run_fitems c st bg hb anc items stopped = (st', rs, fld, ev) -> st' = st.
Proof.
  induction items as [|it r IH]; intros st stopped st' rs fld ev Hn; cbn [run_fitems].
  - intros E; inversion E; subst. reflexivity.
  - cbn in Hn. apply andb_true_iff in Hn as [Hi Hr]. destruct stopped.
    + destruct (run_fitems c st bg hb anc r true) as [[[st2 rs2] f2] ev2] eqn:E2.
      intros E; inversion E; subst. eapply IH; eauto.
    + destruct (run_fitem c st bg hb anc it) as [[[st1 res] fld1] ev1] eqn:E1.
      apply (run_fitem_frame _ Hna) in E1; try assumption. subst st1.
      match goal with |- context [run_fitems c st bg hb anc r ?B] =>
        destruct (run_fitems c st bg hb anc r B) as [[[st2 rs2] f2] ev2] eqn:E2 end.
      intros E; inversion E; subst. eapply IH; eauto.
Qed.

Lemma run_feature_phases c st f :
  let hc := negb (c_dry c) && feature_should_run c f in
  let '(st1, hf, evb) := open_phase c (push st) hc HBeforeFeature (f_id f) (f_tags f) in
  let skip := if hc then hf || aborted st1 else aborted st in
  let '(st2, rs, itf, evi) :=
    run_fitems (items_cfg c hc) st1 (opt_steps (f_bg f)) (match f_bg f with Some _ => true | None => false end)
               (f_tags f) (f_items f) skip in
  let '(st3, hf2, eva) := close_phase c st2 hc hf HAfterFeature (f_id f) (f_tags f) in
  let '(st4, cr, evp) := pop st3 in
  exists res fld ev, run_feature c st f = (st4, res, fld, ev) /\ fr_items res = rs.
Proof.
  unfold run_feature, open_phase, close_phase. cbv zeta.
  destruct (negb (c_dry c) && feature_should_run c f).
  - destruct (run_tag_hooks c (push st) HBeforeTag (f_tags f)) as [[sa b1] e1].
    destruct (run_hook c sa HBeforeFeature (f_id f)) as [[sb b2] e2].
    match goal with |- context [run_fitems ?a ?b ?c0 ?d ?e ?f0 ?g] =>
      destruct (run_fitems a b c0 d e f0 g) as [[[st2 rs] itf] evi] end.
    destruct (run_hook c st2 HAfterFeature (f_id f)) as [[sc b3] e3].
    destruct (run_tag_hooks c sc HAfterTag (f_tags f)) as [[sd b4] e4].
    destruct (pop sd) as [[st4 cr] evp]. eauto.
  - match goal with |- context [run_fitems ?a ?b ?c0 ?d ?e ?f0 ?g] =>
      destruct (run_fitems a b c0 d e f0 g) as [[[st2 rs] itf] evi] end.
    destruct (pop st2) as [[st4 cr] evp]. eauto.
Qed.

Lemma run_feature_frame c (Hna : no_hook_aborts c) st f st' res fld ev :
  na_feature f = true -> run_feature c st f = (st', res, fld, ev) -> st' = st.
Proof.
  intros Hf. unfold na_feature in Hf. apply andb_true_iff in Hf as [Hb Hits].
  pose proof (run_feature_phases c st f) as P. cbv zeta in P.
  destruct (open_phase c (push st) (negb (c_dry c) && feature_should_run c f) HBeforeFeature (f_id f) (f_tags f))
    as [[st1 hf] evb] eqn:E1.
  apply (open_phase_grows _ Hna) in E1; [|reflexivity].
  match type of P with context [run_fitems ?a ?b ?c0 ?d ?e ?f0 ?g] =>
    destruct (run_fitems a b c0 d e f0 g) as [[[st2 rs] itf] evi] eqn:E2 end.
  apply (run_fitems_frame (items_cfg c (negb (c_dry c) && feature_should_run c f)) Hna) in E2; try assumption. subst st2.
  match type of P with context [close_phase ?a ?b ?c0 ?d ?e ?f0 ?g] =>
    destruct (close_phase a b c0 d e f0 g) as [[st3 hf2] eva] eqn:E3 end.
  apply (close_phase_grows _ Hna) in E3; [|reflexivity].
  destruct (pop st3) as [[st4 cr] evp] eqn:E4.
  destruct P as (res0 & fld0 & ev0 & P & _). rewrite P. intros E; inversion E; subst.
  eapply pop_after_push; [|eassumption]. eapply grows_trans; eassumption.
Qed.

(* ------------------------------------------------------------------ (A) locality *)
Section Local.
Variable cfg : config.
Variable f2 : hookname -> nat -> bool.
Hypothesis Hna : no_hook_aborts cfg.
Let cfg2 := set_faults cfg f2.

Definition same_at (h : hookname) (k : nat) : Prop := c_faults cfg h k = f2 h k.
Definition agree_tags (tags : list nat) : Prop :=
  forall t, In t tags -> same_at HBeforeTag t /\ same_at HAfterTag t.
Definition agree_steps (steps : list step) : Prop :=
  forall s, In s steps -> same_at HBeforeStep (st_id s) /\ same_at HAfterStep (st_id s).
Definition agree_own (hb ha : hookname) (id : nat) (tags : list nat) : Prop :=
  agree_tags tags /\ same_at hb id /\ same_at ha id.
Definition agree_scen (id : nat) (all_steps : list step) (own : list nat) : Prop :=
  agree_own HBeforeScenario HAfterScenario id own /\ agree_steps all_steps.
Definition agree_sitem (bg : list step) (it : sitem) : Prop :=
  match it with
  | SScen s => agree_scen (sc_id s) (bg ++ sc_steps s) (sc_tags s)
  | SOutline o => forall rw, In rw (outline_rows o) -> agree_scen (rw_id rw) (bg ++ o_steps o) (rw_tags rw)
  end.
Definition agree_rule (inh : list step) (r : rule) : Prop :=
  agree_own HBeforeRule HAfterRule (r_id r) (r_tags r) /\
  forall it, In it (r_items r) -> agree_sitem (inh ++ opt_steps (r_bg r)) it.
Definition agree_fitem (bg : list step) (it : fitem) : Prop :=
  match it with FItem i => agree_sitem bg i | FRule r => agree_rule bg r end.
Definition agree_feature (f : feature) : Prop :=
  agree_own HBeforeFeature HAfterFeature (f_id f) (f_tags f) /\
  forall it, In it (f_items f) -> agree_fitem (opt_steps (f_bg f)) it.

Lemma sf_dry : c_dry cfg2 = c_dry cfg. Proof. reflexivity. Qed.
Lemma sf_stop : c_stop cfg2 = c_stop cfg. Proof. reflexivity. Qed.
Lemma sf_show : c_show_skipped cfg2 = c_show_skipped cfg. Proof. reflexivity. Qed.
Lemma sf_expr : c_expr cfg2 = c_expr cfg. Proof. reflexivity. Qed.
Lemma sf_wip : c_wip cfg2 = c_wip cfg. Proof. reflexivity. Qed.
Lemma sf_sel eff : sel cfg2 eff = sel cfg eff. Proof. reflexivity. Qed.
Lemma sf_feature_runs b f : feature_runs cfg2 b f = feature_runs cfg b f. Proof. reflexivity. Qed.
Lemma sf_cont : c_cont cfg2 = c_cont cfg. Proof. reflexivity. Qed.
Lemma sf_rule_should_run anc r : rule_runs cfg2 anc r = rule_runs cfg anc r.
Proof. reflexivity. Qed.
Lemma sf_feature_should_run f : feature_should_run cfg2 f = feature_should_run cfg f.
Proof. reflexivity. Qed.

Ltac sf := rewrite ?sf_dry, ?sf_stop, ?sf_show, ?sf_expr, ?sf_wip, ?sf_cont, ?sf_sel, ?sf_feature_runs,
                   ?sf_rule_should_run, ?sf_feature_should_run.

Lemma run_hook_local st h k : same_at h k -> run_hook cfg2 st h k = run_hook cfg st h k.
Proof. unfold same_at, run_hook. cbn. intros ->. reflexivity. Qed.

Lemma run_tag_hooks_local h tags : (forall t, In t tags -> same_at h t) ->
  forall st, run_tag_hooks cfg2 st h tags = run_tag_hooks cfg st h tags.
Proof.
  induction tags as [|t r IH]; intros H st; cbn [run_tag_hooks]; [reflexivity|].
  rewrite run_hook_local by (apply H; now left).
  destruct (run_hook cfg st h t) as [[st1 b1] e1]. rewrite IH by (intros; apply H; now right). reflexivity.
Qed.

Lemma run_step_local st wip scid s :
  same_at HBeforeStep (st_id s) -> same_at HAfterStep (st_id s) ->
  run_step cfg2 st wip scid s = run_step cfg st wip scid s.
Proof.
  intros Hb Ha. unfold run_step.
  assert (D : forall k, run_defined_step cfg2 st wip scid k (st_id s) = run_defined_step cfg st wip scid k (st_id s)).
  { intros k. unfold run_defined_step. rewrite run_hook_local by assumption.
    destruct (run_hook cfg st HBeforeStep (st_id s)) as [[st1 rb] eb].
    destruct rb; rewrite run_hook_local by assumption; reflexivity. }
  destruct (st_kind s); auto.
Qed.

Lemma steps_loop_local wip dry scid steps : agree_steps steps ->
  forall st l, steps_loop cfg2 st wip dry scid l steps = steps_loop cfg st wip dry scid l steps.
Proof.
  induction steps as [|s r IH]; intros H st l; cbn [steps_loop]; [reflexivity|].
  assert (Hr : agree_steps r) by (intros x Hx; apply H; now right).
  destruct (H s (or_introl eq_refl)) as [Hb Ha].
  rewrite run_step_local by assumption. sf.
  destruct (l_run_steps l).
  - destruct (run_step cfg st wip scid s) as [[[st1 status] skip] ev]. cbv zeta. rewrite IH by assumption. reflexivity.
  - rewrite IH by assumption. reflexivity.
Qed.

Lemma run_scenario_local st id all_steps oe eff own : agree_scen id all_steps own ->
  run_scenario cfg2 st id all_steps oe eff own = run_scenario cfg st id all_steps oe eff own.
Proof.
  intros [(Ht & Hb & Ha) Hs]. unfold run_scenario. cbv zeta. sf.
  rewrite (run_tag_hooks_local HBeforeTag own) by (intros t Hin; apply (Ht t Hin)).
  destruct (negb (c_dry cfg) && sel cfg eff).
  - destruct (run_tag_hooks cfg (push st) HBeforeTag own) as [[sa b1] e1].
    rewrite run_hook_local by assumption.
    destruct (run_hook cfg sa HBeforeScenario id) as [[sb b2] e2].
    unfold scenario_steps. sf. rewrite steps_loop_local by assumption.
    match goal with |- context [if ?B then (sb, ?X, ?Y, ?Z) else ?W] => destruct (if B then (sb, X, Y, Z) else W) as [[[st2 l2] sts] evs] end.
    rewrite run_hook_local by assumption.
    destruct (run_hook cfg st2 HAfterScenario id) as [[sc b3] e3].
    rewrite (run_tag_hooks_local HAfterTag own) by (intros t Hin; apply (Ht t Hin)).
    reflexivity.
  - unfold scenario_steps. sf. rewrite steps_loop_local by assumption. reflexivity.
Qed.

Lemma run_rows_local all_steps oe anc rows :
  (forall rw, In rw rows -> agree_scen (rw_id rw) all_steps (rw_tags rw)) ->
  forall st stopped, run_rows cfg2 st all_steps oe anc rows stopped = run_rows cfg st all_steps oe anc rows stopped.
Proof.
  induction rows as [|rw r IH]; intros H st stopped; cbn [run_rows]; [reflexivity|].
  assert (Hr : forall x, In x r -> agree_scen (rw_id x) all_steps (rw_tags x)) by (intros; apply H; now right).
  destruct stopped.
  - rewrite IH by assumption. reflexivity.
  - rewrite run_scenario_local by (apply H; now left).
    destruct (run_scenario cfg st (rw_id rw) all_steps oe (rw_tags rw ++ anc) (rw_tags rw)) as [[[st1 res] fld] ev].
    sf. rewrite IH by assumption. reflexivity.
Qed.

Lemma run_sitem_local st bg anc it : agree_sitem bg it ->
  run_sitem cfg2 st bg anc it = run_sitem cfg st bg anc it.
Proof.
  destruct it as [s|o]; cbn [agree_sitem run_sitem]; intros H.
  - rewrite run_scenario_local by assumption. reflexivity.
  - unfold run_outline. rewrite run_rows_local by assumption. reflexivity.
Qed.

Lemma run_sitems_local bg anc items : (forall it, In it items -> agree_sitem bg it) ->
  forall st stopped, run_sitems cfg2 st bg anc items stopped = run_sitems cfg st bg anc items stopped.
Proof.
  induction items as [|it r IH]; intros H st stopped; cbn [run_sitems]; [reflexivity|].
  assert (Hr : forall x, In x r -> agree_sitem bg x) by (intros; apply H; now right).
  destruct stopped.
  - rewrite IH by assumption. reflexivity.
  - rewrite run_sitem_local by (apply H; now left).
    destruct (run_sitem cfg st bg anc it) as [[[st1 res] fld] ev].
    sf. rewrite IH by assumption. reflexivity.
Qed.

Lemma open_phase_local st0 hc hb id tags : agree_tags tags -> same_at hb id ->
  open_phase cfg2 st0 hc hb id tags = open_phase cfg st0 hc hb id tags.
Proof.
  intros Ht Hb. unfold open_phase. destruct hc; [|reflexivity].
  rewrite (run_tag_hooks_local HBeforeTag tags) by (intros t Hin; apply (Ht t Hin)).
  destruct (run_tag_hooks cfg st0 HBeforeTag tags) as [[sa b1] e1].
  rewrite run_hook_local by assumption. reflexivity.
Qed.

Lemma close_phase_local st2 hc hf ha id tags : agree_tags tags -> same_at ha id ->
  close_phase cfg2 st2 hc hf ha id tags = close_phase cfg st2 hc hf ha id tags.
Proof.
  intros Ht Ha. unfold close_phase. destruct hc; [|reflexivity].
  rewrite run_hook_local by assumption.
  destruct (run_hook cfg st2 ha id) as [[sa b1] e1].
  rewrite (run_tag_hooks_local HAfterTag tags) by (intros t Hin; apply (Ht t Hin)). reflexivity.
Qed.

Lemma run_rule_local st r anc inh fhb : agree_rule inh r ->
  run_rule cfg2 st r anc inh fhb = run_rule cfg st r anc inh fhb.
Proof.
  intros [(Ht & Hb & Ha) Hits]. unfold run_rule. cbv zeta. sf.
  rewrite (run_tag_hooks_local HBeforeTag (r_tags r)) by (intros t Hin; apply (Ht t Hin)).
  destruct (negb (c_dry cfg) && rule_runs cfg anc r).
  - destruct (run_tag_hooks cfg (push st) HBeforeTag (r_tags r)) as [[sa b1] e1].
    rewrite run_hook_local by assumption.
    destruct (run_hook cfg sa HBeforeRule (r_id r)) as [[sb b2] e2].
    rewrite run_sitems_local by assumption.
    match goal with |- context [run_sitems cfg ?b ?c0 ?d ?e ?f] =>
      destruct (run_sitems cfg b c0 d e f) as [[[st2 rs] itf] evi] end.
    rewrite run_hook_local by assumption.
    destruct (run_hook cfg st2 HAfterRule (r_id r)) as [[sc b3] e3].
    rewrite (run_tag_hooks_local HAfterTag (r_tags r)) by (intros t Hin; apply (Ht t Hin)).
    reflexivity.
  - rewrite run_sitems_local by assumption. reflexivity.
Qed.

Lemma run_fitem_local st bg hb anc it : agree_fitem bg it ->
  run_fitem cfg2 st bg hb anc it = run_fitem cfg st bg hb anc it.
Proof.
  destruct it as [i|r]; cbn [agree_fitem run_fitem]; intros H.
  - rewrite run_sitem_local by assumption. reflexivity.
  - rewrite run_rule_local by assumption. reflexivity.
Qed.

Lemma run_fitems_local bg hb anc items : (forall it, In it items -> agree_fitem bg it) ->
  forall st stopped, run_fitems cfg2 st bg hb anc items stopped = run_fitems cfg st bg hb anc items stopped.
Proof.
  induction items as [|it r IH]; intros H st stopped; cbn [run_fitems]; [reflexivity|].
  assert (Hr : forall x, In x r -> agree_fitem bg x) by (intros; apply H; now right).
  destruct stopped.
  - rewrite IH by assumption. reflexivity.
  - rewrite run_fitem_local by (apply H; now left).
    destruct (run_fitem cfg st bg hb anc it) as [[[st1 res] fld] ev].
    sf. rewrite IH by assumption. reflexivity.
Qed.

(* ------------------------------------------------------------------ (C) non-interference *)
Fixpoint sim_list {A R : Type} (P : A -> R -> R -> Prop) (xs : list A) (r1 r2 : list R) : Prop :=
  match xs, r1, r2 with
  | [], [], [] => True
  | x :: xs', a :: r1', b :: r2' => P x a b /\ sim_list P xs' r1' r2'
  | _, _, _ => False
  end.

Lemma sim_list_refl {A R : Type} (P : A -> R -> R -> Prop) (g : A -> R) xs :
  (forall x, In x xs -> P x (g x) (g x)) -> sim_list P xs (map g xs) (map g xs).
Proof.
  induction xs as [|x r IH]; intros H; cbn; [exact I|].
  split; [apply H; now left | apply IH; intros; apply H; now right].
Qed.

(* results of the run under [cfg] (first) and under [cfg2] (second) *)
Definition sim_row (all_steps : list step) (rw : rowspec) (a b : scen_res) : Prop :=
  agree_scen (rw_id rw) all_steps (rw_tags rw) -> a = b.

Definition sim_sitem (bg : list step) (it : sitem) (a b : item_res) : Prop :=
  (agree_sitem bg it -> a = b) /\
  match it with
  | SScen _ => True
  | SOutline o =>
      match a, b with
      | ROutline _ _ rows1, ROutline _ _ rows2 =>
          sim_list (sim_row (bg ++ o_steps o)) (outline_rows o) rows1 rows2
      | _, _ => False
      end
  end.

Definition sim_rule (inh : list step) (r : rule) (a b : rule_res) : Prop :=
  (agree_rule inh r -> a = b) /\
  (agree_own HBeforeRule HAfterRule (r_id r) (r_tags r) ->
   sim_list (sim_sitem (inh ++ opt_steps (r_bg r))) (r_items r) (rr_items a) (rr_items b)).

Definition sim_fitem (bg : list step) (it : fitem) (a b : fitem_res) : Prop :=
  match it, a, b with
  | FItem i, RFItem x, RFItem y => sim_sitem bg i x y
  | FRule r, RFRule x, RFRule y => sim_rule bg r x y
  | _, _, _ => False
  end.

Definition sim_feature (f : feature) (a b : feat_res) : Prop :=
  (agree_feature f -> a = b) /\
  (agree_own HBeforeFeature HAfterFeature (f_id f) (f_tags f) ->
   sim_list (sim_fitem (opt_steps (f_bg f))) (f_items f) (fr_items a) (fr_items b)).

(* elements that were not run at all are the same in both runs *)
Lemma sim_sitem_notrun bg it : sim_sitem bg it (notrun_sitem bg it) (notrun_sitem bg it).
Proof.
  split; [reflexivity|]. destruct it as [s|o]; [exact I|]. cbn [notrun_sitem]. unfold notrun_outline.
  apply sim_list_refl. intros rw _ _. reflexivity.
Qed.

Lemma sim_fitem_notrun bg it : sim_fitem bg it (notrun_fitem bg it) (notrun_fitem bg it).
Proof.
  destruct it as [i|r]; cbn [sim_fitem notrun_fitem].
  - apply sim_sitem_notrun.
  - split; [reflexivity|]. intros _. unfold notrun_rule. cbn [rr_items].
    apply sim_list_refl. intros it _. apply sim_sitem_notrun.
Qed.

Hypothesis Hstop : c_stop cfg = false.

Lemma sim_rows all_steps oe anc (Hn : na_steps all_steps = true) rows : forall st stopped s1 rs1 fl1 ev1 s2 rs2 fl2 ev2,
  aborted st = false ->
  run_rows cfg st all_steps oe anc rows stopped = (s1, rs1, fl1, ev1) ->
  run_rows cfg2 st all_steps oe anc rows stopped = (s2, rs2, fl2, ev2) ->
  sim_list (sim_row all_steps) rows rs1 rs2.
Proof.
  induction rows as [|rw r IH]; intros st stopped s1 rs1 fl1 ev1 s2 rs2 fl2 ev2 Hab; cbn [run_rows].
  - intros E1 E2; inversion E1; inversion E2; subst. exact I.
  - destruct stopped.
    + destruct (run_rows cfg st all_steps oe anc r true) as [[[sa ra] fa] ea] eqn:Ea.
      destruct (run_rows cfg2 st all_steps oe anc r true) as [[[sb rb] fb] eb] eqn:Eb.
      intros E1 E2; inversion E1; inversion E2; subst. cbn. split; [intros _; reflexivity|].
      eapply IH; eauto.
    + destruct (run_scenario cfg st (rw_id rw) all_steps oe (rw_tags rw ++ anc) (rw_tags rw))
        as [[[sa resa] fa] ea] eqn:Ea.
      destruct (run_scenario cfg2 st (rw_id rw) all_steps oe (rw_tags rw ++ anc) (rw_tags rw))
        as [[[sb resb] fb] eb] eqn:Eb.
      pose proof (run_scenario_frame _ Hna _ _ _ _ _ _ _ _ _ _ Hn Ea). subst sa.
      pose proof (run_scenario_frame cfg2 Hna _ _ _ _ _ _ _ _ _ _ Hn Eb). subst sb.
      sf. rewrite Hstop, Hab. cbn [orb]. rewrite !andb_false_r.
      destruct (run_rows cfg st all_steps oe anc r false) as [[[sc rc] fc] ec] eqn:Ec.
      destruct (run_rows cfg2 st all_steps oe anc r false) as [[[sd rd] fd] ed] eqn:Ed.
      intros E1 E2; inversion E1; inversion E2; subst. cbn. split.
      * intros Hag. rewrite run_scenario_local in Eb by assumption. congruence.
      * eapply IH; eauto.
Qed.

Lemma sim_run_sitem st bg anc it s1 r1 fl1 ev1 s2 r2 fl2 ev2 :
  aborted st = false -> na_steps bg = true -> na_sitem it = true ->
  run_sitem cfg st bg anc it = (s1, r1, fl1, ev1) ->
  run_sitem cfg2 st bg anc it = (s2, r2, fl2, ev2) ->
  sim_sitem bg it r1 r2.
Proof.
  intros Hab Hb Hi E1 E2. split.
  - intros Hag. rewrite run_sitem_local in E2 by assumption. congruence.
  - destruct it as [s|o]; [exact I|]. cbn [run_sitem] in E1, E2. unfold run_outline in E1, E2.
    match type of E1 with context [run_rows ?a ?b ?c0 ?d ?e ?f ?g] =>
      destruct (run_rows a b c0 d e f g) as [[[sa ra] fa] ea] eqn:Ea end.
    match type of E2 with context [run_rows ?a ?b ?c0 ?d ?e ?f ?g] =>
      destruct (run_rows a b c0 d e f g) as [[[sb rb] fb] eb] eqn:Eb end.
    inversion E1; inversion E2; subst.
    eapply sim_rows; eauto. cbn [na_sitem] in Hi. rewrite na_steps_app, Hb, Hi. reflexivity.
Qed.

Lemma sim_run_sitems bg anc (Hb : na_steps bg = true) items : forall st stopped s1 rs1 fl1 ev1 s2 rs2 fl2 ev2,
  aborted st = false -> forallb na_sitem items = true ->
  run_sitems cfg st bg anc items stopped = (s1, rs1, fl1, ev1) ->
  run_sitems cfg2 st bg anc items stopped = (s2, rs2, fl2, ev2) ->
  sim_list (sim_sitem bg) items rs1 rs2.
Proof.
  induction items as [|it r IH]; intros st stopped s1 rs1 fl1 ev1 s2 rs2 fl2 ev2 Hab Hn; cbn [run_sitems].
  - intros E1 E2; inversion E1; inversion E2; subst. exact I.
  - cbn in Hn. apply andb_true_iff in Hn as [Hi Hr]. destruct stopped.
    + destruct (run_sitems cfg st bg anc r true) as [[[sa ra] fa] ea] eqn:Ea.
      destruct (run_sitems cfg2 st bg anc r true) as [[[sb rb] fb] eb] eqn:Eb.
      intros E1 E2; inversion E1; inversion E2; subst. cbn. split; [apply sim_sitem_notrun|].
      eapply IH; eauto.
    + destruct (run_sitem cfg st bg anc it) as [[[sa resa] fa] ea] eqn:Ea.
      destruct (run_sitem cfg2 st bg anc it) as [[[sb resb] fb] eb] eqn:Eb.
      pose proof (run_sitem_frame _ Hna _ _ _ _ _ _ _ _ Hb Hi Ea). subst sa.
      pose proof (run_sitem_frame cfg2 Hna _ _ _ _ _ _ _ _ Hb Hi Eb). subst sb.
      sf. rewrite Hstop, Hab. cbn [orb]. rewrite !andb_false_r.
      destruct (run_sitems cfg st bg anc r false) as [[[sc rc] fc] ec] eqn:Ec.
      destruct (run_sitems cfg2 st bg anc r false) as [[[sd rd] fd] ed] eqn:Ed.
      intros E1 E2; inversion E1; inversion E2; subst. cbn. split.
      * eapply sim_run_sitem; eauto.
      * eapply IH; eauto.
Qed.

Lemma sim_run_rule st r anc inh fhb s1 r1 fl1 ev1 s2 r2 fl2 ev2 :
  aborted st = false -> na_steps inh = true -> na_rule r = true ->
  run_rule cfg st r anc inh fhb = (s1, r1, fl1, ev1) ->
  run_rule cfg2 st r anc inh fhb = (s2, r2, fl2, ev2) ->
  sim_rule inh r r1 r2.
Proof.
  intros Hab Hi Hr E1 E2. split.
  - intros Hag. rewrite run_rule_local in E2 by assumption. congruence.
  - intros (Ht & Hb & Ha).
    unfold na_rule in Hr. apply andb_true_iff in Hr as [Hbg Hits].
    pose proof (run_rule_phases cfg st r anc inh fhb) as P1.
    pose proof (run_rule_phases cfg2 st r anc inh fhb) as P2.
    cbv zeta in P1, P2. rewrite sf_dry, sf_rule_should_run in P2.
    rewrite open_phase_local in P2 by assumption.
    destruct (open_phase cfg (push st) (negb (c_dry cfg) && rule_runs cfg anc r) HBeforeRule (r_id r) (r_tags r))
      as [[st1 hf] evb] eqn:Eo.
    apply (open_phase_grows _ Hna) in Eo; [|reflexivity]. destruct Eo as (Ab & _). cbn in Ab.
    match type of P1 with context [run_sitems ?a ?b ?c0 ?d ?e ?f] =>
      destruct (run_sitems a b c0 d e f) as [[[sa ra] fa] ea] eqn:Ea end.
    match type of P2 with context [run_sitems ?a ?b ?c0 ?d ?e ?f] =>
      destruct (run_sitems a b c0 d e f) as [[[sb rb] fb] eb] eqn:Eb end.
    match type of P1 with context [close_phase ?a ?b ?c0 ?d ?e ?f ?g] =>
      destruct (close_phase a b c0 d e f g) as [[sc hfc] evc] end.
    match type of P2 with context [close_phase ?a ?b ?c0 ?d ?e ?f ?g] =>
      destruct (close_phase a b c0 d e f g) as [[sd hfd] evd] end.
    destruct (pop sc) as [[se cre] eve]. destruct (pop sd) as [[sf0 crf] evf].
    destruct P1 as (x1 & y1 & z1 & P1 & Q1). destruct P2 as (x2 & y2 & z2 & P2 & Q2).
    rewrite P1 in E1. rewrite P2 in E2. inversion E1; inversion E2; subst.
    eapply sim_run_sitems; [ | | |exact Ea|exact Eb]; try assumption.
    + rewrite na_steps_app, Hi, Hbg. reflexivity.
    + congruence.
Qed.

Lemma sim_run_fitem st bg hb anc it s1 r1 fl1 ev1 s2 r2 fl2 ev2 :
  aborted st = false -> na_steps bg = true -> na_fitem it = true ->
  run_fitem cfg st bg hb anc it = (s1, r1, fl1, ev1) ->
  run_fitem cfg2 st bg hb anc it = (s2, r2, fl2, ev2) ->
  sim_fitem bg it r1 r2.
Proof.
  intros Hab Hb Hi. destruct it as [i|r]; cbn [run_fitem na_fitem] in *.
  - destruct (run_sitem cfg st bg anc i) as [[[sa ra] fa] ea] eqn:Ea.
    destruct (run_sitem cfg2 st bg anc i) as [[[sb rb] fb] eb] eqn:Eb.
    intros E1 E2; inversion E1; inversion E2; subst. cbn. eapply sim_run_sitem; eauto.
  - destruct (run_rule cfg st r anc bg hb) as [[[sa ra] fa] ea] eqn:Ea.
    destruct (run_rule cfg2 st r anc bg hb) as [[[sb rb] fb] eb] eqn:Eb.
    intros E1 E2; inversion E1; inversion E2; subst. cbn. eapply sim_run_rule; eauto.
Qed.

Lemma sim_run_fitems bg hb anc (Hb : na_steps bg = true) items : forall st stopped s1 rs1 fl1 ev1 s2 rs2 fl2 ev2,
  aborted st = false -> forallb na_fitem items = true ->
  run_fitems cfg st bg hb anc items stopped = (s1, rs1, fl1, ev1) ->
  run_fitems cfg2 st bg hb anc items stopped = (s2, rs2, fl2, ev2) ->
  sim_list (sim_fitem bg) items rs1 rs2.
Proof.
  induction items as [|it r IH]; intros st stopped s1 rs1 fl1 ev1 s2 rs2 fl2 ev2 Hab Hn; cbn [run_fitems].
  - intros E1 E2; inversion E1; inversion E2; subst. exact I.
  - cbn in Hn. apply andb_true_iff in Hn as [Hi Hr]. destruct stopped.
    + destruct (run_fitems cfg st bg hb anc r true) as [[[sa ra] fa] ea] eqn:Ea.
      destruct (run_fitems cfg2 st bg hb anc r true) as [[[sb rb] fb] eb] eqn:Eb.
      intros E1 E2; inversion E1; inversion E2; subst. cbn [sim_list]. split; [apply sim_fitem_notrun|].
      eapply IH; eauto.
    + destruct (run_fitem cfg st bg hb anc it) as [[[sa resa] fa] ea] eqn:Ea.
      destruct (run_fitem cfg2 st bg hb anc it) as [[[sb resb] fb] eb] eqn:Eb.
      pose proof (run_fitem_frame _ Hna _ _ _ _ _ _ _ _ _ Hb Hi Ea). subst sa.
      pose proof (run_fitem_frame cfg2 Hna _ _ _ _ _ _ _ _ _ Hb Hi Eb). subst sb.
      sf. rewrite Hstop, Hab. cbn [orb]. rewrite !andb_false_r.
      destruct (run_fitems cfg st bg hb anc r false) as [[[sc rc] fc] ec] eqn:Ec.
      destruct (run_fitems cfg2 st bg hb anc r false) as [[[sd rd] fd] ed] eqn:Ed.
      intros E1 E2; inversion E1; inversion E2; subst. cbn [sim_list]. split.
      * eapply sim_run_fitem; eauto.
      * eapply IH; eauto.
Qed.

End Local.

(* the feature level: the items of a feature run under [items_cfg] (the exclusions made by the
   before_feature hook are in force), which has the same hooks and faults *)
Section LocalRun.
Variable cfg : config.
Variable f2 : hookname -> nat -> bool.
Hypothesis Hna : no_hook_aborts cfg.
Let cfg2 := set_faults cfg f2.
Hypothesis Hstop : c_stop cfg = false.
Local Notation same_at := (same_at cfg f2).
Local Notation agree_feature := (agree_feature cfg f2).
Local Notation sim_feature := (sim_feature cfg f2).
Local Notation run_hook_local := (run_hook_local cfg f2).
Local Notation run_tag_hooks_local := (run_tag_hooks_local cfg f2).
Local Notation open_phase_local := (open_phase_local cfg f2).

Lemma sf_dry' : c_dry cfg2 = c_dry cfg. Proof. reflexivity. Qed.
Lemma sf_stop' : c_stop cfg2 = c_stop cfg. Proof. reflexivity. Qed.
Lemma sf_show' : c_show_skipped cfg2 = c_show_skipped cfg. Proof. reflexivity. Qed.
Lemma sf_feature_should_run' f : feature_should_run cfg2 f = feature_should_run cfg f. Proof. reflexivity. Qed.
Lemma sf_feature_runs' b f : feature_runs cfg2 b f = feature_runs cfg b f. Proof. reflexivity. Qed.
Lemma sf_items_cfg b : items_cfg cfg2 b = set_faults (items_cfg cfg b) f2. Proof. reflexivity. Qed.
Ltac sf := rewrite ?sf_dry', ?sf_stop', ?sf_show', ?sf_feature_should_run', ?sf_feature_runs', ?sf_items_cfg.

Lemma run_feature_local st f : agree_feature f -> run_feature cfg2 st f = run_feature cfg st f.
Proof.
  intros [(Ht & Hb & Ha) Hits]. unfold run_feature. cbv zeta. sf.
  rewrite (run_tag_hooks_local HBeforeTag (f_tags f)) by (intros t Hin; apply (Ht t Hin)).
  destruct (negb (c_dry cfg) && feature_should_run cfg f).
  - destruct (run_tag_hooks cfg (push st) HBeforeTag (f_tags f)) as [[sa b1] e1].
    rewrite run_hook_local by assumption.
    destruct (run_hook cfg sa HBeforeFeature (f_id f)) as [[sb b2] e2].
    rewrite (RunnerLocal.run_fitems_local (items_cfg cfg true) f2) by exact Hits.
    match goal with |- context [run_fitems ?a ?b ?c0 ?d ?e ?f0 ?g] =>
      destruct (run_fitems a b c0 d e f0 g) as [[[st2 rs] itf] evi] end.
    rewrite run_hook_local by assumption.
    destruct (run_hook cfg st2 HAfterFeature (f_id f)) as [[sc b3] e3].
    rewrite (run_tag_hooks_local HAfterTag (f_tags f)) by (intros t Hin; apply (Ht t Hin)).
    reflexivity.
  - rewrite (RunnerLocal.run_fitems_local (items_cfg cfg false) f2) by exact Hits. reflexivity.
Qed.

Lemma sim_run_feature st f s1 r1 fl1 ev1 s2 r2 fl2 ev2 :
  aborted st = false -> na_feature f = true ->
  run_feature cfg st f = (s1, r1, fl1, ev1) ->
  run_feature cfg2 st f = (s2, r2, fl2, ev2) ->
  sim_feature f r1 r2.
Proof.
  intros Hab Hf E1 E2. split.
  - intros Hag. rewrite run_feature_local in E2 by assumption. congruence.
  - intros (Ht & Hb & Ha).
    unfold na_feature in Hf. apply andb_true_iff in Hf as [Hbg Hits].
    pose proof (run_feature_phases cfg st f) as P1.
    pose proof (run_feature_phases cfg2 st f) as P2.
    cbv zeta in P1, P2. rewrite sf_dry', sf_feature_should_run', sf_items_cfg in P2.
    rewrite open_phase_local in P2 by assumption.
    destruct (open_phase cfg (push st) (negb (c_dry cfg) && feature_should_run cfg f) HBeforeFeature (f_id f) (f_tags f))
      as [[st1 hf] evb] eqn:Eo.
    apply (open_phase_grows _ Hna) in Eo; [|reflexivity]. destruct Eo as (Ab & _). cbn in Ab.
    match type of P1 with context [run_fitems ?a ?b ?c0 ?d ?e ?f0 ?g] =>
      destruct (run_fitems a b c0 d e f0 g) as [[[sa ra] fa] ea] eqn:Ea end.
    match type of P2 with context [run_fitems ?a ?b ?c0 ?d ?e ?f0 ?g] =>
      destruct (run_fitems a b c0 d e f0 g) as [[[sb rb] fb] eb] eqn:Eb end.
    match type of P1 with context [close_phase ?a ?b ?c0 ?d ?e ?f0 ?g] =>
      destruct (close_phase a b c0 d e f0 g) as [[sc hfc] evc] end.
    match type of P2 with context [close_phase ?a ?b ?c0 ?d ?e ?f0 ?g] =>
      destruct (close_phase a b c0 d e f0 g) as [[sd hfd] evd] end.
    destruct (pop sc) as [[se cre] eve]. destruct (pop sd) as [[sf0 crf] evf].
    destruct P1 as (x1 & y1 & z1 & P1 & Q1). destruct P2 as (x2 & y2 & z2 & P2 & Q2).
    rewrite P1 in E1. rewrite P2 in E2. inversion E1; inversion E2; subst.
    eapply (RunnerLocal.sim_run_fitems (items_cfg cfg (negb (c_dry cfg) && feature_should_run cfg f)) f2 Hna Hstop); [ | | |exact Ea|exact Eb]; try assumption.
    congruence.
Qed.

Lemma sim_run_features fs : forall st s1 rs1 fl1 ev1 s2 rs2 fl2 ev2,
  aborted st = false -> forallb na_feature fs = true ->
  run_features cfg st fs true = (s1, rs1, fl1, ev1) ->
  run_features cfg2 st fs true = (s2, rs2, fl2, ev2) ->
  sim_list sim_feature fs rs1 rs2.
Proof.
  induction fs as [|f r IH]; intros st s1 rs1 fl1 ev1 s2 rs2 fl2 ev2 Hab Hn; cbn [run_features].
  - intros E1 E2; inversion E1; inversion E2; subst. exact I.
  - cbn in Hn. apply andb_true_iff in Hn as [Hf Hr].
    destruct (run_feature cfg st f) as [[[sa resa] fa] ea] eqn:Ea.
    destruct (run_feature cfg2 st f) as [[[sb resb] fb] eb] eqn:Eb.
    pose proof (run_feature_frame _ Hna _ _ _ _ _ _ Hf Ea). subst sa.
    pose proof (run_feature_frame cfg2 Hna _ _ _ _ _ _ Hf Eb). subst sb.
    sf. rewrite Hstop, Hab. cbn [orb]. rewrite !andb_false_r. cbn [negb].
    destruct (run_features cfg st r true) as [[[sc rc] fc] ec] eqn:Ec.
    destruct (run_features cfg2 st r true) as [[[sd rd] fd] ed] eqn:Ed.
    intros E1 E2; inversion E1; inversion E2; subst. cbn [sim_list]. split.
    + eapply sim_run_feature; eauto.
    + eapply IH; eauto.
Qed.

(* the whole run: neither fault set lets before_all raise (that case aborts the run) *)
Theorem hook_faults_do_not_interfere fs rs1 v1 a1 e1 rs2 v2 a2 e2 :
  forallb na_feature fs = true ->
  c_faults cfg HBeforeAll 0 = false -> f2 HBeforeAll 0 = false ->
  run_model cfg fs = (rs1, v1, a1, e1) ->
  run_model cfg2 fs = (rs2, v2, a2, e2) ->
  sim_list sim_feature fs rs1 rs2.
Proof.
  intros Hn F1 F2. unfold run_model.
  rewrite (run_hook_local _ HBeforeAll 0) by (unfold same_at; congruence).
  destruct (run_hook cfg (mkState false [[]]) HBeforeAll 0) as [[st1 b1] ev1] eqn:E0.
  assert (Hab : aborted st1 = false).
  { unfold run_hook in E0. rewrite F1, (Hna HBeforeAll 0) in E0.
    destruct (c_dry cfg || negb (c_hooks cfg HBeforeAll)); inversion E0; subst; [reflexivity|].
    cbn [set_aborted aborted orb]. rewrite orb_false_r. unfold add_cleanups. cbn. reflexivity. }
  rewrite Hab. cbn [negb].
  destruct (run_features cfg st1 fs true) as [[[sa ra] fa] ea] eqn:Ea.
  destruct (run_features cfg2 st1 fs true) as [[[sb rb] fb] eb] eqn:Eb.
  destruct (run_hook cfg sa HAfterAll 0) as [[sc bc] ec].
  destruct (run_hook cfg2 sb HAfterAll 0) as [[sd bd] ed].
  intros E1 E2; inversion E1; inversion E2; subst.
  eapply sim_run_features; eauto.
Qed.

End LocalRun.

Lemma sim_list_nth {A R : Type} (P : A -> R -> R -> Prop) xs : forall r1 r2,
  sim_list P xs r1 r2 ->
  length r1 = length xs /\ length r2 = length xs /\
  forall n x a b, nth_error xs n = Some x -> nth_error r1 n = Some a -> nth_error r2 n = Some b -> P x a b.
Proof.
  induction xs as [|x r IH]; intros [|a r1] [|b r2]; cbn; try tauto.
  - intros _. repeat split; auto. intros [|n]; discriminate.
  - intros [Hp Hr]. destruct (IH _ _ Hr) as (L1 & L2 & N). repeat split; try congruence.
    intros [|n] x0 a0 b0; cbn.
    + intros X Y Z; inversion X; inversion Y; inversion Z; subst. exact Hp.
    + apply N.
Qed.

(* a feature none of whose sites is affected: same result, whatever happened elsewhere *)
Corollary unaffected_feature_keeps_its_result cfg f2 fs rs1 v1 a1 e1 rs2 v2 a2 e2 :
  no_hook_aborts cfg -> c_stop cfg = false -> forallb na_feature fs = true ->
  c_faults cfg HBeforeAll 0 = false -> f2 HBeforeAll 0 = false ->
  run_model cfg fs = (rs1, v1, a1, e1) ->
  run_model (set_faults cfg f2) fs = (rs2, v2, a2, e2) ->
  forall n f a b, nth_error fs n = Some f -> nth_error rs1 n = Some a -> nth_error rs2 n = Some b ->
    agree_feature cfg f2 f -> a = b.
Proof.
  intros Hna Hs Hn F1 F2 E1 E2 n f a b X Y Z Hag.
  pose proof (hook_faults_do_not_interfere cfg f2 Hna Hs fs _ _ _ _ _ _ _ _ Hn F1 F2 E1 E2) as S.
  apply sim_list_nth in S as (_ & _ & S). exact (proj1 (S _ _ _ _ X Y Z) Hag).
Qed.
