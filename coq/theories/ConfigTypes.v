(* ConfigTypes.v - value and option-table types shared by the generated ConfigTables.v and Config.v.  Model only. *)
From BV Require Import Base.
From Coq Require String Ascii.
Export String.StringSyntax.

Inductive cval :=
| VNone | VBool (b : bool) | VStr (s : ustr) | VInt (z : Z) | VStrs (l : list ustr)
| VDefs (l : list (ustr * ustr)) | VProto (n : nat).

Inductive action := AStore | AStoreTrue | AStoreFalse | AStoreConst | AAppend.
Inductive vtype := TNone | TPosInt | TLogLevel | TProto | TDefine.
Inductive fkind := KIni | KToml | KNone.

(* one argparse action of behave.configuration.setup_parser() *)
Record opt := mkOpt {
  o_flags : list ustr; o_dest : ustr; o_action : action; o_type : vtype;
  o_default : cval; o_const : cval; o_optarg : bool; o_choices : list ustr }.

Definition u (s : String.string) : ustr := map Ascii.N_of_ascii (String.list_ascii_of_string s).

Definition defs_eqb : list (ustr * ustr) -> list (ustr * ustr) -> bool :=
  list_eqb (pair_eqb ustr_eqb ustr_eqb).

Definition cval_eqb (a b : cval) : bool :=
  match a, b with
  | VNone, VNone => true
  | VBool x, VBool y => Bool.eqb x y
  | VStr x, VStr y => ustr_eqb x y
  | VInt x, VInt y => Z.eqb x y
  | VStrs x, VStrs y => list_eqb ustr_eqb x y
  | VDefs x, VDefs y => defs_eqb x y
  | VProto x, VProto y => Nat.eqb x y
  | _, _ => false
  end.

Definition action_eqb (a b : action) : bool :=
  match a, b with
  | AStore, AStore | AStoreTrue, AStoreTrue | AStoreFalse, AStoreFalse
  | AStoreConst, AStoreConst | AAppend, AAppend => true
  | _, _ => false
  end.

(* Python truthiness of a configuration value *)
Definition truthy (v : cval) : bool :=
  match v with
  | VNone => false | VBool b => b | VStr s => negb (ustr_eqb s [])
  | VInt z => negb (Z.eqb z 0) | VStrs l => match l with [] => false | _ => true end
  | VDefs l => match l with [] => false | _ => true end | VProto _ => true
  end.
Delimit Scope string_scope with str.
Arguments u s%str.
