(* FormattersProofs.v - C15: shape of a scenario's formatter events; the JSON fold and the
   plain/progress step queue over such a stream. *)
From BV Require Import Base Status Rollup Runner RunnerSteps RunnerQuiet Formatters.
From BVGen Require Import StatusTable.

Lemma fmt_of_app a b : fmt_of (a ++ b) = fmt_of a ++ fmt_of b.
Proof. induction a as [|e a IH]; [reflexivity|]. destruct e; cbn; now rewrite ?IH. Qed.

Lemma run_hook_fmt cfg st h k st' r ev : run_hook cfg st h k = (st', r, ev) -> fmt_of ev = [].
Proof.
  unfold run_hook. destruct (c_dry cfg || negb (c_hooks cfg h)); [intros E; inversion E; reflexivity|].
  destruct (c_faults cfg h k), (c_aborts cfg h k); intros E; inversion E; reflexivity.
Qed.

Lemma run_tag_hooks_fmt cfg h tags : forall st st' r ev,
  run_tag_hooks cfg st h tags = (st', r, ev) -> fmt_of ev = [].
Proof.
  induction tags as [|t tags IH]; intros st st' r ev; cbn [run_tag_hooks].
  - intros E; inversion E; reflexivity.
  - destruct (run_hook cfg st h t) as [[s1 b1] e1] eqn:E1.
    destruct (run_tag_hooks cfg s1 h tags) as [[s2 b2] e2] eqn:E2.
    apply run_hook_fmt in E1. apply IH in E2. intros E; inversion E; subst.
    now rewrite fmt_of_app, E1, E2.
Qed.

Lemma quiet_no_fmt_free ev : forallb (fun e => match e with EFmt _ => false | _ => true end) ev = true -> fmt_of ev = [].
Proof. induction ev as [|e ev IH]; [reflexivity|]. cbn. intros H. apply andb_true_iff in H as [He Hl]. destruct e; try discriminate; auto. Qed.

Lemma pop_fmt st st' cr ev : pop st = (st', cr, ev) -> fmt_of ev = [].
Proof.
  unfold pop. destruct (stack st); intros E; inversion E; subst; [reflexivity|].
  unfold cleanup_events. induction (rev l); cbn; auto.
Qed.

(* ---- one step: exactly one match and one result carrying the returned status *)
Lemma run_defined_step_fmt cfg st wip scid k id st' status skip ev :
  run_defined_step cfg st wip scid k id = (st', status, skip, ev) ->
  fmt_of ev = [FMatch true; FResult id status].
Proof.
  unfold run_defined_step.
  destruct (run_hook cfg st HBeforeStep id) as [[st1 rb] eb] eqn:E1.
  apply run_hook_fmt in E1. destruct rb.
  - destruct (run_hook cfg st1 HAfterStep id) as [[st3 ra] ea] eqn:E3. apply run_hook_fmt in E3.
    intros E; inversion E; subst; clear E.
    change (EFmt (FMatch true) :: ?x) with ([EFmt (FMatch true)] ++ x).
    repeat (rewrite ?fmt_of_app; cbn [fmt_of app]). rewrite E1, E3. reflexivity.
  - match goal with |- context [run_hook ?c ?stx HAfterStep id] =>
      destruct (run_hook c stx HAfterStep id) as [[st3 ra] ea] eqn:E3 end.
    apply run_hook_fmt in E3.
    intros E; inversion E; subst; clear E.
    change (EFmt (FMatch true) :: ?x) with ([EFmt (FMatch true)] ++ x).
    repeat (rewrite ?fmt_of_app; cbn [fmt_of app]). rewrite E1, E3. reflexivity.
Qed.

Lemma run_step_fmt cfg st wip scid s st' status skip ev :
  run_step cfg st wip scid s = (st', status, skip, ev) -> fmt_of ev = step_pair (s, status).
Proof.
  unfold run_step, step_pair. cbn [fst snd]. destruct (st_kind s) eqn:K;
    try apply run_defined_step_fmt.
  intros E; inversion E; subst; reflexivity.
Qed.

(* ---- the step loop: pairs for a prefix of the steps, each with the step's final status *)
Lemma processed_cons n s st steps sts :
  processed (S n) (s :: steps) (st :: sts) = step_pair (s, st) ++ processed n steps sts.
Proof. reflexivity. Qed.

Lemma processed_zero steps sts : processed 0 steps sts = [].
Proof. reflexivity. Qed.

(* the loop switched off: in dry-run every step is reported, otherwise none *)
Lemma norun_fmt cfg wip dry scid steps : forall st l st' l' sts ev,
  l_run_steps l = false ->
  steps_loop cfg st wip dry scid l steps = (st', l', sts, ev) ->
  length sts = length steps /\
  fmt_of ev = if dry then processed (length steps) steps sts else [].
Proof.
  induction steps as [|s r IH]; intros st l st' l' sts ev Hr; cbn [steps_loop].
  - intros E; inversion E; subst. destruct dry; auto.
  - rewrite Hr. destruct (l_failed l || dry) eqn:Hfd.
    + match goal with |- context [let '(status, ev) := ?X in _] => destruct X as [status0 ev0] eqn:E0 end.
      destruct (steps_loop cfg st wip dry scid l r) as [[[st2 l2] sts2] ev2] eqn:E2.
      apply IH in E2 as [L E2]; [|assumption]. intros E; inversion E; subst; clear E.
      rewrite fmt_of_app, E2. cbn [length]. split; [now rewrite L|].
      destruct dry.
      * rewrite processed_cons. f_equal. unfold step_pair. cbn [fst snd].
        destruct (st_kind s); inversion E0; subst; reflexivity.
      * rewrite app_nil_r. destruct (st_kind s); inversion E0; subst; reflexivity.
    + destruct (steps_loop cfg st wip dry scid l r) as [[[st2 l2] sts2] ev2] eqn:E2.
      apply IH in E2 as [L E2]; [|assumption]. intros E; inversion E; subst; clear E.
      apply orb_false_iff in Hfd as [_ Hd]. subst dry. cbn [length]. split; [now rewrite L|exact E2].
Qed.

Lemma steps_loop_fmt cfg wip dry scid steps : forall st l st' l' sts ev,
  steps_loop cfg st wip dry scid l steps = (st', l', sts, ev) ->
  exists n, n <= length steps /\ length sts = length steps /\ fmt_of ev = processed n steps sts.
Proof.
  induction steps as [|s r IH]; intros st l st' l' sts ev.
  - cbn [steps_loop]. intros E; inversion E; subst. exists 0. repeat split; auto.
  - destruct (l_run_steps l) eqn:Hr.
    + cbn [steps_loop]. rewrite Hr.
      destruct (run_step cfg st wip scid s) as [[[st1 status] skip] ev1] eqn:E1.
      apply run_step_fmt in E1.
      match goal with |- context [steps_loop cfg st1 wip dry scid ?l1 r] =>
        destruct (steps_loop cfg st1 wip dry scid l1 r) as [[[st2 l2] sts2] ev2] eqn:E2 end.
      apply IH in E2 as [n [Hn [L E2]]]. intros E; inversion E; subst; clear E.
      exists (S n). cbn [length]. repeat split; [lia|now rewrite L|].
      now rewrite fmt_of_app, E1, E2, processed_cons.
    + intros E. apply norun_fmt in E as [L E]; [|assumption].
      destruct dry.
      * exists (length (s :: r)). repeat split; auto.
      * exists 0. repeat split; auto. lia.
Qed.

(* ---- a scenario's events: announcement (when shown) then the processed prefix *)
Definition announcement (shown : bool) (id : nat) (steps : list step) : list fevent :=
  if shown then FScenario id :: map (fun s => FStepAnn (st_id s)) steps else [].

Lemma fmt_of_ann (b : bool) id (steps : list step) :
  fmt_of (if b then EFmt (FScenario id) :: map (fun s => EFmt (FStepAnn (st_id s))) steps else []) = announcement b id steps.
Proof. unfold announcement. destruct b; [|reflexivity]. cbn. f_equal. induction steps; cbn; congruence. Qed.

Lemma scenario_steps_fmt cfg st1 su hf rs wip id all_steps st2 l2 sts evs :
  scenario_steps cfg st1 su hf rs wip id all_steps = (st2, l2, sts, evs) ->
  exists n, n <= length all_steps /\ length sts = length all_steps /\ fmt_of evs = processed n all_steps sts /\
            (rs = false -> n = 0).
Proof.
  unfold scenario_steps. destruct su.
  - intros E; inversion E; subst. exists 0. rewrite map_length. repeat split; auto. lia.
  - intros E. destruct rs.
    + apply steps_loop_fmt in E as [n [A [B C]]]. exists n. repeat split; auto. discriminate.
    + cbn [andb] in E. apply norun_fmt in E as [L E]; [|reflexivity]. exists 0. repeat split; auto. lia.
Qed.

Theorem scenario_fmt_shape cfg st id all_steps oe eff own st' res fld ev :
  run_scenario cfg st id all_steps oe eff own = (st', res, fld, ev) ->
  exists n, n <= length all_steps /\ length (sr_steps res) = length all_steps /\
    fmt_of ev = announcement (sel cfg eff || c_show_skipped cfg) id all_steps
                ++ processed n all_steps (sr_steps res) /\
    (sel cfg eff = false -> n = 0).
Proof.
  unfold run_scenario.
  destruct (negb (c_dry cfg) && sel cfg eff).
  - destruct (run_tag_hooks cfg (push st) HBeforeTag own) as [[sa b1] e1] eqn:E1. apply run_tag_hooks_fmt in E1.
    destruct (run_hook cfg sa HBeforeScenario id) as [[sb b2] e2] eqn:E2. apply run_hook_fmt in E2.
    match goal with |- context [scenario_steps ?a ?b ?c ?d ?e ?f ?g ?h] =>
      destruct (scenario_steps a b c d e f g h) as [[[st2 l2] statuses] ev_steps] eqn:E3 end.
    apply scenario_steps_fmt in E3 as [n [A [B [C D]]]].
    destruct (run_hook cfg st2 HAfterScenario id) as [[sc b3] e3] eqn:E4. apply run_hook_fmt in E4.
    destruct (run_tag_hooks cfg sc HAfterTag own) as [[sd b4] e4] eqn:E5. apply run_tag_hooks_fmt in E5.
    destruct (pop sd) as [[st4 cr] ev_pop] eqn:E6. apply pop_fmt in E6.
    intros E; inversion E; subst; clear E. exists n. cbn [sr_steps]. repeat split; auto.
    rewrite !fmt_of_app, E1, E2, fmt_of_ann, C, E4, E5, E6. cbn [app]. now rewrite !app_nil_r.
  - match goal with |- context [scenario_steps ?a ?b ?c ?d ?e ?f ?g ?h] =>
      destruct (scenario_steps a b c d e f g h) as [[[st2 l2] statuses] ev_steps] eqn:E3 end.
    apply scenario_steps_fmt in E3 as [n [A [B [C D]]]].
    destruct (pop st2) as [[st4 cr] ev_pop] eqn:E6. apply pop_fmt in E6.
    intros E; inversion E; subst; clear E. exists n. cbn [sr_steps]. repeat split; auto.
    rewrite !fmt_of_app, fmt_of_ann, C, E6. cbn [app]. now rewrite !app_nil_r.
Qed.

(* ---- the step queue (plain, progress): each processed step once, with its final status *)
Definition shown_of (n : nat) (steps : list step) (sts : list status) : list (nat * nat * status) :=
  map (fun p => (st_id (fst p), st_id (fst p), snd p)) (firstn n (combine steps sts)).

Lemma q_fold_app q a b :
  q_fold q (a ++ b) = match q_fold q a with Some q1 => q_fold q1 b | None => None end.
Proof.
  revert q; induction a as [|e a IH]; intros q; cbn [q_fold app]; [reflexivity|].
  destruct (q_step q e); [apply IH|reflexivity].
Qed.

Lemma q_fold_anns shown0 (steps : list step) : forall queue,
  q_fold (queue, shown0) (map (fun s => FStepAnn (st_id s)) steps) = Some (queue ++ map st_id steps, shown0).
Proof.
  induction steps as [|s r IH]; intros queue; cbn [map q_fold q_step]; [now rewrite app_nil_r|].
  rewrite IH. now rewrite <- app_assoc.
Qed.

Lemma q_fold_processed n : forall steps sts rest shown0,
  n <= length steps -> length sts = length steps ->
  q_fold (map st_id steps ++ rest, shown0) (processed n steps sts)
  = Some (map st_id (skipn n steps) ++ rest, shown0 ++ shown_of n steps sts).
Proof.
  induction n as [|n IH]; intros steps sts rest shown0 Hn L.
  - cbn. unfold shown_of. cbn. now rewrite app_nil_r.
  - destruct steps as [|s r]; [cbn in Hn; lia|]. destruct sts as [|x xs]; [discriminate|].
    rewrite processed_cons. unfold step_pair. cbn [fst snd app map q_fold q_step].
    rewrite IH; [|cbn in Hn; lia|cbn in L; lia]. unfold shown_of. cbn [combine firstn map fst snd skipn].
    now rewrite <- app_assoc.
Qed.

Theorem queue_reports_each_processed_step_once n id steps sts queue0 shown0 :
  n <= length steps -> length sts = length steps ->
  q_fold (queue0, shown0) (announcement true id steps ++ processed n steps sts)
  = Some (map st_id (skipn n steps), shown0 ++ shown_of n steps sts).
Proof.
  intros Hn L. unfold announcement. cbn [app q_fold q_step]. rewrite q_fold_app, q_fold_anns. cbn [app].
  rewrite <- (app_nil_r (map st_id steps)). rewrite q_fold_processed by assumption. now rewrite app_nil_r.
Qed.

(* ---- JSON: result i lands on step i; no index error *)
Definition done_steps (n : nat) (steps : list step) (sts : list status) : list jstep :=
  map (fun p => mkJStep (st_id (fst p))
                        (match st_kind (fst p) with KUndefined => None | _ => Some true end)
                        (Some (snd p)))
      (firstn n (combine steps sts)).

Definition pending_steps (steps : list step) : list jstep := map (fun s => mkJStep (st_id s) None None) steps.

Lemma upd_last_opt_snoc {A} (f : A -> option A) l x :
  upd_last_opt f (l ++ [x]) = match f x with Some y => Some (l ++ [y]) | None => None end.
Proof.
  induction l as [|a l IH]; [reflexivity|].
  change ((a :: l) ++ [x]) with (a :: (l ++ [x])).
  assert (H : forall (y : A) (r : list A), r <> [] ->
            upd_last_opt f (y :: r) = match upd_last_opt f r with Some r' => Some (y :: r') | None => None end)
    by (intros y r Hr; destruct r; [congruence|reflexivity]).
  rewrite H by (destruct l; discriminate). rewrite IH. destruct (f x); reflexivity.
Qed.

Lemma upd_nth_app {A} (f : A -> A) D a T : upd_nth (length D) f (D ++ a :: T) = Some (D ++ f a :: T).
Proof. induction D as [|d D IH]; [reflexivity|]. cbn. now rewrite IH. Qed.

Lemma j_pair_ok status_of els kind estatus pre s x rest cur pos :
  let st0 := mkJState (els ++ [mkJElem kind (pre ++ mkJStep (st_id s) None None :: rest) estatus]) (length pre) cur pos in
  j_fold status_of st0 (step_pair (s, x)) =
  Some (mkJState (els ++ [mkJElem kind (pre ++ mkJStep (st_id s) (match st_kind s with KUndefined => None | _ => Some true end) (Some x) :: rest) estatus])
                 (S (length pre)) cur pos).
Proof.
  cbn zeta. unfold step_pair. cbn [fst snd j_fold].
  assert (R : forall m, j_step status_of
            (mkJState (els ++ [mkJElem kind (pre ++ mkJStep (st_id s) m None :: rest) estatus]) (length pre) cur pos)
            (FResult (st_id s) x)
          = Some (mkJState (els ++ [mkJElem kind (pre ++ mkJStep (st_id s) m (Some x) :: rest) estatus]) (S (length pre)) cur pos)).
  { intros m. cbn [j_step j_index j_elems j_current j_current_pos]. unfold upd_current_step.
    rewrite upd_last_opt_snoc. cbn [je_steps je_kind je_status]. rewrite upd_nth_app. reflexivity. }
  assert (M : j_step status_of
            (mkJState (els ++ [mkJElem kind (pre ++ mkJStep (st_id s) None None :: rest) estatus]) (length pre) cur pos)
            (FMatch true)
          = Some (mkJState (els ++ [mkJElem kind (pre ++ mkJStep (st_id s) (Some true) None :: rest) estatus]) (length pre) cur pos)).
  { cbn [j_step j_index j_elems j_current j_current_pos]. unfold upd_current_step.
    rewrite upd_last_opt_snoc. cbn [je_steps je_kind je_status]. rewrite upd_nth_app. reflexivity. }
  destruct (st_kind s); try (rewrite M, R; reflexivity).
  change (j_step status_of ?st (FMatch false)) with (Some st). cbv beta iota. rewrite R. reflexivity.
Qed.

Lemma j_processed_ok status_of els kind estatus cur pos n : forall steps sts pre,
  n <= length steps -> length sts = length steps ->
  j_fold status_of (mkJState (els ++ [mkJElem kind (pre ++ pending_steps steps) estatus]) (length pre) cur pos)
         (processed n steps sts)
  = Some (mkJState (els ++ [mkJElem kind (pre ++ done_steps n steps sts ++ pending_steps (skipn n steps)) estatus])
                   (length pre + n) cur pos).
Proof.
  induction n as [|n IH]; intros steps sts pre Hn L.
  - cbn. now rewrite Nat.add_0_r.
  - destruct steps as [|s r]; [cbn in Hn; lia|]. destruct sts as [|x xs]; [discriminate|].
    rewrite processed_cons.
    assert (A : forall st a b, j_fold status_of st (a ++ b) = match j_fold status_of st a with Some s1 => j_fold status_of s1 b | None => None end).
    { intros st a; revert st; induction a as [|e a IHa]; intros st b; cbn [j_fold app]; [reflexivity|].
      destruct (j_step status_of st e); [apply IHa|reflexivity]. }
    rewrite A. cbn [pending_steps map]. rewrite j_pair_ok.
    set (d := mkJStep (st_id s) (match st_kind s with KUndefined => None | _ => Some true end) (Some x)).
    specialize (IH r xs (pre ++ [d])).
    assert (Hlen : length (pre ++ [d]) = S (length pre)) by (rewrite app_length; cbn; lia).
    rewrite Hlen in IH.
    assert (Hr : forall T, pre ++ d :: T = (pre ++ [d]) ++ T) by (intros T; now rewrite <- app_assoc).
    fold (pending_steps r). rewrite Hr. rewrite IH; [|cbn in Hn; lia|cbn in L; lia].
    unfold done_steps. cbn [combine firstn map fst snd skipn]. fold d. rewrite <- !app_assoc. cbn [app].
    f_equal. f_equal. lia.
Qed.

(* the element of a shown scenario after its events: every step, the first n with their result *)
Theorem json_scenario_element status_of st0 st1 id steps sts n :
  j_finish status_of st0 = Some st1 ->
  n <= length steps -> length sts = length steps ->
  j_fold status_of st0 (announcement true id steps ++ processed n steps sts)
  = Some (mkJState (j_elems st1 ++ [mkJElem (JScenario id) (done_steps n steps sts ++ pending_steps (skipn n steps)) None])
                   n (Some id) (length (j_elems st1))).
Proof.
  intros Hf Hn L. unfold announcement. cbn [app j_fold j_step]. rewrite Hf.
  assert (A : forall st a b, j_fold status_of st (a ++ b) = match j_fold status_of st a with Some s1 => j_fold status_of s1 b | None => None end).
  { intros st a; revert st; induction a as [|e a IHa]; intros st b; cbn [j_fold app]; [reflexivity|].
    destruct (j_step status_of st e); [apply IHa|reflexivity]. }
  rewrite A.
  assert (B : forall (l : list step) pre,
             j_fold status_of (mkJState (j_elems st1 ++ [mkJElem (JScenario id) pre None]) 0 (Some id) (length (j_elems st1)))
                    (map (fun s => FStepAnn (st_id s)) l)
             = Some (mkJState (j_elems st1 ++ [mkJElem (JScenario id) (pre ++ pending_steps l) None]) 0 (Some id) (length (j_elems st1)))).
  { induction l as [|s l IHl]; intros pre; cbn [map j_fold]; [now rewrite app_nil_r|].
    cbn [j_step j_elems j_index j_current j_current_pos]. unfold upd_last. rewrite upd_last_opt_snoc.
    cbn [je_kind je_steps je_status]. rewrite IHl. unfold pending_steps. cbn [map]. now rewrite <- app_assoc. }
  rewrite (B steps []). cbn [app].
  pose proof (j_processed_ok status_of (j_elems st1) (JScenario id) None (Some id) (length (j_elems st1)) n steps sts [] Hn L) as P.
  cbn [app length] in P. rewrite P. reflexivity.
Qed.
