(* Formatters.v - the formatter event stream of a scenario and the stateful formatters as
   folds over it: JSONFormatter (element list, _step_index, "current element = last element",
   status patching) and the step queue of PlainFormatter / ProgressFormatterBase.  Model only. *)
From BV Require Import Base Status Rollup Runner.
From BVGen Require Import StatusTable.

Fixpoint fmt_of (ev : list event) : list fevent :=
  match ev with
  | [] => []
  | EFmt f :: r => f :: fmt_of r
  | _ :: r => fmt_of r
  end.

(* what a processed step contributes: one match, one result *)
Definition step_pair (p : step * status) : list fevent :=
  [FMatch (match st_kind (fst p) with KUndefined => false | _ => true end); FResult (st_id (fst p)) (snd p)].

Definition processed (n : nat) (steps : list step) (sts : list status) : list fevent :=
  flat_map step_pair (firstn n (combine steps sts)).

(* ---- JSON formatter, one feature: elements with their steps *)
Record jstep := mkJStep { js_id : nat; js_match : option bool; js_result : option status }.
Inductive jkind := JBackground | JScenario (id : nat).
Record jelem := mkJElem { je_kind : jkind; je_steps : list jstep; je_status : option status }.

Record jstate := mkJState {
  j_elems : list jelem;            (* current_feature_data["elements"], in order *)
  j_index : nat;                   (* _step_index *)
  j_current : option nat;          (* current_scenario (its id) *)
  j_current_pos : nat              (* position of the current scenario's element *)
}.

Definition j_init : jstate := mkJState [] 0 None 0.

Fixpoint upd_nth {A} (n : nat) (f : A -> A) (l : list A) : option (list A) :=
  match l, n with
  | [], _ => None
  | x :: r, 0 => Some (f x :: r)
  | x :: r, S n' => match upd_nth n' f r with Some r' => Some (x :: r') | None => None end
  end.

Fixpoint upd_last_opt {A} (f : A -> option A) (l : list A) : option (list A) :=
  match l with
  | [] => None
  | [x] => match f x with Some y => Some [y] | None => None end
  | x :: r => match upd_last_opt f r with Some r' => Some (x :: r') | None => None end
  end.

Definition upd_last {A} (f : A -> A) (l : list A) : option (list A) := upd_last_opt (fun x => Some (f x)) l.

(* steps[_step_index][...] = ... on the current (= last) element; None = IndexError *)
Definition upd_current_step (idx : nat) (f : jstep -> jstep) (els : list jelem) : option (list jelem) :=
  upd_last_opt (fun el => match upd_nth idx f (je_steps el) with
                          | Some ss => Some (mkJElem (je_kind el) ss (je_status el))
                          | None => None
                          end) els.

(* status_of: the final status of a scenario (read from the model when the formatter patches it) *)
Definition j_finish (status_of : nat -> status) (st : jstate) : option jstate :=
  match j_current st with
  | None => Some st
  | Some id =>
      match upd_nth (j_current_pos st)
                    (fun e => mkJElem (je_kind e) (je_steps e) (Some (status_of id))) (j_elems st) with
      | Some els => Some (mkJState els (j_index st) (j_current st) (j_current_pos st))
      | None => None
      end
  end.

(* None = IndexError / AssertionError inside the formatter *)
Definition j_step (status_of : nat -> status) (st : jstate) (e : fevent) : option jstate :=
  match e with
  | FBackground ids =>
      Some (mkJState (j_elems st ++ [mkJElem JBackground (map (fun i => mkJStep i None None) ids) None])
                     0 (j_current st) (j_current_pos st))
  | FScenario id =>
      match j_finish status_of st with
      | None => None
      | Some st1 =>
          Some (mkJState (j_elems st1 ++ [mkJElem (JScenario id) [] None]) 0 (Some id) (length (j_elems st1)))
      end
  | FStepAnn sid =>
      match upd_last (fun el => mkJElem (je_kind el) (je_steps el ++ [mkJStep sid None None]) (je_status el)) (j_elems st) with
      | Some els => Some (mkJState els (j_index st) (j_current st) (j_current_pos st))
      | None => None
      end
  | FMatch found =>
      if found then
        match upd_current_step (j_index st) (fun x => mkJStep (js_id x) (Some true) (js_result x)) (j_elems st) with
        | Some els => Some (mkJState els (j_index st) (j_current st) (j_current_pos st))
        | None => None
        end
      else Some st
  | FResult sid s =>
      match upd_current_step (j_index st) (fun x => mkJStep (js_id x) (js_match x) (Some s)) (j_elems st) with
      | Some els => Some (mkJState els (S (j_index st)) (j_current st) (j_current_pos st))
      | None => None
      end
  | FEof => j_finish status_of st
  | _ => Some st
  end.

Fixpoint j_fold (status_of : nat -> status) (st : jstate) (evs : list fevent) : option jstate :=
  match evs with
  | [] => Some st
  | e :: r => match j_step status_of st e with Some st1 => j_fold status_of st1 r | None => None end
  end.

(* ---- the step queue of plain / progress: step() appends, result() pops the head and reports
   the popped step with the status of the step object it was handed *)
Definition q_step (q : list nat * list (nat * nat * status)) (e : fevent)
  : option (list nat * list (nat * nat * status)) :=
  let '(queue, shown) := q in
  match e with
  | FFeature _ | FRuleEv _ | FBackground _ | FScenario _ => Some ([], shown)
  | FStepAnn sid => Some (queue ++ [sid], shown)
  | FResult sid s =>
      match queue with
      | [] => None                                   (* IndexError: pop from empty list *)
      | h :: t => Some (t, shown ++ [(h, sid, s)])
      end
  | _ => Some q
  end.

Fixpoint q_fold (q : list nat * list (nat * nat * status)) (evs : list fevent) :=
  match evs with
  | [] => Some q
  | e :: r => match q_step q e with Some q1 => q_fold q1 r | None => None end
  end.

(* ---- whole run: the JSON documents and the plain listing computed from a run's events *)
Definition all_scen_results (rs : list feat_res) : list scen_res :=
  flat_map (fun f => flat_map (fun i => match i with
                                        | RFItem (RScen r) => [r]
                                        | RFItem (ROutline _ _ rows) => rows
                                        | RFRule rr => flat_map (fun x => match x with RScen r => [r] | ROutline _ _ rows => rows end) (rr_items rr)
                                        end) (fr_items f)) rs.

Definition status_lookup (rs : list feat_res) (id : nat) : status :=
  match find (fun r => Nat.eqb (sr_id r) id) (all_scen_results rs) with
  | Some r => st_or_unknown (sr_status r)
  | None => unknown
  end.

(* split the stream at FFeature ... FEof *)
Fixpoint json_docs (status_of : nat -> status) (cur : option jstate) (evs : list fevent)
  : option (list (list jelem)) :=
  match evs with
  | [] => Some []
  | FFeature _ :: r => json_docs status_of (Some j_init) r
  | FEof :: r =>
      match cur with
      | None => json_docs status_of None r
      | Some st =>
          match j_finish status_of st with
          | None => None
          | Some st1 => match json_docs status_of None r with Some ds => Some (j_elems st1 :: ds) | None => None end
          end
      end
  | e :: r =>
      match cur with
      | None => json_docs status_of None r
      | Some st => match j_step status_of st e with Some st1 => json_docs status_of (Some st1) r | None => None end
      end
  end.

Definition run_reports (out : list feat_res * bool * bool * list event) :=
  let '(rs, _, _, evs) := out in
  let f := fmt_of evs in
  (json_docs (status_lookup rs) None f,
   match q_fold ([], []) f with Some (_, shown) => Some (map (fun x => (fst (fst x), snd x)) shown) | None => None end).
