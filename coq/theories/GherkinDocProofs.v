(* GherkinDocProofs.v - C04 at the level of the state machine, doc-strings: the lines between the
   delimiters written under a step become that step's text - without the delimiter's
   indentation and trailing blanks, joined by newlines, located at the opening delimiter. *)
From BV Require Import Base UStr GherkinTypes Gherkin GherkinProofs GherkinBlockProofs.

Definition with_text (st : pstep) (x : ustr * nat) : pstep :=
  mkPStep (ps_kw st) (ps_type st) (ps_name st) (ps_line st) (Some x) (ps_table st).

(* what a doc-string block leaves alone *)
Definition keeps (m m' : mstate) : Prop :=
  m_cont m' = m_cont m /\ m_stmt m' = m_stmt m /\ m_kw m' = m_kw m /\ m_tags m' = m_tags m /\
  m_table m' = m_table m /\ m_in_examples m' = m_in_examples m /\ m_lang m' = m_lang m.

Lemma keeps_refl m : keeps m m. Proof. unfold keeps. repeat split. Qed.
Lemma keeps_trans a b c : keeps a b -> keeps b c -> keeps a c.
Proof. unfold keeps. intros H1 H2. decompose [and] H1. decompose [and] H2. repeat split; congruence. Qed.

Lemma multiline_collects_keeps ls : forall m,
  m_st m = StMultiline -> Forall (doc_line_ok (m_ml_lead m) (m_ml_term m)) ls ->
  exists m', fold_left feed ls (ROk m) = ROk m' /\ m_st m' = StMultiline /\
             m_lines m' = rev (map (fun l => rstrip (skipn (m_ml_lead m) l)) ls) ++ m_lines m /\
             m_ml_lead m' = m_ml_lead m /\ m_ml_term m' = m_ml_term m /\ m_ml_start m' = m_ml_start m /\
             m_line m' = m_line m + length ls /\ m_feat m' = m_feat m /\ keeps m m'.
Proof.
  induction ls as [|l ls IH]; intros m ST F.
  - exists m. cbn [fold_left map rev app length]. repeat split; auto.
  - inversion F as [|? ? [T B] F']. subst. cbn [fold_left].
    assert (E : feed (ROk m) l = ROk (upd_ml (upd_line m (S (m_line m))) (m_ml_start m) (m_ml_lead m) (m_ml_term m)
                                             (rstrip (skipn (m_ml_lead m) l) :: m_lines m))).
    { unfold feed. cbn [rbind]. unfold action. cbn [upd_line m_st]. rewrite ST.
      assert (X : match strip l with [] => a_multiline (upd_line m (S (m_line m))) l | _ :: _ => a_multiline (upd_line m (S (m_line m))) l end
                  = a_multiline (upd_line m (S (m_line m))) l) by (now destruct (strip l)).
      rewrite X. unfold a_multiline. cbn [upd_line m_ml_term m_ml_lead m_ml_start m_lines]. rewrite T, B. reflexivity. }
    rewrite E. set (m1 := upd_ml _ _ _ _ _).
    destruct (IH m1) as [m' [R [S1 [L1 [A1 [A2 [A3 [A4 [KF K]]]]]]]]]; [exact ST|exact F'|].
    exists m'. split; [exact R|]. split; [exact S1|]. cbn [map rev]. rewrite L1.
    cbn [m1 upd_ml upd_line m_lines m_ml_lead m_ml_term m_ml_start m_line] in *.
    rewrite <- app_assoc. cbn [app length]. repeat split; auto; try lia.
    all: destruct K as (K2 & K3 & K4 & K5 & K6 & K7 & K8); assumption.
Qed.

(* a doc-string block directly after a step *)
Lemma feed_doc_block m f s rest st r o term col cs c :
  m_st m = StSteps -> m_lines m = [] -> at_feature_scenario m f s rest -> sc_steps s = st :: r ->
  doc_fact o = Some (term, col) -> strip o <> [] -> first_is cp_hash (strip o) = false ->
  Forall (doc_line_ok col term) cs -> prefixb term (strip c) = true ->
  let s' := with_steps s (with_text st (join [10%N] (map (fun l => rstrip (skipn col l)) cs), S (m_line m)) :: r) in
  exists m', fold_left feed (o :: cs ++ [c]) (ROk m) = ROk m' /\ m_st m' = StSteps /\ m_lines m' = [] /\
             at_feature_scenario m' (with_items f (FScen s' :: rest)) s' rest /\
             m_line m' = m_line m + 2 + length cs /\ keeps m m'.
Proof.
  intros ST LN W HS DF NB NC CS CL s'.
  set (mL := upd_line m (S (m_line m))).
  assert (WL : at_feature_scenario mL f s rest) by (destruct W as [A [B [C D]]]; unfold at_feature_scenario; cbn; auto).
  (* the opening delimiter *)
  assert (E1 : feed (ROk m) o = ROk (upd_st (upd_ml mL (S (m_line m)) col term []) StMultiline)).
  { rewrite (feed_nonblank m o NB). fold mL. rewrite (action_dispatch mL o NB NC). cbn [mL upd_line m_st]. rewrite ST.
    unfold a_steps. rewrite DF. unfold stmt_has_steps. fold mL. rewrite (get_stmt_at _ _ _ _ WL). cbn [view_steps]. rewrite HS.
    cbn [mL upd_line m_line m_lines]. now rewrite LN. }
  set (m1 := upd_st (upd_ml mL (S (m_line m)) col term []) StMultiline).
  assert (CS1 : Forall (doc_line_ok (m_ml_lead m1) (m_ml_term m1)) cs) by exact CS.
  destruct (multiline_collects_keeps cs m1 eq_refl CS1) as (m2 & FD2 & ST2 & L2 & A1 & A2 & A3 & A4 & KF & K2).
  cbn [m1 upd_st upd_ml m_ml_lead m_ml_term m_ml_start m_lines m_line mL upd_line] in L2, A1, A2, A3, A4.
  rewrite app_nil_r in L2.
  destruct K2 as (KC & KS & KK & KT & KB & KI & KG).
  cbn [m1 upd_st upd_ml mL upd_line m_feat m_cont m_stmt m_kw m_tags m_table m_in_examples m_lang] in KF, KC, KS, KK, KT, KB, KI, KG.
  (* the closing delimiter *)
  set (m2L := upd_line m2 (S (m_line m2))).
  assert (W2 : at_feature_scenario m2L f s rest).
  { destruct W as [A [B [C D]]]. unfold at_feature_scenario. cbn [m2L upd_line m_stmt m_cont m_feat]. rewrite KS, KC, KF. auto. }
  assert (E3 : feed (ROk m2) c = a_multiline m2L c).
  { unfold feed. cbn [rbind]. fold m2L. unfold action. cbn [m2L upd_line m_st]. rewrite ST2. now destruct (strip c). }
  assert (P3 : prefixb (m_ml_term m2L) (strip c) = true) by (cbn [m2L upd_line m_ml_term]; rewrite A2; exact CL).
  assert (ST3 : m_st m2L = StMultiline) by exact ST2.
  rewrite (multiline_closes m2L c ST3 P3) in E3.
  cbn [fold_left]. rewrite E1. fold m1. rewrite fold_left_app. rewrite FD2. cbn [fold_left]. rewrite E3.
  eexists. split; [reflexivity|].
  pose proof (get_stmt_at _ _ _ _ W2) as G2. destruct W2 as [A [B [C D]]].
  unfold set_last_step. rewrite G2. cbn [view_steps]. rewrite HS. cbn [view_set_steps].
  unfold set_stmt. rewrite A. unfold set_item. rewrite B, C, D.
  cbn [m2L upd_line m_lines m_ml_start m_line] in *. rewrite L2, rev_involutive, A3.
  unfold at_feature_scenario, keeps, s', with_items, with_steps, with_text. cbn.
  repeat split; try assumption; try congruence; try lia.
  all: destruct W as [W1 [W2' [W3 W4]]]; congruence.
Qed.
