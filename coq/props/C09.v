(* C09 — Tag selection with inheritance selects exactly the matching scenarios.
   The tag expression is abstract: any function list nat -> bool (config.tag_expression.check). *)
From BV Require Import Base Status Rollup Runner RunnerSteps RunnerQuiet RunnerSelect RunnerEq RunnerSelectMore.
From BVGen Require Import StatusTable.

(* what decides whether a scenario runs (Scenario.should_run): the tag expression on its effective tags, and
   should_skip - the explicit exclusion flag, set by element.skip() on the element or on anything around it.
   The model's exclusions are those of the documented idiom: the feature's before_feature hook calls
   element.skip() on every element carrying an exclusion tag (c_excl); they are in force inside a feature
   once that hook has been called (items_cfg). *)
Theorem a_scenario_runs_iff_selected_by_tags_and_not_excluded :
  forall cfg eff, sel cfg eff = c_expr cfg eff && negb (existsb (c_excl cfg) eff).
Proof. reflexivity. Qed.
Print Assumptions a_scenario_runs_iff_selected_by_tags_and_not_excluded.

Theorem without_exclusions_the_tag_expression_alone_decides :
  forall cfg eff, (forall t, c_excl cfg t = false) -> sel cfg eff = c_expr cfg eff.
Proof. exact sel_without_exclusions. Qed.
Print Assumptions without_exclusions_the_tag_expression_alone_decides.

Theorem exclusion_is_inherited :
  forall cfg own anc, excluded cfg anc = true -> sel cfg (own ++ anc) = false.
Proof. exact sel_excluded. Qed.
Print Assumptions exclusion_is_inherited.

Theorem exclusions_need_the_hook_to_have_run :
  forall cfg hooks_called t,
    hooks_called && c_hooks cfg HBeforeFeature = false -> c_excl (items_cfg cfg hooks_called) t = false.
Proof. exact items_cfg_off. Qed.
Print Assumptions exclusions_need_the_hook_to_have_run.

(* a de-selected or excluded scenario: no hook, no step call; skipped with all steps skipped
   (untested if the run was already aborted when it was reached) *)
Theorem unselected_scenario_is_silent_and_skipped :
  forall cfg st id all_steps oe eff own,
    sel cfg eff = false ->
    run_scenario cfg st id all_steps oe eff own =
    (st,
     mkScenRes id
       (if oe then Some skipped
        else scenario_compute false (map (fun _ => if aborted st then untested else skipped) all_steps))
       false (map (fun _ => if aborted st then untested else skipped) all_steps),
     false,
     if c_show_skipped cfg
     then EFmt (FScenario id) :: map (fun s => EFmt (FStepAnn (st_id s))) all_steps else []).
Proof. exact run_scenario_unselected. Qed.
Print Assumptions unselected_scenario_is_silent_and_skipped.

(* whole run: every step call and every before/after_scenario hook belongs to a scenario (or
   outline row) whose effective tags - own + rule + feature, rows: outline + examples block -
   satisfy the expression and that was not excluded (feature_sel_ids: inside a feature the exclusions in force) *)
Theorem executed_scenarios_are_exactly_selected_ones :
  forall cfg fs rs verdict ab evs,
    run_model cfg fs = (rs, verdict, ab, evs) -> scoped (sel_ids cfg fs) evs = true.
Proof. exact executed_scenarios_are_selected. Qed.
Print Assumptions executed_scenarios_are_exactly_selected_ones.

Theorem selected_scenario_runs :
  forall cfg st id all_steps oe eff own st' res fld ev,
    sel cfg eff = true -> c_dry cfg = false -> c_hooks cfg HBeforeScenario = true ->
    run_scenario cfg st id all_steps oe eff own = (st', res, fld, ev) ->
    In (EHook HBeforeScenario id (c_faults cfg HBeforeScenario id)) ev.
Proof. exact selected_scenario_runs_before_hook. Qed.
Print Assumptions selected_scenario_runs.

(* a rule none of whose scenarios is selected, or that was excluded, ends skipped, calls nothing *)
Theorem rule_without_selected_scenario_is_skipped :
  forall cfg st r anc inh fhb,
    aborted st = false ->
    rule_should_run cfg anc r && negb (excluded cfg (r_tags r ++ anc)) = false ->
    forallb (sitem_nonempty (inh ++ opt_steps (r_bg r))) (r_items r) = true ->
    exists res ev, run_rule cfg st r anc inh fhb = (st, res, false, ev) /\
      rr_status res = skipped /\ rr_hook_failed res = false /\ allq ev = true.
Proof. exact unselected_rule_is_skipped. Qed.
Print Assumptions rule_without_selected_scenario_is_skipped.

Theorem an_excluded_rule_is_skipped :
  forall cfg st r anc inh fhb,
    aborted st = false ->
    excluded cfg (r_tags r ++ anc) = true ->
    forallb (sitem_nonempty (inh ++ opt_steps (r_bg r))) (r_items r) = true ->
    exists res ev, run_rule cfg st r anc inh fhb = (st, res, false, ev) /\
      rr_status res = skipped /\ rr_hook_failed res = false /\ allq ev = true.
Proof. exact excluded_rule_is_skipped. Qed.
Print Assumptions an_excluded_rule_is_skipped.

(* everything inside an excluded feature is skipped and calls nothing *)
Theorem inside_an_excluded_feature_everything_is_skipped :
  forall cfg bg hb f st,
    aborted st = false ->
    excluded cfg (f_tags f) = true ->
    forallb (fitem_nonempty bg) (f_items f) = true ->
    exists rs ev, run_fitems cfg st bg hb (f_tags f) (f_items f) false = (st, rs, false, ev) /\
      forallb (fun r => status_eqb (fitem_status r) skipped) rs = true /\ allq ev = true.
Proof. exact excluded_feature_items_are_skipped. Qed.
Print Assumptions inside_an_excluded_feature_everything_is_skipped.

(* the same for a feature (its rules included) *)
Theorem feature_without_selected_scenario_is_skipped :
  forall cfg st f,
    aborted st = false ->
    feature_should_run cfg f = false ->
    forallb (fitem_nonempty (opt_steps (f_bg f))) (f_items f) = true ->
    exists res ev, run_feature cfg st f = (st, res, false, ev) /\
      fr_status res = skipped /\ fr_hook_failed res = false /\ allq ev = true.
Proof. exact unselected_feature_is_skipped. Qed.
Print Assumptions feature_without_selected_scenario_is_skipped.

(* conversely a rule or feature ends skipped ONLY if everything in it is skipped: one that
   contains a scenario that passed or failed (or anything else not skipped) does not *)
Theorem a_skipped_rule_contains_only_skipped_elements :
  forall cfg st r anc inh fhb st' res fld ev,
    run_rule cfg st r anc inh fhb = (st', res, fld, ev) ->
    rr_status res = skipped ->
    forallb (fun x => status_eqb (item_status x) skipped) (rr_items res) = true.
Proof. exact skipped_rule_contains_only_skipped_elements. Qed.
Print Assumptions a_skipped_rule_contains_only_skipped_elements.

Theorem a_skipped_feature_contains_only_skipped_elements :
  forall cfg st f st' res fld ev,
    run_feature cfg st f = (st', res, fld, ev) ->
    fr_status res = skipped ->
    forallb (fun x => status_eqb (fitem_status x) skipped) (fr_items res) = true.
Proof. exact skipped_feature_contains_only_skipped_elements. Qed.
Print Assumptions a_skipped_feature_contains_only_skipped_elements.

(* effective tags: what the model hands to the expression for a row of an outline inside a rule *)
Example effective_tags_inherit :
  let o := mkOutline 5 [1] [mkStep KPass 9] [mkEx 6 [2] 1; mkEx 7 [3] 1] in
  let f := mkFeature 1 [10] None [FRule (mkRule 2 [20] None [SOutline o])] in
  let cfg t := config_of (mkCfgData false false true (THas t) [] [] [] 99 false None []) in
  sel_ids (cfg 2) [f] = [row_id 5 0 0] /\ sel_ids (cfg 3) [f] = [row_id 5 1 0] /\
  sel_ids (cfg 20) [f] = [row_id 5 0 0; row_id 5 1 0] /\ sel_ids (cfg 10) [f] = [row_id 5 0 0; row_id 5 1 0] /\
  sel_ids (cfg 4) [f] = [].
Proof. vm_compute. repeat split. Qed.

(* explicit exclusion: tag 9 is the exclusion tag; the scenario carrying it runs only when the
   before_feature hook (which excludes) is not defined *)
Example an_excluded_scenario_does_not_run :
  let f := mkFeature 1 [] None [FItem (SScen (mkScen 2 [9] [mkStep KPass 5])); FItem (SScen (mkScen 3 [] [mkStep KPass 6]))] in
  let cfg hooks := config_of (mkCfgData false false true TTrue hooks [] [] 99 false (Some 9) []) in
  sel_ids (cfg [HBeforeFeature]) [f] = [3] /\ sel_ids (cfg []) [f] = [2; 3] /\
  (let '(_, _, _, evs) := run_model (cfg [HBeforeFeature]) [f] in
   existsb (fun e => match e with EStep _ 5 _ _ => true | _ => false end) evs = false /\
   existsb (fun e => match e with EStep _ 6 _ _ => true | _ => false end) evs = true) /\
  (let '(_, _, _, evs) := run_model (cfg []) [f] in
   existsb (fun e => match e with EStep _ 5 _ _ => true | _ => false end) evs = true).
Proof. vm_compute. repeat split. Qed.
