(* C09 — Tag selection with inheritance selects exactly the matching scenarios.
   The tag expression is abstract: any function list nat -> bool (config.tag_expression.check). *)
From BV Require Import Base Status Rollup Runner RunnerSteps RunnerQuiet RunnerSelect RunnerEq RunnerSelectMore.
From BVGen Require Import StatusTable.

(* a de-selected scenario: no hook, no step call; skipped with all steps skipped
   (untested if the run was already aborted when it was reached) *)
Theorem unselected_scenario_is_silent_and_skipped :
  forall cfg st id all_steps oe eff own,
    c_expr cfg eff = false ->
    run_scenario cfg st id all_steps oe eff own =
    (st,
     mkScenRes id
       (if oe then Some skipped
        else scenario_compute false (map (fun _ => if aborted st then untested else skipped) all_steps))
       false (map (fun _ => if aborted st then untested else skipped) all_steps),
     false,
     if c_show_skipped cfg
     then EFmt (FScenario id) :: map (fun s => EFmt (FStepAnn (st_id s))) all_steps else []).
Proof. exact run_scenario_unselected. Qed.
Print Assumptions unselected_scenario_is_silent_and_skipped.

(* whole run: every step call and every before/after_scenario hook belongs to a scenario (or
   outline row) whose effective tags - own + rule + feature, rows: outline + examples block -
   satisfy the expression *)
Theorem executed_scenarios_are_exactly_selected_ones :
  forall cfg fs rs verdict ab evs,
    run_model cfg fs = (rs, verdict, ab, evs) -> scoped (sel_ids cfg fs) evs = true.
Proof. exact executed_scenarios_are_selected. Qed.
Print Assumptions executed_scenarios_are_exactly_selected_ones.

Theorem selected_scenario_runs :
  forall cfg st id all_steps oe eff own st' res fld ev,
    c_expr cfg eff = true -> c_dry cfg = false -> c_hooks cfg HBeforeScenario = true ->
    run_scenario cfg st id all_steps oe eff own = (st', res, fld, ev) ->
    In (EHook HBeforeScenario id (c_faults cfg HBeforeScenario id)) ev.
Proof. exact selected_scenario_runs_before_hook. Qed.
Print Assumptions selected_scenario_runs.

(* a rule none of whose scenarios is selected ends skipped, calls nothing *)
Theorem rule_without_selected_scenario_is_skipped :
  forall cfg st r anc inh fhb,
    aborted st = false ->
    rule_should_run cfg anc r = false ->
    forallb (sitem_nonempty (inh ++ opt_steps (r_bg r))) (r_items r) = true ->
    exists res ev, run_rule cfg st r anc inh fhb = (st, res, false, ev) /\
      rr_status res = skipped /\ rr_hook_failed res = false /\ allq ev = true.
Proof. exact unselected_rule_is_skipped. Qed.
Print Assumptions rule_without_selected_scenario_is_skipped.

(* the same for a feature (its rules included) *)
Theorem feature_without_selected_scenario_is_skipped :
  forall cfg st f,
    aborted st = false ->
    feature_should_run cfg f = false ->
    forallb (fitem_nonempty (opt_steps (f_bg f))) (f_items f) = true ->
    exists res ev, run_feature cfg st f = (st, res, false, ev) /\
      fr_status res = skipped /\ fr_hook_failed res = false /\ allq ev = true.
Proof. exact unselected_feature_is_skipped. Qed.
Print Assumptions feature_without_selected_scenario_is_skipped.

(* conversely a rule or feature ends skipped ONLY if everything in it is skipped: one that
   contains a scenario that passed or failed (or anything else not skipped) does not *)
Theorem a_skipped_rule_contains_only_skipped_elements :
  forall cfg st r anc inh fhb st' res fld ev,
    run_rule cfg st r anc inh fhb = (st', res, fld, ev) ->
    rr_status res = skipped ->
    forallb (fun x => status_eqb (item_status x) skipped) (rr_items res) = true.
Proof. exact skipped_rule_contains_only_skipped_elements. Qed.
Print Assumptions a_skipped_rule_contains_only_skipped_elements.

Theorem a_skipped_feature_contains_only_skipped_elements :
  forall cfg st f st' res fld ev,
    run_feature cfg st f = (st', res, fld, ev) ->
    fr_status res = skipped ->
    forallb (fun x => status_eqb (fitem_status x) skipped) (fr_items res) = true.
Proof. exact skipped_feature_contains_only_skipped_elements. Qed.
Print Assumptions a_skipped_feature_contains_only_skipped_elements.

(* effective tags: what the model hands to the expression for a row of an outline inside a rule *)
Example effective_tags_inherit :
  let o := mkOutline 5 [1] [mkStep KPass 9] [mkEx 6 [2] 1; mkEx 7 [3] 1] in
  let f := mkFeature 1 [10] None [FRule (mkRule 2 [20] None [SOutline o])] in
  let cfg t := config_of (mkCfgData false false true (THas t) [] [] [] 99 false) in
  sel_ids (cfg 2) [f] = [row_id 5 0 0] /\ sel_ids (cfg 3) [f] = [row_id 5 1 0] /\
  sel_ids (cfg 20) [f] = [row_id 5 0 0; row_id 5 1 0] /\ sel_ids (cfg 10) [f] = [row_id 5 0 0; row_id 5 1 0] /\
  sel_ids (cfg 4) [f] = [].
Proof. vm_compute. repeat split. Qed.
