(* C14 — Summary conservation: every element counted once under its final status. *)
From BV Require Import Base Status Rollup Runner RunnerRange Summary SummaryProofs RunnerEq.
From BVGen Require Import StatusTable SummaryTables.

(* every status that a run can produce is in the documented range (so no table lacks a key) *)
Theorem run_statuses_are_in_range :
  forall cfg fs rs verdict ab evs,
    run_model cfg fs = (rs, verdict, ab, evs) -> forallb feat_res_ok rs = true.
Proof. exact run_statuses_in_range. Qed.
Print Assumptions run_statuses_are_in_range.

(* the reporter's walk over any in-range result forest: no KeyError, each count = census,
   counts add up to the number of elements, problem lists = is_failure / is_error scenarios in order *)
Theorem reporter_summary_conservation :
  forall fs, forallb feat_res_ok fs = true ->
    exists sm, reporter_summary fs = Some sm /\ census_ok sm fs.
Proof. exact reporter_conservation. Qed.
Print Assumptions reporter_summary_conservation.

Theorem collector_summary_conservation :
  forall fs, forallb feat_res_ok fs = true ->
    exists sm, collector_summary fs = Some sm /\ census_ok sm fs.
Proof. exact collector_conservation. Qed.
Print Assumptions collector_summary_conservation.

(* ... in particular for the results of every run, whatever was cut short or de-selected *)
Theorem summary_of_every_run_is_exact :
  forall cfg feats rs verdict ab evs,
    run_model cfg feats = (rs, verdict, ab, evs) ->
    (exists sm, reporter_summary rs = Some sm /\ census_ok sm rs) /\
    (exists sm, collector_summary rs = Some sm /\ census_ok sm rs).
Proof. exact run_summary_conservation. Qed.
Print Assumptions summary_of_every_run_is_exact.

(* all five formats print numbers of the table; a non-zero count is never suppressed *)
Theorem formats_print_table_counts :
  forall f t s c, In (s, c) (snd (format_numbers f t)) -> c = tlookup t s.
Proof. exact format_numbers_sound. Qed.
Print Assumptions formats_print_table_counts.

Theorem formats_never_drop_a_nonzero_count :
  forall f t s, In s status_order -> in_table t s = true -> tlookup t s <> 0 ->
    In (s, tlookup t s) (snd (format_numbers f t)) \/
    (f = FV1B /\ s = passed /\ fst (format_numbers f t) = Some (tlookup t s)).
Proof. exact format_numbers_complete. Qed.
Print Assumptions formats_never_drop_a_nonzero_count.

Theorem every_table_key_has_a_place_in_the_output :
  forallb (fun k => mem_status k status_order) (feature_keys ++ rule_keys ++ element_keys ++ step_keys) = true.
Proof. exact all_keys_have_a_place. Qed.
Print Assumptions every_table_key_has_a_place_in_the_output.

Theorem leading_total_is_all_or_passed :
  forall f t n, fst (format_numbers f t) = Some n -> n = table_sum t \/ (f = FV1B /\ n = tlookup t passed).
Proof. exact format_total. Qed.
Print Assumptions leading_total_is_all_or_passed.
