(* C16 — JUnit reports are well-formed XML with counters that match their test cases.
   Statements only; proofs are in theories/JUnitProofs.v. *)
From BV Require Import Base UStr Status JUnit JUnitProofs TableFacts.
From BVGen Require Import StatusTable JUnitTables.

(* tests / errors / failures / skipped equal the numbers of test cases and of error, failure and skipped entries *)
Theorem counters_equal_the_numbers_of_entries :
  forall show scens,
  let r := report show scens in
  n_tests (fst r) = length (snd r) /\ n_errors (fst r) = count_child is_err (snd r) /\
  n_failed (fst r) = count_child is_fail (snd r) /\ n_skipped (fst r) = count_child is_skip (snd r).
Proof. exact counters_match_entries. Qed.
Print Assumptions counters_equal_the_numbers_of_entries.

(* the test cases are the scenarios - skipped ones only when shown - in order, each with its final status *)
Theorem test_cases_are_the_scenarios_to_report :
  forall show scens, snd (report show scens) = map (tcase_of show) (filter (reported show) scens).
Proof. exact test_cases_are_the_reported_scenarios. Qed.
Print Assumptions test_cases_are_the_scenarios_to_report.

Theorem a_test_case_carries_the_final_status_of_its_scenario :
  forall show s, tc_status (tcase_of show s) = j_status s.
Proof. reflexivity. Qed.
Print Assumptions a_test_case_carries_the_final_status_of_its_scenario.

(* a scenario that failed or errored is always reported, with an error or failure entry *)
Theorem failed_and_errored_scenarios_always_carry_an_entry :
  forall show s, has_failed (j_status s) = true ->
  reported show s = true /\ (kids_of show s = [CError] \/ kids_of show s = [CFailure]).
Proof. exact a_failed_or_errored_scenario_is_reported_with_an_entry. Qed.
Print Assumptions failed_and_errored_scenarios_always_carry_an_entry.

(* whatever characters occur: attribute values follow the AttValue grammar and consist of XML Chars *)
Theorem attribute_values_are_wellformed :
  forall v, Forall code_point v -> exists toks, attr_content v = concat toks /\ Forall attr_token toks.
Proof. exact attribute_text_is_a_valid_attvalue. Qed.
Print Assumptions attribute_values_are_wellformed.

(* CDATA sections never contain the terminator and consist of XML Chars *)
Theorem cdata_sections_are_wellformed :
  forall text, has_end (cdata_content text) = false /\
  (Forall code_point (strip_escapes text) -> Forall (fun x => xml_char x = true) (cdata_content text)).
Proof. intros text. split; [apply cdata_text_never_contains_the_terminator|apply cdata_text_is_made_of_xml_chars]. Qed.
Print Assumptions cdata_sections_are_wellformed.

Theorem has_end_is_the_substring_test :
  forall s, has_end s = true <-> exists a b, s = a ++ cdata_end ++ b.
Proof. exact has_end_spec. Qed.
Print Assumptions has_end_is_the_substring_test.

(* the reporter's invalid-character table covers every code point that is not an XML Char *)
Theorem every_unreplaced_code_point_is_an_xml_char :
  forall c, code_point c -> junit_invalid c = false -> xml_char c = true.
Proof. exact invalid_ranges_cover_the_illegal_characters. Qed.
Print Assumptions every_unreplaced_code_point_is_an_xml_char.

(* non-vacuity *)
Example a_small_report :
  let s1 := mkJ [83; 49; 1; 60]%N failed [passed; failed] [93; 93; 62; 27; 91; 51; 49; 109; 120]%N [] in
  let s2 := mkJ [83; 50]%N skipped [skipped] [] [] in
  let s3 := mkJ [83; 51]%N untested [untested; undefined] [] [] in
  report true [s1; s2; s3] =
    (mkCounts 3 0 2 2,
     [mkTC [83; 49; 85; 43; 48; 48; 48; 49; 38; 108; 116; 59]%N failed [CFailure]
           ([10%N] ++ lbl_out ++ [10; 93; 93; 38; 103; 116; 59; 120; 10]%N) None;
      mkTC [83; 50]%N skipped [CSkipped] [] None;
      mkTC [83; 51]%N untested [CUndefinedFailure; CSkipped] [] None]) /\
  fst (report false [s1; s2; s3]) = mkCounts 2 0 1 0.
Proof. vm_compute. split; reflexivity. Qed.

(* which final step statuses make a test case an error / a failure / skipped: decided on the table generated from junit.py *)
Theorem the_status_classes_of_the_reporter_are_the_documented_ones :
  junit_error_step_statuses = [error; hook_error; pending; undefined] /\
  junit_failed_step_statuses = [failed] /\ junit_skipped_statuses = [skipped; untested].
Proof. exact junit_status_classes_are_the_documented_ones. Qed.
Print Assumptions the_status_classes_of_the_reporter_are_the_documented_ones.
