(* C15 — Formatter event protocol well formed; JSON/plain/progress reports mirror the model. *)
From BV Require Import Base Status Rollup Runner RunnerSteps Formatters FormattersProofs Protocol RunnerEq.
From BVGen Require Import StatusTable.

(* every executed step: exactly one match and one result, the result carrying its status *)
Theorem step_reports_one_match_one_result :
  forall cfg st wip scid s st' status skip ev,
    run_step cfg st wip scid s = (st', status, skip, ev) -> fmt_of ev = step_pair (s, status).
Proof. exact run_step_fmt. Qed.
Print Assumptions step_reports_one_match_one_result.

(* a scenario's event stream, for every program state, configuration and fault set: its
   announcement (when shown) followed by (match, result) pairs for a PREFIX of its steps, in step
   order, each result carrying the step's final status; nothing is reported for a hidden scenario *)
Theorem scenario_event_stream_shape :
  forall cfg st id all_steps oe eff own st' res fld ev,
    run_scenario cfg st id all_steps oe eff own = (st', res, fld, ev) ->
    exists n, n <= length all_steps /\ length (sr_steps res) = length all_steps /\
      fmt_of ev = announcement (sel cfg eff || c_show_skipped cfg) id all_steps
                  ++ processed n all_steps (sr_steps res) /\
      (sel cfg eff = false -> n = 0).
Proof. exact scenario_fmt_shape. Qed.
Print Assumptions scenario_event_stream_shape.

(* the whole run, for every program, configuration, selection and fault set: the stream every
   formatter receives is a word of the protocol automaton (Protocol.v) -
     run ::= (uri [FFeature [background] (rule | scenario)* eof])* close
   where a rule is FRuleEv [background] scenario*, a scenario announces its steps and then
   reports (match, result) pairs that name the announced steps in order, at most one pair per
   step, and there is exactly one close, at the very end *)
Theorem every_run_stream_is_a_word_of_the_protocol :
  forall cfg fs rs verdict ab evs,
    run_model cfg fs = (rs, verdict, ab, evs) -> protocol_ok (fmt_of evs) = true.
Proof. exact run_stream_follows_the_protocol. Qed.
Print Assumptions every_run_stream_is_a_word_of_the_protocol.

(* the automaton is not trivial: it rejects a result for the wrong step, a second close, a
   scenario outside a feature, a result without match *)
Example the_protocol_rejects_malformed_streams :
  protocol_ok [FUri 1; FFeature 1; FScenario 2; FStepAnn 3; FStepAnn 4; FMatch true; FResult 3 passed; FEof; FClose] = true /\
  protocol_ok [FUri 1; FFeature 1; FScenario 2; FStepAnn 3; FStepAnn 4; FMatch true; FResult 4 passed; FEof; FClose] = false /\
  protocol_ok [FUri 1; FFeature 1; FScenario 2; FStepAnn 3; FResult 3 passed; FEof; FClose] = false /\
  protocol_ok [FUri 1; FScenario 2; FClose] = false /\
  protocol_ok [FUri 1; FFeature 1; FEof; FClose; FClose] = false /\
  protocol_ok [FUri 1; FFeature 1; FScenario 2; FStepAnn 3; FMatch true; FEof; FClose] = false /\
  protocol_ok [FUri 1; FFeature 1; FEof] = false.
Proof. vm_compute. repeat split; reflexivity. Qed.

(* plain / progress: over such a stream the step queue never underflows and shows each
   processed step exactly once, the popped step being the reported one, with its final status *)
Theorem plain_and_progress_show_each_processed_step_once :
  forall n id steps sts queue0 shown0,
    n <= length steps -> length sts = length steps ->
    q_fold (queue0, shown0) (announcement true id steps ++ processed n steps sts)
    = Some (map st_id (skipn n steps), shown0 ++ shown_of n steps sts).
Proof. exact queue_reports_each_processed_step_once. Qed.
Print Assumptions plain_and_progress_show_each_processed_step_once.

(* JSON: over such a stream no index error occurs, result i lands on step i of the scenario's own
   element, unprocessed steps stay without result, earlier elements are untouched *)
Theorem json_element_mirrors_processed_steps :
  forall status_of st0 st1 id steps sts n,
    j_finish status_of st0 = Some st1 ->
    n <= length steps -> length sts = length steps ->
    j_fold status_of st0 (announcement true id steps ++ processed n steps sts)
    = Some (mkJState (j_elems st1 ++ [mkJElem (JScenario id) (done_steps n steps sts ++ pending_steps (skipn n steps)) None])
                     n (Some id) (length (j_elems st1))).
Proof. exact json_scenario_element. Qed.
Print Assumptions json_element_mirrors_processed_steps.

(* non-vacuity: a feature-level scenario followed by a rule with background (the shape that used
   to put the status on the background element) *)
Example json_status_goes_to_the_scenario_element :
  let cfg := mkCfgData false false true TTrue [] [] [] 99 false None [] in
  let f := mkFeature 1 [] (Some [mkStep KPass 1])
             [FItem (SScen (mkScen 2 [] [mkStep KFail 2; mkStep KPass 3]));
              FRule (mkRule 3 [] (Some [mkStep KPass 4]) [SScen (mkScen 5 [] [mkStep KPass 6])])] in
  fst (run_reports (run_case (cfg, [f]))) =
  Some [[mkJElem JBackground [mkJStep 1 None None] None;
         mkJElem (JScenario 2) [mkJStep 1 (Some true) (Some passed); mkJStep 2 (Some true) (Some failed); mkJStep 3 None None] (Some failed);
         mkJElem JBackground [mkJStep 4 None None] None;
         mkJElem (JScenario 5) [mkJStep 1 (Some true) (Some passed); mkJStep 4 (Some true) (Some passed); mkJStep 6 (Some true) (Some passed)] (Some passed)]].
Proof. vm_compute. reflexivity. Qed.
