(* C06 — Scenario Outline expansion: one scenario per row, exact placeholder substitution.
   Statements only; proofs are in theories/OutlineProofs.v. *)
From BV Require Import Base UStr Outline OutlineProofs TableFacts.
From BVGen Require Import OutlineTables.

(* build produces exactly one scenario per examples row, in examples-block then row order, at the row's line *)
Theorem one_scenario_per_row_in_order_at_the_rows_line :
  forall o l, build o = Some l ->
  length l = length (slots o) /\ map sc_line l = row_lines o /\
  row_lines o = flat_map (fun e => match e_table e with Some t => map snd (t_rows t) | None => [] end) (o_examples o).
Proof.
  intros o l H. destruct (one_scenario_per_row_at_its_line o l H) as [A B].
  split; [exact A|]. split; [exact B|]. apply row_lines_are_the_table_rows.
Qed.
Print Assumptions one_scenario_per_row_in_order_at_the_rows_line.

(* the i-th scenario is a function of the template and the i-th row only *)
Theorem rows_never_influence_each_other :
  forall o l, build o = Some l ->
  forall i s sc, nth_error (slots o) i = Some s -> nth_error l i = Some sc -> scenario_of_slot o s = Some sc.
Proof. exact rows_do_not_influence_each_other. Qed.
Print Assumptions rows_never_influence_each_other.

(* its tags are the outline's rendered tags followed by the tags of its examples block; its steps are the
   outline's steps rendered with the row; its line is the row's line *)
Theorem generated_scenario_shape :
  forall o s sc, scenario_of_slot o s = Some sc ->
  let row := row_items (sl_head s) (sl_cells s) in
  sc_line sc = sl_line s /\
  sc_tags sc = row_tags (o_tags o) row (slot_params o s) ++ e_tags (sl_ex s) /\
  sc_steps sc = map (fun st => step_for_row st row (slot_params o s)) (o_steps o) /\
  sc_background sc = (if existsb (fun st => looks_parametrized (s_text_name st)) (o_background o)
                      then map (fun st => step_for_row st row (slot_params o s)) (o_background o)
                      else o_background o).
Proof. exact scenario_of_slot_shape. Qed.
Print Assumptions generated_scenario_shape.

(* exact substitution: for a template made of literal chunks (without '<') and <hole> chunks, rendering with a row
   (column names without '>', cell values without '<') replaces every hole of a known column by that row's cell
   and changes nothing else; used for names, step names and doc-strings (render) ... *)
Theorem render_replaces_exactly_the_known_placeholders :
  forall cs row params, items_ok row = true -> items_ok params = true -> forallb chunk_wf cs = true ->
  render (flatten cs) row params = flatten (map (fill_chunk (row ++ params)) cs).
Proof. exact render_fills_holes. Qed.
Print Assumptions render_replaces_exactly_the_known_placeholders.

(* ... and for step-table headings and cells (plain sequential replace) *)
Theorem table_cells_are_filled_exactly :
  forall items cs, items_ok items = true -> forallb chunk_wf cs = true ->
  substitute items (flatten cs) = flatten (map (fill_chunk items) cs).
Proof. exact substitute_fills_holes. Qed.
Print Assumptions table_cells_are_filled_exactly.

Theorem text_without_placeholders_is_left_unchanged :
  (forall text row params, looks_parametrized text = false -> render text row params = text) /\
  (forall s row params, items_ok row = true -> items_ok params = true -> memN cp_lt s = false -> render s row params = s).
Proof. split; [exact text_without_placeholders_is_unchanged|exact literal_text_is_unchanged]. Qed.
Print Assumptions text_without_placeholders_is_left_unchanged.

(* the scenarios cache: after any history of table-API operations and accesses, every access returns build of
   the examples tables as they are at that moment *)
Theorem every_access_returns_build_of_the_current_tables :
  forall o h, cache_valid o -> snd (run_history o h) = expected_outs o h.
Proof. exact every_access_returns_the_current_build. Qed.
Print Assumptions every_access_returns_build_of_the_current_tables.

Theorem table_operations_and_accesses_keep_the_cache_valid :
  (forall o i op, cache_valid o -> cache_valid (table_step o i op)) /\
  (forall o o' r, cache_valid o -> access o = (o', r) -> r = build o /\ cache_valid o') /\
  (forall o, o_cache o = [] ->
             forallb (fun e => match e_table e with Some t => t_modified t | None => true end) (o_examples o) = true ->
             cache_valid o).
Proof. split; [exact table_step_keeps_cache_valid|]. split; [exact access_returns_build|exact fresh_outline_valid]. Qed.
Print Assumptions table_operations_and_accesses_keep_the_cache_valid.

(* non-vacuity: a concrete outline, two blocks with different column orders, a table operation in between *)
Example an_outline_expands_and_is_rebuilt :
  let s := fun (x : list N) => x in
  let st := mkStep [71%N] [60; 97; 62; 32; 97; 110; 100; 32; 60; 98; 62]%N None None 3 in      (* "<a> and <b>" *)
  let t1 := mkTable [[97%N]; [98%N]] [([[49%N]; [50%N]], 6); ([[51%N]; [52%N]], 7)] 5 true in
  let t2 := mkTable [[98%N]; [97%N]] [([[53%N]; [54%N]], 10)] 9 true in
  let o := mkOutline [110; 32; 60; 97; 62]%N [[116; 60; 98; 62]%N; [112%N]] [st] []
                     [mkExamples [69%N] [[120%N]] (Some t1); mkExamples [] [] (Some t2)] [123; 110; 97; 109; 101; 125]%N [] in
  match snd (run_history o [HAccess; HTable 1 (AddRow [[55%N]; [56%N]] None); HAccess]) with
  | [Some l1; Some l2] =>
      map sc_line l1 = [6; 7; 10] /\ map sc_line l2 = [6; 7; 10; 11] /\
      map sc_name l1 = [[110; 32; 49]%N; [110; 32; 51]%N; [110; 32; 54]%N] /\
      map sc_tags l1 = [[[116; 50]%N; [112%N]; [120%N]]; [[116; 52]%N; [112%N]; [120%N]]; [[116; 53]%N; [112%N]]] /\
      map (fun sc => map s_text_name (sc_steps sc)) l2 =
        [[[49; 32; 97; 110; 100; 32; 50]%N]; [[51; 32; 97; 110; 100; 32; 52]%N]; [[54; 32; 97; 110; 100; 32; 53]%N];
         [[56; 32; 97; 110; 100; 32; 55]%N]]
  | _ => False
  end.
Proof. vm_compute. repeat split; reflexivity. Qed.

(* the default name schema and the characters kept in rendered tags: decided on the table generated from model.py *)
Theorem the_outline_defaults_are_the_documented_ones :
  default_annotation_schema = doc_annotation_schema /\     (* {name} -- @{row.id} {examples.name} *)
  tag_allowed_chars = doc_tag_chars.                       (* . _ - = : , ; ( ) *)
Proof. exact outline_defaults_are_the_documented_ones. Qed.
Print Assumptions the_outline_defaults_are_the_documented_ones.
