(* C20 — Configuration precedence: command line over config file over defaults; userdata.
   Statements only; proofs are in theories/ConfigProofs.v and theories/UserDataProofs.v. *)
From BV Require Import Base UStr ConfigTypes UserData Config ConfigProofs ConfigTagsProofs UserDataProofs ConfigOrder TableFacts.
From BVGen Require Import ConfigTables.

(* ---- facts about the option tables generated from the code (decided by evaluation) ---- *)
Definition plain_dests : list ustr :=
  map o_dest (filter (fun o => negb (action_eqb (o_action o) AAppend) && negb (is_positional o) &&
                               match o_type o with TNone => true | _ => false end) cli_options).

(* every Boolean / constant / untyped single-valued option: all actions sharing its dest overwrite (never append)
   and are untyped, so the single-valued precedence theorem applies to it *)
Theorem option_table_single_valued_dests :
  forallb (fun d => setlike d && untyped d && negb (ustr_eqb d k_paths)) plain_dests = true /\
  length plain_dests = 42.
Proof. vm_compute. split; reflexivity. Qed.
Print Assumptions option_table_single_valued_dests.

(* each Boolean of the configuration file has a command-line action, and every --no-x action has a positive twin
   with the same dest and the opposite constant *)
Theorem option_table_boolean_pairs :
  forallb (fun f => match f with (d, AStoreTrue, _) => match first_opt d cli_options with Some _ => true | None => false end
                              | _ => true end) file_options = true /\
  forallb (fun o => match o_action o with
                    | AStoreFalse => existsb (fun p => ustr_eqb (o_dest p) (o_dest o) && action_eqb (o_action p) AStoreTrue &&
                                                        cval_eqb (o_const p) (VBool true)) cli_options &&
                                     cval_eqb (o_const o) (VBool false)
                    | _ => true end) cli_options = true.
Proof. vm_compute. split; reflexivity. Qed.
Print Assumptions option_table_boolean_pairs.

(* typed single-valued options and the append options *)
Theorem option_table_typed_and_append :
  setlike (u "jobs") = true /\ setlike (u "logging_level") = true /\
  forallb applike [u "format"; u "name"; u "outfiles"; u "tags"] = true /\
  deflike (u "userdata_defines") = true /\ first_opt (u "userdata") cli_options = None /\
  paths_only_positional = true /\ setlike k_paths = true /\ untyped k_paths = true.
Proof. vm_compute. repeat split; reflexivity. Qed.
Print Assumptions option_table_typed_and_append.

(* ---- precedence ---- *)
(* For every option whose actions overwrite and are untyped (the dests of the 42 actions above: all Booleans through their
   --x/--no-x pairs, color, the text options): after Configuration(args) succeeded its value is the one given by
   the last command-line occurrence touching it; else by the last configuration file (in search order) assigning it;
   else the built-in default - for every option no mode touches, and for the others when no mode
   (steps-catalog, wip, quiet, junit) is on. *)
Theorem command_line_over_file_over_default :
  forall c n, configure c = inl n ->
  exists datas np,
    Forall2 (fun df d => read_file (fst df) (snd df) = inl d) (present (c_home c) (c_files c)) datas /\
    parse_args (merged class_defaults datas) (c_argv c) = inl np /\
    forall d o,
      setlike d = true -> untyped d = true -> first_opt d cli_options = Some o ->
      (mem_str d post_written = false \/ (modes_off np /\ mem_str d post_keys = false)) ->
      ns_val d n = precedence_value d o datas (c_argv c).
Proof. exact precedence_single_valued. Qed.
Print Assumptions command_line_over_file_over_default.

Theorem typed_option_command_line_wins :
  forall c n d v, configure c = inl n -> setlike d = true -> mem_str d post_written = false ->
  last_set d (c_argv c) = Some v -> (forall s, v <> VStr s) -> ns_val d n = v.
Proof. exact precedence_typed_cmdline. Qed.
Print Assumptions typed_option_command_line_wins.

Theorem typed_option_file_over_default :
  forall c n d o v, configure c = inl n -> setlike d = true -> mem_str d post_written = false ->
  first_opt d cli_options = Some o -> last_set d (c_argv c) = None ->
  exists datas,
    Forall2 (fun df d => read_file (fst df) (snd df) = inl d) (present (c_home c) (c_files c)) datas /\
    (v = match last_file_value d datas with Some v => v | None => builtin_default d o end ->
     (forall s, v <> VStr s) -> ns_val d n = v).
Proof. exact precedence_typed_file. Qed.
Print Assumptions typed_option_file_over_default.

(* later files in the search order override earlier ones, key by key; unmentioned keys keep the defaults *)
Theorem merged_defaults_lookup :
  forall k base datas,
  ns_get k (merged base datas) = match last_file_value k datas with Some v => Some v | None => ns_get k base end.
Proof. exact merged_get. Qed.
Print Assumptions merged_defaults_lookup.

Theorem files_are_read_in_search_order :
  forall home files defs, load_configuration home files = inl defs ->
  exists datas, Forall2 (fun df d => read_file (fst df) (snd df) = inl d) (present home files) datas /\
                defs = merged class_defaults datas.
Proof. exact load_configuration_spec. Qed.
Print Assumptions files_are_read_in_search_order.

(* which configuration file is "the" configuration file when several assign an option: the search order generated from
   config_filenames() reads every file of the home directory before every file of the current directory (so the
   per-project file overrides, whatever the two are called), and looks in both places *)
Theorem project_configuration_files_override_the_home_directory :
  home_then_project false file_order = true.
Proof. exact project_files_are_read_after_home_files. Qed.
Print Assumptions project_configuration_files_override_the_home_directory.

Theorem after_a_project_file_only_project_files_are_read :
  forall l1 n k l2 b, home_then_project b (l1 ++ (false, n, k) :: l2) = true ->
    forall e, In e l2 -> fst (fst e) = false.
Proof. exact home_then_project_spec. Qed.
Print Assumptions after_a_project_file_only_project_files_are_read.

(* ... and what that order means for the loaded values: an option has the value of the last file of the current directory
   that assigns it; only when none does, that of the last such file of the home directory; else the built-in default *)
Theorem files_of_the_current_directory_win_over_files_of_the_home_directory :
  forall home files defs, load_configuration home files = inl defs ->
  exists hdatas pdatas,
    Forall2 (fun df d => read_file (fst df) (snd df) = inl d) (present_home home files) hdatas /\
    Forall2 (fun df d => read_file (fst df) (snd df) = inl d) (present_project home files) pdatas /\
    forall k, ns_get k defs =
      match last_file_value k pdatas with
      | Some v => Some v
      | None => match last_file_value k hdatas with Some v => Some v | None => ns_get k class_defaults end
      end.
Proof. exact project_files_win_over_home_files. Qed.
Print Assumptions files_of_the_current_directory_win_over_files_of_the_home_directory.

(* ---- list-valued options ---- *)
Theorem append_options_keep_file_order_then_command_line_order :
  forall c n d, configure c = inl n -> applike d = true -> mem_str d post_written = false ->
  exists datas,
    Forall2 (fun df d => read_file (fst df) (snd df) = inl d) (present (c_home c) (c_files c)) datas /\
    (listy (ns_val d (init_ns (merged class_defaults datas))) = true ->
     strs_of (ns_val d n) = strs_of (ns_val d (init_ns (merged class_defaults datas))) ++ appended d (c_argv c)).
Proof. exact precedence_append. Qed.
Print Assumptions append_options_keep_file_order_then_command_line_order.

Theorem positional_paths_replace_configured_paths :
  forall defs occs n p ps, parse_args defs occs = inl n -> untyped k_paths = true -> positionals occs = p :: ps ->
  ns_val k_paths n = VStrs (p :: ps).
Proof. exact parse_args_paths_cmdline. Qed.
Print Assumptions positional_paths_replace_configured_paths.

Theorem configured_paths_stay_without_positionals :
  forall defs occs n l, parse_args defs occs = inl n -> untyped k_paths = true -> setlike k_paths = true ->
  paths_only_positional = true -> positionals occs = [] -> ns_get k_paths (init_ns defs) = Some (VStrs l) ->
  ns_val k_paths n = VStrs l.
Proof. exact parse_args_paths_file. Qed.
Print Assumptions configured_paths_stay_without_positionals.

(* ---- paths and output files of a configuration file are relative to that file ---- *)
Theorem file_paths_are_resolved_against_the_file :
  forall dir d l, ns_get k_paths d = Some (VStrs l) ->
  ns_get k_paths (coupling dir d) = Some (VStrs (map (resolve dir) l)).
Proof. exact coupling_paths. Qed.
Print Assumptions file_paths_are_resolved_against_the_file.

Theorem file_outfiles_are_coupled_and_resolved :
  forall dir d,
  ns_get k_outfiles (coupling dir d) =
  match ns_get k_format d, ns_get k_outfiles d with
  | Some (VStrs fs), outs =>
      let o := match outs with Some (VStrs o) => o | _ => [] end in
      if Nat.ltb (length o) (length fs)
      then Some (VStrs (map (resolve dir) (o ++ map (fun f => f ++ u ".output") (skipn (length o) fs))))
      else if Nat.ltb (length fs) (length o) then Some (VStrs (map (resolve dir) (firstn (length fs) o)))
           else match outs with Some (VStrs o) => Some (VStrs (map (resolve dir) o)) | x => x end
  | _, Some (VStrs o) => Some (VStrs (map (resolve dir) o))
  | _, x => x
  end.
Proof. exact coupling_outfiles. Qed.
Print Assumptions file_outfiles_are_coupled_and_resolved.

Theorem resolve_relative_is_concatenation :
  forall dcomps pcomps, forallb plainb dcomps = true -> forallb plainb pcomps = true -> pcomps <> [] ->
  resolve (path_of true dcomps) (path_of false pcomps) = path_of true (dcomps ++ pcomps).
Proof. exact resolve_plain_relative. Qed.
Print Assumptions resolve_relative_is_concatenation.

Theorem resolve_keeps_absolute_paths :
  forall dir r, resolve dir (cp_slash :: r) = normpath (cp_slash :: r).
Proof. exact resolve_absolute. Qed.
Print Assumptions resolve_keeps_absolute_paths.

(* ---- user data ---- *)
Theorem defines_override_file_userdata :
  forall c n name, configure c = inl n ->
  exists datas np,
    Forall2 (fun df d => read_file (fst df) (snd df) = inl d) (present (c_home c) (c_files c)) datas /\
    parse_args (merged class_defaults datas) (c_argv c) = inl np /\
    sdict_get name (defs_of (ns_val (u "userdata") n)) =
    match last_assign name (defs_of (ns_val (u "userdata_defines") np)) with
    | Some v => Some v
    | None => sdict_get name (defs_of (ns_val (u "userdata") np))
    end.
Proof. exact precedence_userdata. Qed.
Print Assumptions defines_override_file_userdata.

Theorem defines_are_the_parsed_arguments_in_order :
  forall defs occs n d, parse_args defs occs = inl n -> deflike d = true -> ustr_eqb d k_paths = false ->
  ns_val d (init_ns defs) = VNone -> defs_of (ns_val d n) = map parse_user_define (appended d occs).
Proof. exact parse_args_defines. Qed.
Print Assumptions defines_are_the_parsed_arguments_in_order.

Theorem define_with_padding_and_plain_value :
  forall p1 name p2 p3 value p4 c r,
  all_space p1 = true -> all_space p2 = true -> all_space p3 = true -> all_space p4 = true ->
  name = c :: r -> is_quote c = false -> no_pad name = true -> no_eq name = true -> no_pad value = true ->
  unquote value = value ->
  parse_user_define (p1 ++ name ++ p2 ++ [cp_eq] ++ p3 ++ value ++ p4) = (name, value).
Proof. exact define_unquoted_value. Qed.
Print Assumptions define_with_padding_and_plain_value.

Theorem define_with_padding_and_quoted_value :
  forall p1 name p2 p3 q v p4 c r,
  all_space p1 = true -> all_space p2 = true -> all_space p3 = true -> all_space p4 = true ->
  name = c :: r -> is_quote c = false -> no_pad name = true -> no_eq name = true -> is_quote q = true ->
  parse_user_define (p1 ++ name ++ p2 ++ [cp_eq] ++ p3 ++ (q :: v ++ [q]) ++ p4) = (name, v).
Proof. exact define_quoted_value. Qed.
Print Assumptions define_with_padding_and_quoted_value.

Theorem define_inside_one_pair_of_quotes :
  forall q name value, is_quote q = true -> no_pad name = true -> no_eq name = true -> no_pad value = true ->
  parse_user_define (q :: (name ++ cp_eq :: value) ++ [q]) = (name, unquote value).
Proof. exact define_quoted_pair. Qed.
Print Assumptions define_inside_one_pair_of_quotes.

Theorem define_without_equals_is_a_true_flag :
  forall text, memN cp_eq (strip text) = false -> parse_user_define text = (strip text, str_true).
Proof. exact define_bare_name. Qed.
Print Assumptions define_without_equals_is_a_true_flag.

Theorem define_always_splits_at_the_first_equals :
  forall text, memN cp_eq (strip text) = true ->
  exists n v, split_first cp_eq (unquote (strip text)) = Some (n, v) /\
              parse_user_define text = (strip n, unquote (strip v)).
Proof. exact define_splits_at_first_eq. Qed.
Print Assumptions define_always_splits_at_the_first_equals.

(* ---- getters ---- *)
Theorem getters_return_the_default_for_a_missing_name :
  forall d name, ud_get name d = None ->
  getint d name = GDefault /\ getbool d name = GDefault /\ getfloat d name = GDefault.
Proof. intros d name H. repeat split; [now apply getint_missing|now apply getbool_missing|now apply getfloat_missing]. Qed.
Print Assumptions getters_return_the_default_for_a_missing_name.

Theorem getters_convert_text_or_raise_value_error :
  forall d name s, ud_get name d = Some (UText s) ->
  getint d name = match py_int s with Some z => GInt z | None => GValueError end /\
  getbool d name = match parse_bool_text s with Some b => GBool b | None => GValueError end /\
  getfloat d name = match py_float s with Some f => GFloat f | None => GValueError end.
Proof. intros d name s H. repeat split; [now apply getint_text|now apply getbool_text|now apply getfloat_text]. Qed.
Print Assumptions getters_convert_text_or_raise_value_error.

Theorem int_of_a_digit_string_is_its_decimal_value :
  forall s, forallb is_digit s = true -> s <> [] ->
  py_int s = Some (dec_value s) /\ py_int (45%N :: s) = Some (- dec_value s)%Z.
Proof. intros s H NE. split; [now apply py_int_digits|now apply py_int_negative]. Qed.
Print Assumptions int_of_a_digit_string_is_its_decimal_value.

Theorem int_of_the_decimal_text_of_a_number_is_that_number :
  forall z, py_int (z_to_str z) = Some z.
Proof. exact py_int_of_decimal_text. Qed.
Print Assumptions int_of_the_decimal_text_of_a_number_is_that_number.

Theorem getters_keep_values_that_already_have_the_type :
  forall d name,
  (forall b, ud_get name d = Some (UBool b) -> getbool d name = GKeep (UBool b)) /\
  (forall z, ud_get name d = Some (UInt z) -> getint d name = GKeep (UInt z)) /\
  (forall i, ud_get name d = Some (UFloat i) -> getfloat d name = GKeep (UFloat i)).
Proof. exact getters_keep_converted. Qed.
Print Assumptions getters_keep_values_that_already_have_the_type.

(* the tag expression of the run: --tags from the command line over the configuration file's tags
   (kept under config_tags) over default_tags over none; the stage touches nothing else and fails
   only for an unknown tag-expression protocol name *)
Theorem tags_command_line_over_file_over_default_tags :
  forall n n', tags_stage n = ok n' ->
    ns_val (u "tags") n' = chosen_tags n /\
    forall k, ustr_eqb k (u "tags") = false -> ustr_eqb k (u "protocol_in_use") = false -> ns_val k n' = ns_val k n.
Proof. exact tags_stage_precedence. Qed.
Print Assumptions tags_command_line_over_file_over_default_tags.

Theorem tags_stage_fails_only_for_an_unknown_protocol :
  forall n,
  (exists n', tags_stage n = ok n') \/
  (tags_stage n = inr EValue /\
   match ns_val (u "tag_expression_protocol") n with
   | VProto _ => False | VStr s => proto_from_name s = None | _ => True end).
Proof. exact tags_stage_total. Qed.
Print Assumptions tags_stage_fails_only_for_an_unknown_protocol.

(* ---- the hypotheses are satisfiable: one concrete configuration through the whole pipeline ---- *)
Example a_file_and_a_command_line :
  let ini := FIni [(u "show_skipped", u "false"); (u "color", u "on"); (u "jobs", u "4"); (u "format", [112; 108; 97; 105; 110; 10; 106; 115; 111; 110]%N);
                   (u "paths", u "feat")]
                  (Some [(u "foo", u "1"); (u "bar", u "2")]) None in
  let c := mkCase (u "/T/h") [(true, u "behave.ini", ini)] None
                  [OFlag (u "--show-skipped") None; OFlag (u "-D") (Some (u " foo = 'x y' ")); OFlag (u "-f") (Some (u "progress"));
                   OFlag (u "--no-summary") None] in
  match configure c with
  | inl n =>
      ns_val (u "show_skipped") n = VBool true /\          (* command line over file *)
      ns_val (u "color") n = VStr (u "on") /\              (* file over default *)
      ns_val (u "jobs") n = VInt 4 /\                      (* typed file value *)
      ns_val (u "summary") n = VBool false /\              (* --no- form *)
      ns_val (u "stop") n = VBool false /\                 (* default *)
      ns_val (u "format") n = VStrs [u "plain"; u "json"; u "progress"] /\
      ns_val (u "outfiles") n = VStrs [u "/T/h/plain.output"; u "/T/h/json.output"] /\
      ns_val (u "paths") n = VStrs [u "/T/h/feat"] /\
      ns_val (u "userdata") n = VDefs [(u "foo", u "x y"); (u "bar", u "2")]
  | inr _ => False
  end.
Proof. vm_compute. repeat split; reflexivity. Qed.

(* words read as Booleans in configuration files, the tag-expression protocol in force when nothing is said *)
Theorem the_configuration_words_are_the_documented_ones :
  ini_true = doc_ini_true /\ ini_false = doc_ini_false /\         (* 1 yes true on / 0 no false off *)
  nth_error proto_names proto_default = Some doc_auto_detect /\ nth_error proto_names proto_strict = Some doc_v2.
Proof. exact configuration_words_are_the_documented_ones. Qed.
Print Assumptions the_configuration_words_are_the_documented_ones.
