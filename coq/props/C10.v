(* C10 — File-location and name selection pick exactly the addressed scenarios. *)
From BV Require Import Base Select SelectProofs.

(* for EVERY line: the entity that starts at that line, else the nearest one starting above it *)
Theorem line_selects_nearest_entity_above :
  forall db line k v,
    keys_increasing db -> In (k, v) db -> k <= line ->
    (forall e, In e db -> fst e <= line -> fst e <= k) ->
    select_line db line = v.
Proof. exact select_line_nearest_above. Qed.
Print Assumptions line_selects_nearest_entity_above.

Theorem line_of_an_entity_selects_it :
  forall db line v, keys_increasing db -> In (line, v) db -> select_line db line = v.
Proof. exact select_line_exact. Qed.
Print Assumptions line_of_an_entity_selects_it.

(* the database built from a document is sorted, and complete when entities start on distinct lines *)
Theorem line_database_is_sorted : forall data, keys_increasing (line_db data).
Proof. exact line_db_sorted. Qed.
Print Assumptions line_database_is_sorted.

Theorem line_database_keeps_every_entity :
  forall data e, NoDup (map fst data) -> In e data -> In e (line_db data).
Proof. exact line_db_complete. Qed.
Print Assumptions line_database_keeps_every_entity.

(* line 0 or a bare file name selects all *)
Theorem location_without_line_selects_all :
  forall f locs, existsb (fun l => negb (loc_has_line l)) locs = true -> skipped_ids f locs = [].
Proof. exact no_line_selects_all. Qed.
Print Assumptions location_without_line_selects_all.

(* every other scenario except @setup/@teardown ones is skipped - and only those *)
Theorem skipped_iff_unaddressed_and_not_setup_teardown :
  forall f locs s, locs <> [] -> forallb loc_has_line locs = true ->
    (In (ls_id s) (skipped_ids f locs) <->
     exists s', In s' (feature_scens f) /\ ls_id s' = ls_id s /\ ls_keep s' = false /\
                ~ In (ls_id s') (selected_ids f locs)).
Proof. exact skipped_spec. Qed.
Print Assumptions skipped_iff_unaddressed_and_not_setup_teardown.

Theorem several_locations_select_the_union :
  forall f a b, selected_ids f (a ++ b) = selected_ids f a ++ selected_ids f b.
Proof. exact selected_union. Qed.
Print Assumptions several_locations_select_the_union.

Theorem consecutive_locations_are_grouped_in_order :
  forall locs, ungroup (group_locs locs None) = locs.
Proof. exact grouping_preserves_the_location_sequence. Qed.
Print Assumptions consecutive_locations_are_grouped_in_order.

Example outline_and_row_lines :
  let f := mkLFeature 2 [LFItem (LScen (mkLScen 1 4 false));
                         LFItem (LOutline 7 [mkLScen 2 11 false; mkLScen 3 12 false]);
                         LFRule (mkLRule 14 [LScen (mkLScen 4 15 true); LScen (mkLScen 5 18 false)])] in
  skipped_ids f [Some 7] = [1; 5] /\ skipped_ids f [Some 12] = [1; 2; 5] /\ skipped_ids f [Some 9] = [1; 5] /\
  skipped_ids f [Some 14] = [1; 2; 3] /\ skipped_ids f [Some 1] = [] /\ skipped_ids f [Some 16; Some 5] = [2; 3; 5].
Proof. vm_compute. repeat split. Qed.
