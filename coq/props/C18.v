(* C18 — Output capture isolates step output and always restores the real streams. *)
From BV Require Import Base Capture CaptureProofs.

(* one step under full capture (start_capture; anything written by the step function and its
   step hooks to stdout / stderr / logging; stop_capture): nothing reaches the real streams or
   the user's log handlers, the scenario's buffers grow by exactly the step's markers, and the
   controller is back in the "real streams" state *)
Theorem captured_step_is_isolated_and_restores_streams :
  forall cfg st writes,
    cc_out cfg = true -> cc_err cfg = true -> cc_log cfg = true -> cc_clear cfg = true ->
    ready cfg st ->
    let st' := fst (cap_run cfg st (step_ops writes)) in
    ready cfg st' /\ same_env st st' /\
    buf_out st' = buf_out st ++ markers ChOut writes /\
    buf_err st' = buf_err st ++ markers ChErr writes /\
    buf_log st' = buf_log st ++ markers ChLog writes.
Proof. exact captured_step. Qed.
Print Assumptions captured_step_is_isolated_and_restores_streams.

(* any number of steps: the failure report of step n (= the buffers at that point) contains
   everything produced in the scenario up to and including step n, in order *)
Theorem scenario_buffers_hold_exactly_the_scenario_output :
  forall cfg steps st,
    cc_out cfg = true -> cc_err cfg = true -> cc_log cfg = true -> cc_clear cfg = true ->
    ready cfg st ->
    let st' := fst (cap_run cfg st (steps_ops steps)) in
    ready cfg st' /\ same_env st st' /\
    buf_out st' = buf_out st ++ markers ChOut (concat steps) /\
    buf_err st' = buf_err st ++ markers ChErr (concat steps) /\
    buf_log st' = buf_log st ++ markers ChLog (concat steps).
Proof. exact captured_steps. Qed.
Print Assumptions scenario_buffers_hold_exactly_the_scenario_output.

(* ... and nothing from other scenarios: setup_capture starts every scenario with empty buffers *)
Theorem setup_gives_fresh_buffers_per_scenario :
  forall cfg st,
    cc_out cfg = true -> cc_err cfg = true -> cc_log cfg = true -> cc_clear cfg = true ->
    streams_real st -> crashed st = false ->
    let s' := fst (cap_step cfg st CapSetup) in
    ready cfg s' /\ buf_out s' = [] /\ buf_err s' = [] /\ buf_log s' = [] /\
    real_out s' = real_out st /\ real_err s' = real_err st /\ handler_seen s' = handler_seen st /\
    saved_handlers s' = filter (fun h => negb (is_capture_handler h)) (root_handlers st) /\
    old_level s' = Some (root_level st).
Proof. exact setup_gives_fresh_buffers. Qed.
Print Assumptions setup_gives_fresh_buffers_per_scenario.

(* stop_capture gives the original stream objects back from ANY controller state *)
Theorem stop_always_restores_real_streams :
  forall cfg st,
    let st' := fst (cap_step cfg st CapStop) in
    (cc_out cfg = true -> old_out st = true -> sys_out st' = None) /\
    (cc_err cfg = true -> old_err st = true -> sys_err st' = None) /\
    (cc_out cfg = true -> old_out st' = false) /\ (cc_err cfg = true -> old_err st' = false).
Proof. exact stop_restores. Qed.
Print Assumptions stop_always_restores_real_streams.

(* capture disabled: every write passes straight through, for every operation sequence *)
Theorem disabled_capture_passes_output_through :
  forall cfg ops st, cc_out cfg = false -> sys_out st = None ->
    real_out (fst (cap_run cfg st ops)) = real_out st ++ out_writes ops /\
    sys_out (fst (cap_run cfg st ops)) = None.
Proof. exact disabled_passes_through. Qed.
Print Assumptions disabled_capture_passes_output_through.

(* scenario end: the root logger's handlers and level are as before the scenario's setup *)
Theorem teardown_restores_root_logger :
  forall cfg st,
    cc_log cfg = true -> cc_clear cfg = true -> has_log st = true ->
    root_handlers st = [HCapture (gen st)] ->
    let s' := fst (cap_step cfg st CapTeardown) in
    root_handlers s' = saved_handlers st /\
    root_level s' = match old_level st with Some l => l | None => root_level st end.
Proof. exact teardown_restores_logger. Qed.
Print Assumptions teardown_restores_root_logger.

(* non-vacuity: a scenario with two steps, the second failing: its report has both steps' output *)
Example two_step_scenario :
  let cfg := mkCapCfg true true true true 20 in
  cap_obs cfg [1] 30
    ([CapSetup] ++ step_ops [(ChOut, 1); (ChLog, 2)] ++ step_ops [(ChErr, 3); (ChOut, 4)] ++ [CapReport; CapTeardown; CapWrite ChLog 5])
  = ([[[1; 4]; [3]; [2]]], [], [], [(1, 5)], [1], 30, (true, true), false).
Proof. vm_compute. reflexivity. Qed.
