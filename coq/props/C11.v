(* C11 — Step matching and dispatch: full-text match, right definition, right arguments.
   Statements only; proofs are in theories/StepMatchProofs.v. *)
From BV Require Import Base UStr StepMatch StepMatchProofs StepModules Regex RegexProofs Cuke CukeProofs.

(* A successful match splits the text into the pattern's literals and field pieces - every literal verbatim
   (case-sensitively), every field piece in its field's language -, with nothing left over when the pattern is anchored
   (parse, cfparse, re); every reported argument's start/end delimit its original text; arguments are in text order
   and do not overlap. *)
Theorem a_match_is_a_full_match_with_exact_spans :
  forall anch atoms text args, match_pattern anch atoms text = Matched args ->
  exists pieces rest,
    Forall2 atom_accepts atoms pieces /\ text = concat pieces ++ rest /\ (anch = true -> rest = []) /\
    Forall (fun a => a_end a = a_start a + length (a_original a) /\ slice text (a_start a) (a_end a) = a_original a) args /\
    (forall a b l1 l2 l3, args = l1 ++ a :: l2 ++ b :: l3 -> a_end a <= a_start b).
Proof. exact match_pattern_sound. Qed.
Print Assumptions a_match_is_a_full_match_with_exact_spans.

Theorem anchored_matchers_bind_only_complete_texts :
  forall atoms text args, match_pattern true atoms text = Matched args -> in_language atoms text.
Proof. exact anchored_match_is_a_full_match. Qed.
Print Assumptions anchored_matchers_bind_only_complete_texts.

(* parse, cfparse and re definitions are always anchored; re0 only if its author wrote the end marker *)
Theorem which_matchers_are_anchored :
  forall d, d_kind d <> KRe0 -> anchored d = true.
Proof. intros d H. unfold anchored. destruct (d_kind d); try reflexivity. congruence. Qed.
Print Assumptions which_matchers_are_anchored.

Theorem step_function_gets_anonymous_arguments_by_position_and_named_ones_by_keyword :
  forall args,
  length (positional args) + length (keywords args) = length args /\
  positional args = map a_value (filter (fun a => match a_name a with None => true | Some _ => false end) args) /\
  map fst (keywords args) = flat_map (fun a => match a_name a with Some n => [n] | None => [] end) args.
Proof. exact arguments_split. Qed.
Print Assumptions step_function_gets_anonymous_arguments_by_position_and_named_ones_by_keyword.

(* dispatch: the first matching definition of (definitions of the step's type ++ generic definitions) *)
Theorem find_match_returns_the_first_matching_candidate :
  forall l text,
  match find_first l text with
  | Undefined => forall d, In d l -> match_def d text = NoMatch
  | Bound f res => exists l1 d l2, l = l1 ++ d :: l2 /\ (forall e, In e l1 -> match_def e text = NoMatch) /\
                                   match_def d text = res /\ res <> NoMatch /\ f = d_func d
  end.
Proof. exact find_first_spec. Qed.
Print Assumptions find_match_returns_the_first_matching_candidate.

Theorem a_step_is_bound_only_to_a_definition_of_its_type_or_a_generic_one :
  forall r t text f res, find_match r t text = Bound f res ->
  exists d, (In d (defs_of r t) \/ In d (defs_of r TStep)) /\ d_func d = f /\ match_def d text = res /\ res <> NoMatch.
Proof. exact bound_only_to_registered_definitions. Qed.
Print Assumptions a_step_is_bound_only_to_a_definition_of_its_type_or_a_generic_one.

Theorem a_type_specific_definition_takes_precedence_over_generic_ones :
  forall r t text d, t <> TStep -> In d (defs_of r t) -> match_def d text <> NoMatch ->
  exists f res, find_match r t text = Bound f res /\
                exists e, In e (defs_of r t) /\ d_func e = f /\ match_def e text = res.
Proof. exact type_specific_before_generic. Qed.
Print Assumptions a_type_specific_definition_takes_precedence_over_generic_ones.

(* registration *)
Theorem what_a_registration_decides :
  forall existing attr text loc,
  match scan existing attr text loc with
  | Added => forall e, In e existing -> same_definition e attr loc = false /\ def_matches e text = false
  | Ignored => exists l1 e l2, existing = l1 ++ e :: l2 /\ same_definition e attr loc = true /\
                               (forall x, In x l1 -> same_definition x attr loc = false /\ def_matches x text = false)
  | Ambiguous l => exists l1 e l2, existing = l1 ++ e :: l2 /\ same_definition e attr loc = false /\
                                   def_matches e text = true /\ d_loc e = l /\
                                   (forall x, In x l1 -> same_definition x attr loc = false /\ def_matches x text = false)
  end.
Proof. exact scan_spec. Qed.
Print Assumptions what_a_registration_decides.

Theorem a_rejected_registration_leaves_the_registry_unchanged :
  forall r t p f loc r' res, add_step r t p f loc = (r', res) -> res <> Added -> r' = r.
Proof. exact rejected_registration_changes_nothing. Qed.
Print Assumptions a_rejected_registration_leaves_the_registry_unchanged.

Theorem an_accepted_registration_appends_one_definition_with_the_matcher_in_force :
  forall r t p f loc r', add_step r t p f loc = (r', Added) ->
  defs_of r' t = defs_of r t ++ [mkDef (r_current r) t (p_text p (r_current r)) (p_alts p (r_current r)) (p_end p) f loc] /\
  (forall t', t' <> t -> defs_of r' t' = defs_of r t') /\
  r_current r' = r_current r /\ r_default r' = r_default r.
Proof. exact accepted_registration_appends. Qed.
Print Assumptions an_accepted_registration_appends_one_definition_with_the_matcher_in_force.

(* histories *)
Theorem every_operation_keeps_earlier_definitions_in_place :
  forall r o r' outs, rstep r o = (r', outs) ->
  forall t, exists suffix, defs_of r' t = defs_of r t ++ suffix /\ length suffix <= 1.
Proof. exact rstep_lists. Qed.
Print Assumptions every_operation_keeps_earlier_definitions_in_place.

Theorem a_lookup_changes_nothing :
  forall r t text r' outs, rstep r (Lookup t text) = (r', outs) -> r' = r.
Proof. exact lookup_changes_nothing. Qed.
Print Assumptions a_lookup_changes_nothing.

Theorem every_history_keeps_each_list_to_its_own_step_type :
  forall ops, well_typed (fst (run_ops ops)).
Proof. exact histories_keep_lists_well_typed. Qed.
Print Assumptions every_history_keeps_each_list_to_its_own_step_type.

Theorem matcher_switches_take_effect_for_later_registrations :
  forall r,
  (forall k, r_current (fst (rstep r (UseMatcher k))) = k /\ r_default (fst (rstep r (UseMatcher k))) = r_default r) /\
  (r_current (fst (rstep r (UseDefault None))) = r_default r) /\
  (forall k, r_current (fst (rstep r (UseDefault (Some k)))) = k /\ r_default (fst (rstep r (UseDefault (Some k)))) = k) /\
  (r_default (fst (rstep r CurrentAsDefault)) = r_current r /\ r_current (fst (rstep r CurrentAsDefault)) = r_current r).
Proof. exact matcher_switches. Qed.
Print Assumptions matcher_switches_take_effect_for_later_registrations.

(* loading the step modules of a run (load_step_modules = make the matcher in force the default; per module: its operations,
   then back to the default): every module starts under the matcher that was in force when loading began, whatever the
   modules before it chose and left chosen - so a module that makes no choice of its own has its patterns compiled by
   the run's default matcher *)
Theorem every_step_module_starts_under_the_runs_default_matcher :
  forall r before, Forall (fun m => forallb keeps_default m = true) before ->
  r_current (run_from r (load_ops before)) = r_current r /\ r_default (run_from r (load_ops before)) = r_current r.
Proof. exact every_module_starts_under_the_default. Qed.
Print Assumptions every_step_module_starts_under_the_runs_default_matcher.

Theorem a_module_without_a_choice_of_its_own_registers_under_the_default :
  forall r before t p f loc r',
  Forall (fun m => forallb keeps_default m = true) before ->
  add_step (run_from r (load_ops before)) t p f loc = (r', Added) ->
  exists d, defs_of r' t = defs_of (run_from r (load_ops before)) t ++ [d] /\ d_kind d = r_current r /\ d_func d = f.
Proof. exact a_module_without_a_choice_registers_under_the_default. Qed.
Print Assumptions a_module_without_a_choice_of_its_own_registers_under_the_default.

Example a_matcher_left_chosen_by_one_module_does_not_reach_the_next :
  kinds_after_loading (KParse, [(0, Some KRe); (1, None); (2, Some KCfparse); (3, None)])
  = [(0, KRe); (1, KParse); (2, KCfparse); (3, KParse)]
  /\ kinds_after_loading (KRe, [(0, None); (1, Some KParse); (2, None)]) = [(0, KRe); (1, KParse); (2, KRe)].
Proof. vm_compute. split; reflexivity. Qed.

(* regular expressions (the `re` and `re0` matchers) beyond flat patterns: alternation, greedy and lazy * + ?, named,
   unnamed, nested and optional groups.  The backtracking matcher with Python's priority order is sound: *)
Theorem a_regex_anchored_at_the_end_binds_only_complete_texts :
  forall r text cs, rx_match true r text = Some cs -> lang r text.
Proof. exact anchored_regex_matches_only_complete_texts. Qed.
Print Assumptions a_regex_anchored_at_the_end_binds_only_complete_texts.

Theorem every_successful_regex_match_consumes_a_member_of_the_language :
  forall r idx fuel rest pos cs k res, mrx r idx fuel rest pos cs k = Some res ->
  exists piece rest' cs', rest = piece ++ rest' /\ lang r piece /\ k rest' (pos + length piece) cs' = Some res.
Proof. exact mrx_sound. Qed.
Print Assumptions every_successful_regex_match_consumes_a_member_of_the_language.

Theorem regex_arguments_are_unset_or_delimit_their_original_text :
  forall anch r text args, rx_check_match anch r text = Some args ->
  Forall (fun a => match ra_span a with
                   | None => ra_text a = None
                   | Some (s, e) => s <= e <= length text /\ ra_text a = Some (firstn (e - s) (skipn s text))
                   end) args.
Proof. exact reported_arguments_delimit_their_text. Qed.
Print Assumptions regex_arguments_are_unset_or_delimit_their_original_text.

Example a_regex_with_alternation_optional_and_nested_groups :
  (* (?P<a>x|(y))(?: and (\w+))?  *)
  let r := RSeq (RGroup (Some [97%N]) (RAlt (RChar 120) (RGroup None (RChar 121))))
                (ROpt true (RSeq (RSeq (RSeq (RSeq (RSeq (RChar 32) (RChar 97)) (RChar 110)) (RChar 100)) (RChar 32)) (RGroup None (RPlus true (RClass CWord))))) in
  rx_check_match true r [121; 32; 97; 110; 100; 32; 122; 122]%N =
    Some [mkRArg (Some (0, 1)) (Some [121%N]) (Some [97%N]); mkRArg (Some (0, 1)) (Some [121%N]) None; mkRArg (Some (6, 8)) (Some [122; 122]%N) None] /\
  rx_check_match true r [120%N] = Some [mkRArg (Some (0, 1)) (Some [120%N]) (Some [97%N]); mkRArg None None None; mkRArg None None None] /\
  rx_check_match true r [120; 32]%N = None /\ rx_check_match false r [120; 32]%N <> None.
Proof. vm_compute. repeat split; discriminate. Qed.

(* non-vacuity: "I have {n:d} and {what}" against "I have 12 and x y"; type-specific before generic; ambiguity *)
Example a_small_registry :
  let lit := fun s => ALit s in
  let ihave := [73; 32; 104; 97; 118; 101; 32]%N in let and_ := [32; 97; 110; 100; 32]%N in
  let atoms := [lit ihave; AField (Some [110%N]) CSignedInt true false VInt; lit and_; AField (Some [119%N]) CAny false false VText] in
  let text := ihave ++ [49; 50]%N ++ and_ ++ [120; 32; 121]%N in
  let p := mkPattern (fun _ => ihave ++ [123; 110; 125]%N) (fun _ => [atoms]) true in
  let generic := mkPattern (fun _ => [123; 125]%N) (fun _ => [[AField None CAny false false VText]]) true in
  match_pattern true atoms text =
    Matched [mkArg 7 9 [49; 50]%N (XInt 12) (Some [110%N]); mkArg 14 17 [120; 32; 121]%N (XText [120; 32; 121]%N) (Some [119%N])] /\
  match_pattern true atoms (84%N :: text) = NoMatch /\ match_pattern true [lit ihave] (ihave ++ [33%N]) = NoMatch /\
  match_pattern false [lit ihave] (ihave ++ [33%N]) = Matched [] /\
  snd (run_ops [Register TStep generic 0 0; Register TGiven p 1 1; Register TGiven p 2 2; Register TGiven p 1 1;
                Lookup TGiven text; Lookup TWhen text]) =
    [OAdd Added; OAdd Added; OAdd (Ambiguous 1); OAdd Ignored;
     OLookup (Bound 1 (Matched [mkArg 7 9 [49; 50]%N (XInt 12) (Some [110%N]); mkArg 14 17 [120; 32; 121]%N (XText [120; 32; 121]%N) (Some [119%N])]));
     OLookup (Bound 0 (Matched [mkArg 0 17 text (XText text) None]))].
Proof. vm_compute. repeat split; reflexivity. Qed.

(* ---- the cucumber-expression matcher (Cuke.v: literal text, optional text, alternative words, the int / word /
   anonymous parameters): the same clauses ---- *)
Theorem a_cucumber_expression_binds_only_complete_texts :
  forall p text args, cuke_check_match p text = Some args -> lang (cuke_rx p) text.
Proof. exact cuke_binds_only_complete_texts. Qed.
Print Assumptions a_cucumber_expression_binds_only_complete_texts.

Theorem a_cucumber_expression_yields_one_unnamed_argument_per_parameter :
  forall p text args, cuke_check_match p text = Some args ->
    length args = length (filter is_param p) /\ Forall (fun a => ra_name a = None) args.
Proof. exact cuke_one_argument_per_parameter. Qed.
Print Assumptions a_cucumber_expression_yields_one_unnamed_argument_per_parameter.

(* an expression without parameters that matches does bind (with an empty argument list, which is not "no match") *)
Theorem a_parameterless_cucumber_expression_binds_without_arguments :
  forall p text, filter is_param p = [] ->
    cuke_check_match p text = match rx_match true (cuke_rx p) text with Some _ => Some [] | None => None end.
Proof. exact cuke_parameterless_expression_binds_without_arguments. Qed.
Print Assumptions a_parameterless_cucumber_expression_binds_without_arguments.

Theorem cucumber_expression_arguments_delimit_their_original_text :
  forall p text args, cuke_check_match p text = Some args ->
    Forall (fun a => match ra_span a with
                     | None => ra_text a = None
                     | Some (s, e) => s <= e <= length text /\ ra_text a = Some (firstn (e - s) (skipn s text))
                     end) args.
Proof. exact cuke_arguments_delimit_their_text. Qed.
Print Assumptions cucumber_expression_arguments_delimit_their_original_text.
