(* C17 — Rerun file lists exactly the unsuccessful scenarios; fed back it selects them. *)
From BV Require Import Base Status Rollup Runner Summary Select SelectProofs Rerun RunnerSteps RerunMore.
From BVGen Require Import StatusTable.

Theorem rerun_lists_exactly_the_unsuccessful_scenarios :
  forall rs id,
    In id (rerun_ids rs) <->
    exists r, In r (scen_results rs) /\ sr_id r = id /\
              exists s, sr_status r = Some s /\ has_failed s = true.
Proof. exact rerun_lists_exactly_unsuccessful. Qed.
Print Assumptions rerun_lists_exactly_the_unsuccessful_scenarios.

Theorem rerun_file_is_removed_when_nothing_failed :
  forall rs,
    (forall r, In r (scen_results rs) -> forall s, sr_status r = Some s -> has_failed s = false) ->
    rerun_file_written rs = false.
Proof. exact rerun_file_removed_when_none. Qed.
Print Assumptions rerun_file_is_removed_when_nothing_failed.

(* every scenario and every outline row can be addressed by its own line *)
Theorem own_line_selects_exactly_the_scenario :
  forall f s, NoDup (map fst (feature_data f)) -> In s (feature_scens f) ->
    select_line (line_db (feature_data f)) (ls_line s) = [ls_id s].
Proof. exact line_selects_own_scenario. Qed.
Print Assumptions own_line_selects_exactly_the_scenario.

Theorem feeding_the_rerun_list_back_selects_exactly_it :
  forall f listed, NoDup (map fst (feature_data f)) ->
    (forall s, In s listed -> In s (feature_scens f) /\ 0 < ls_line s) ->
    selected_ids f (map (fun s => Some (ls_line s)) listed) = ids listed.
Proof. exact feedback_selects_exactly_the_listed. Qed.
Print Assumptions feeding_the_rerun_list_back_selects_exactly_it.

(* in run order: the list is a subsequence of the scenario ids in the order in which the run
   walked them; with distinct ids nothing is listed twice *)
Theorem the_rerun_list_is_in_run_order :
  forall rs, subseq (rerun_ids rs) (map sr_id (scen_results rs)).
Proof. exact rerun_list_is_in_run_order. Qed.
Print Assumptions the_rerun_list_is_in_run_order.

Theorem the_rerun_list_has_no_duplicates :
  forall rs, NoDup (map sr_id (scen_results rs)) -> NoDup (rerun_ids rs).
Proof. exact rerun_list_has_no_duplicates. Qed.
Print Assumptions the_rerun_list_has_no_duplicates.
