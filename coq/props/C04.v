(* C04 — Gherkin parsing is faithful: structure, text, tags, step types and line numbers.
   Statements only; proofs are in theories/GherkinProofs.v. *)
From BV Require Import Base UStr GherkinTypes Gherkin GherkinProofs GherkinRowProofs GherkinBlockProofs GherkinTagProofs GherkinTableProofs GherkinDocProofs GherkinRichProofs GherkinDescrProofs GherkinBgProofs GherkinOutlineProofs GherkinBgItemsProofs GherkinZoom GherkinRuleProofs.
From BVGen Require Import GherkinTables.

(* In every one of the languages of behave.i18n, every alias of every structural keyword, written as "<alias>: x", is
   classified as its own kind with that alias and the name "x" (and is not mistaken for a step); every step keyword
   followed by "x" is recognized as that keyword, with the type of the list it stands in and the name "x". *)
Theorem every_keyword_of_every_language_is_recognized_as_itself :
  length languages = 80 /\
  forallb (fun lk => struct_keywords_ok (snd lk) && step_keywords_ok (snd lk)) languages = true.
Proof. vm_compute. split; reflexivity. Qed.
Print Assumptions every_keyword_of_every_language_is_recognized_as_itself.

Theorem a_keyword_line_yields_the_alias_written_and_the_stripped_rest :
  forall aliases s a n, first_alias aliases s = Some (a, n) ->
  exists l1 l2, aliases = l1 ++ a :: l2 /\ prefixb (a ++ [58%N]) s = true /\ n = strip (skipn (S (length a)) s) /\
                forall b, In b l1 -> prefixb (b ++ [58%N]) s = false.
Proof. exact first_alias_spec. Qed.
Print Assumptions a_keyword_line_yields_the_alias_written_and_the_stripped_rest.

(* line numbers *)
Theorem every_element_carries_the_number_of_its_line :
  forall m a n,
  (exists f, m_feat (build_feature m a n) = Some f /\ f_line f = m_line m /\ f_kw f = a /\ f_name f = n /\ f_tags f = m_tags m) /\
  (forall st m' s, parse_step m s = ROk (Some (st, m')) -> ps_line st = m_line m) /\
  (forall s t, m_table m = None -> a_table_row m s = ROk t -> exists tb, m_table t = Some tb /\ pt_line tb = m_line m /\ pt_head tb = row_cells s) /\
  (forall s ts, tag_words (split_ws s) (m_line m) = Some ts -> Forall (fun tg => snd tg = m_line m) ts).
Proof. exact elements_are_stamped_with_the_current_line. Qed.
Print Assumptions every_element_carries_the_number_of_its_line.

Theorem the_line_counter_counts_every_line :
  forall lines m, match fold_left feed lines (ROk m) with
                  | ROk m' => m_line m' = m_line m + length lines
                  | RErr _ => True
                  end.
Proof. intros lines m. pose proof (fold_feed_spec lines m) as S. destruct (fold_left feed lines (ROk m)); [exact S|exact I]. Qed.
Print Assumptions the_line_counter_counts_every_line.

(* step types *)
Theorem and_but_and_star_steps_inherit_the_type_of_the_preceding_step :
  forall m s rt k text t, step_fact (m_kw m) s = Some (rt, k, text) -> m_last m = Some t ->
  (rt = RAnd \/ rt = RBut \/ starts_with_star k = true) ->
  exists st, parse_step m s = ROk (Some (st, m)) /\ ps_type st = t /\ ps_kw st = rstrip k /\ ps_name st = text.
Proof. exact and_but_star_inherit_the_previous_step_type. Qed.
Print Assumptions and_but_and_star_steps_inherit_the_type_of_the_preceding_step.

Theorem given_when_then_steps_have_the_type_of_their_keyword :
  forall m s k text, starts_with_star k = false \/ m_last m = None ->
  (step_fact (m_kw m) s = Some (RGiven, k, text) -> exists st m', parse_step m s = ROk (Some (st, m')) /\ ps_type st = SGiven /\ m_last m' = Some SGiven) /\
  (step_fact (m_kw m) s = Some (RWhen, k, text) -> exists st m', parse_step m s = ROk (Some (st, m')) /\ ps_type st = SWhen /\ m_last m' = Some SWhen) /\
  (step_fact (m_kw m) s = Some (RThen, k, text) -> exists st m', parse_step m s = ROk (Some (st, m')) /\ ps_type st = SThen /\ m_last m' = Some SThen).
Proof. exact given_when_then_set_the_step_type. Qed.
Print Assumptions given_when_then_steps_have_the_type_of_their_keyword.

(* independence of blank lines, comments and indentation *)
Theorem blank_and_comment_lines_only_advance_the_line_counter :
  (forall m line, strip line = [] -> m_st m <> StMultiline -> feed (ROk m) line = ROk (upd_line m (S (m_line m)))) /\
  (forall m line c r, strip line = c :: r -> c = cp_hash -> m_st m <> StMultiline ->
     (m_st m = StInitial -> m_tags m = [] -> m_variant m = VFeature -> lang_comment (strip line) = None) ->
     feed (ROk m) line = ROk (upd_line m (S (m_line m)))).
Proof. split; [exact blank_lines_are_skipped|exact comment_lines_are_skipped]. Qed.
Print Assumptions blank_and_comment_lines_only_advance_the_line_counter.

Theorem outside_docstrings_only_the_stripped_line_matters :
  forall m line line', m_st m <> StMultiline -> strip line = strip line' -> doc_fact line = doc_fact line' ->
  action m line = action m line'.
Proof. exact indentation_is_irrelevant. Qed.
Print Assumptions outside_docstrings_only_the_stripped_line_matters.

(* doc-strings: the lines between the delimiters are collected without the delimiter's indentation (and without
   trailing blanks), whatever they look like, and stored with the line number of the opening delimiter *)
Theorem docstring_lines_are_collected_verbatim :
  (forall ls m, m_st m = StMultiline -> Forall (doc_line_ok (m_ml_lead m) (m_ml_term m)) ls ->
     exists m', fold_left feed ls (ROk m) = ROk m' /\ m_st m' = StMultiline /\
                m_lines m' = rev (map (fun l => rstrip (skipn (m_ml_lead m) l)) ls) ++ m_lines m /\
                m_ml_lead m' = m_ml_lead m /\ m_ml_term m' = m_ml_term m /\ m_ml_start m' = m_ml_start m /\
                m_line m' = m_line m + length ls) /\
  (forall m line, m_st m = StMultiline -> prefixb (m_ml_term m) (strip line) = true ->
     a_multiline m line =
     ROk (upd_st (upd_ml (set_last_step m (fun st => mkPStep (ps_kw st) (ps_type st) (ps_name st) (ps_line st)
                                                            (Some (join [10%N] (rev (m_lines m)), m_ml_start m)) (ps_table st)))
                         (m_ml_start m) (m_ml_lead m) [] []) StSteps)).
Proof. split; [exact multiline_collects|exact multiline_closes]. Qed.
Print Assumptions docstring_lines_are_collected_verbatim.

(* table rows: cells written with escaped pipes and a blank of padding are read back exactly, empty cells included *)
Theorem table_cells_are_read_back_exactly :
  forall cells, cells <> [] -> forallb cell_ok cells = true -> row_cells (render_row cells) = cells.
Proof. exact row_cells_reads_back_the_cells. Qed.
Print Assumptions table_cells_are_read_back_exactly.

(* At the level of the whole state machine, for features made of a Feature line and plain scenarios (a Scenario line each,
   followed by Given / When / Then step lines; the conditions `feature_line`, `scenario_line`, `step_line` say what such
   a line is in terms of the line-level facts, in any language): the model delivered is exactly that feature, its
   scenarios in file order and their steps in order, with the keyword aliases, names, step types and 1-based line
   numbers of the lines they stand on; no table is left open. *)
Theorem a_feature_of_plain_scenarios_is_parsed_into_exactly_what_was_written :
  forall kw code fline falias fname scens,
  feature_line kw fline falias fname -> Forall (ascen_ok kw) scens ->
  exists m',
    fold_left feed (fline :: flat_map ascen_lines scens) (ROk (init_state code kw VFeature StInitial)) = ROk m' /\
    m_table m' = None /\
    option_map fin_feature (m_feat m') = Some (mkPFeat falias fname 1 [] [] None (expected_scenarios scens 1) code).
Proof. exact a_feature_of_plain_scenarios_is_read_back_exactly. Qed.
Print Assumptions a_feature_of_plain_scenarios_is_parsed_into_exactly_what_was_written.

Theorem a_block_of_step_lines_becomes_exactly_those_steps :
  forall lines m f s rest,
  m_st m = StSteps -> at_feature_scenario m f s rest ->
  Forall (fun x => let '(line, t, k, text) := x in step_line (m_kw m) line t k text) lines ->
  exists m' f' s',
    fold_left feed (map (fun x => fst (fst (fst x))) lines) (ROk m) = ROk m' /\ m_st m' = StSteps /\
    at_feature_scenario m' f' s' rest /\ frame_eq m m' /\ m_line m' = m_line m + length lines /\
    s' = with_steps s (rev (steps_of lines (m_line m)) ++ sc_steps s) /\ f' = with_items f (FScen s' :: rest).
Proof. exact a_block_of_step_lines_is_read_into_exactly_those_steps. Qed.
Print Assumptions a_block_of_step_lines_becomes_exactly_those_steps.

(* with tags: any number of tag lines above each scenario (tl: the line, the tag names on it; a
   trailing comment on a tag line is allowed); every scenario carries exactly the tags written
   above it, in order, each tag with the number of the line it stands on *)
Theorem a_feature_of_tagged_scenarios_is_parsed_into_exactly_what_was_written :
  forall kw code fline falias fname scens,
  feature_line kw fline falias fname -> Forall (tscen_ok kw) scens ->
  exists m',
    fold_left feed (fline :: flat_map tscen_lines scens) (ROk (init_state code kw VFeature StInitial)) = ROk m' /\
    m_table m' = None /\ m_st m' <> StTaggable /\
    option_map fin_feature (m_feat m') = Some (mkPFeat falias fname 1 [] [] None (expected_tagged scens 1) code).
Proof. exact a_feature_of_tagged_scenarios_is_read_back_exactly. Qed.
Print Assumptions a_feature_of_tagged_scenarios_is_parsed_into_exactly_what_was_written.

Example an_english_tag_line_with_two_tags_and_a_comment :
  tag_line english [32; 32; 64; 119; 105; 112; 32; 64; 115; 108; 111; 119; 32; 35; 32; 120]%N [[119; 105; 112]; [115; 108; 111; 119]]%N.
Proof. exact an_english_tag_line. Qed.

(* with tags and step tables, up to and including the end of the text: every step carries the
   table written under it - the heading, the rows in file order with every cell (row_cells: the
   cells of a row line, escaped pipes included) and each row with the number of its line -,
   a table may be followed by a step, a tagged or untagged scenario, or the end of the text *)
Theorem a_feature_with_tags_and_step_tables_is_parsed_into_exactly_what_was_written :
  forall kw code fline falias fname scens,
  feature_line kw fline falias fname -> Forall (rscen_ok kw) scens ->
  exists m',
    finish_table (fold_left feed (fline :: flat_map rscen_lines scens) (ROk (init_state code kw VFeature StInitial))) = ROk m' /\
    m_table m' = None /\
    option_map fin_feature (m_feat m') = Some (mkPFeat falias fname 1 [] [] None (expected_rich scens 1) code).
Proof. exact a_feature_with_tags_and_step_tables_is_read_back_exactly. Qed.
Print Assumptions a_feature_with_tags_and_step_tables_is_parsed_into_exactly_what_was_written.

(* with tags, doc-strings and step tables: a step may carry a doc-string block (its text: the
   lines between the delimiters without the delimiter's indentation and trailing blanks, joined
   by newlines, located at the opening delimiter) and / or a table *)
Theorem a_feature_with_tags_docstrings_and_tables_is_parsed_into_exactly_what_was_written :
  forall kw code fline falias fname scens,
  feature_line kw fline falias fname -> Forall (xscen_ok kw) scens ->
  exists m',
    finish_table (fold_left feed (fline :: flat_map xscen_lines scens) (ROk (init_state code kw VFeature StInitial))) = ROk m' /\
    m_table m' = None /\
    option_map fin_feature (m_feat m') = Some (mkPFeat falias fname 1 [] [] None (expected_x scens 1) code).
Proof. exact a_feature_with_tags_docstrings_and_tables_is_read_back_exactly. Qed.
Print Assumptions a_feature_with_tags_docstrings_and_tables_is_parsed_into_exactly_what_was_written.

(* ... and with description lines under the feature line and under scenario lines *)
Theorem a_feature_with_descriptions_tags_docstrings_and_tables_is_parsed_into_exactly_what_was_written :
  forall kw code fline falias fname fds scens,
  feature_line kw fline falias fname -> Forall (descr_line kw) fds -> Forall (yscen_ok kw) scens ->
  exists m',
    finish_table (fold_left feed (fline :: fds ++ flat_map yscen_lines scens) (ROk (init_state code kw VFeature StInitial))) = ROk m' /\
    m_table m' = None /\
    option_map fin_feature (m_feat m') =
    Some (mkPFeat falias fname 1 [] (map strip fds) None (expected_y scens (1 + length fds)) code).
Proof. exact a_feature_with_descriptions_tags_docstrings_and_tables_is_read_back_exactly. Qed.
Print Assumptions a_feature_with_descriptions_tags_docstrings_and_tables_is_parsed_into_exactly_what_was_written.

(* ... and with the feature's Background (its line and its Given/When/Then steps) in front of the scenarios *)
Theorem a_feature_with_background_is_parsed_into_exactly_what_was_written :
  forall kw code fline falias fname fds bline balias bname bsteps scens,
  feature_line kw fline falias fname -> Forall (descr_line kw) fds ->
  background_line kw bline balias bname -> bsteps <> [] ->
  Forall (fun x => let '(line, t, k, text) := x in step_line kw line t k text) bsteps ->
  Forall (yscen_ok kw) scens ->
  let lb := 1 + length fds in
  exists m',
    finish_table (fold_left feed (fline :: fds ++ bline :: map (fun x => fst (fst (fst x))) bsteps ++ flat_map yscen_lines scens)
                            (ROk (init_state code kw VFeature StInitial))) = ROk m' /\
    m_table m' = None /\
    option_map fin_feature (m_feat m') =
    Some (mkPFeat falias fname 1 [] (map strip fds)
                  (Some (mkPBg balias bname (S lb) (steps_of bsteps (S lb)) []))
                  (expected_y scens (S lb + length bsteps)) code).
Proof. exact a_feature_with_background_is_read_back_exactly. Qed.
Print Assumptions a_feature_with_background_is_parsed_into_exactly_what_was_written.

(* ... and with Scenario Outlines among the items: an outline's tags, description and steps as for a
   scenario, then its Examples blocks in file order - each with the tags written above it, its
   keyword, name and line, and its table (heading, rows in order with their cells and lines; a block
   without rows has no table); any item may follow an Examples block, also the end of the text *)
Theorem a_feature_with_outlines_is_parsed_into_exactly_what_was_written :
  forall kw code fline falias fname fds its,
  feature_line kw fline falias fname -> Forall (descr_line kw) fds -> Forall (item_ok kw) its ->
  exists m',
    finish_table (fold_left feed (fline :: fds ++ flat_map item_lines its) (ROk (init_state code kw VFeature StInitial))) = ROk m' /\
    m_table m' = None /\
    option_map fin_feature (m_feat m') =
    Some (mkPFeat falias fname 1 [] (map strip fds) None (expected_items its (1 + length fds)) code).
Proof. exact a_feature_with_outlines_is_read_back_exactly. Qed.
Print Assumptions a_feature_with_outlines_is_parsed_into_exactly_what_was_written.

(* Inside a Rule the machine does what it does inside a feature: while a Rule is being read, the state is the image
   (unzoom) of a state in which the rule's content sits directly in a feature with the same Background - the rule's name,
   tags, description and scenarios being that feature's, later Rules being its Rules - and feeding any lines that are no
   Background lines commutes with that image, the zoomed states staying well shaped *)
Theorem inside_a_rule_the_machine_does_what_it_does_inside_a_feature :
  forall z lines m m',
  zinv z m -> Forall (nobg (m_kw m)) lines -> fold_left feed lines (ROk m) = ROk m' ->
  fold_left feed lines (ROk (unzoom z m)) = ROk (unzoom z m') /\ zinv z m'.
Proof. exact run_unzoom. Qed.
Print Assumptions inside_a_rule_the_machine_does_what_it_does_inside_a_feature.

(* ... and with Rules after the feature-level items: each Rule with the tags written above it, its keyword, name and
   line, its description and its own scenarios and outlines (tags, descriptions, steps with doc-strings and tables,
   Examples blocks), in file order; a Rule line also closes a pending step table or Examples table *)
Theorem a_feature_with_rules_is_parsed_into_exactly_what_was_written :
  forall kw code fline falias fname fds its rules,
  feature_line kw fline falias fname -> Forall (descr_line kw) fds -> Forall (item_ok kw) its -> Forall (arule_ok kw) rules ->
  exists m',
    finish_table (fold_left feed (fline :: fds ++ flat_map item_lines its ++ flat_map arule_lines rules)
                            (ROk (init_state code kw VFeature StInitial))) = ROk m' /\
    m_table m' = None /\
    option_map fin_feature (m_feat m') =
    Some (mkPFeat falias fname 1 [] (map strip fds) None
                  (expected_items its (1 + length fds) ++
                   expected_rules rules (1 + length fds + length (flat_map item_lines its))) code).
Proof. exact a_feature_with_rules_is_read_back_exactly. Qed.
Print Assumptions a_feature_with_rules_is_parsed_into_exactly_what_was_written.

(* ... with a Background (with steps) in front of scenarios *and* outlines *)
Theorem a_feature_with_background_and_outlines_is_parsed_into_exactly_what_was_written :
  forall kw code fline falias fname fds bline balias bname bsteps its,
  feature_line kw fline falias fname -> Forall (descr_line kw) fds ->
  background_line kw bline balias bname -> bsteps <> [] ->
  Forall (fun x => let '(line, t, k, text) := x in step_line kw line t k text) bsteps ->
  Forall (item_ok kw) its ->
  let lb := 1 + length fds in
  exists m',
    finish_table (fold_left feed (fline :: fds ++ bline :: map (fun x => fst (fst (fst x))) bsteps ++ flat_map item_lines its)
                            (ROk (init_state code kw VFeature StInitial))) = ROk m' /\
    m_table m' = None /\
    option_map fin_feature (m_feat m') =
    Some (mkPFeat falias fname 1 [] (map strip fds)
                  (Some (mkPBg balias bname (S lb) (steps_of bsteps (S lb)) []))
                  (expected_items its (S lb + length bsteps)) code).
Proof. exact a_feature_with_background_and_outlines_is_read_back_exactly. Qed.
Print Assumptions a_feature_with_background_and_outlines_is_parsed_into_exactly_what_was_written.

(* ... and the whole shape: description, Background, the feature's scenarios and outlines, then Rules (which inherit the
   Background and have none of their own) *)
Theorem a_feature_with_background_items_and_rules_is_parsed_into_exactly_what_was_written :
  forall kw code fline falias fname fds bline balias bname bsteps its rules,
  feature_line kw fline falias fname -> Forall (descr_line kw) fds ->
  background_line kw bline balias bname -> bsteps <> [] ->
  Forall (fun x => let '(line, t, k, text) := x in step_line kw line t k text) bsteps ->
  Forall (item_ok kw) its -> Forall (arule_ok kw) rules ->
  let lb := 1 + length fds in
  exists m',
    finish_table (fold_left feed (fline :: fds ++ bline :: map (fun x => fst (fst (fst x))) bsteps ++
                                  flat_map item_lines its ++ flat_map arule_lines rules)
                            (ROk (init_state code kw VFeature StInitial))) = ROk m' /\
    m_table m' = None /\
    option_map fin_feature (m_feat m') =
    Some (mkPFeat falias fname 1 [] (map strip fds)
                  (Some (mkPBg balias bname (S lb) (steps_of bsteps (S lb)) []))
                  (expected_items its (S lb + length bsteps) ++
                   expected_rules rules (S lb + length bsteps + length (flat_map item_lines its))) code).
Proof. exact a_feature_with_background_items_and_rules_is_read_back_exactly. Qed.
Print Assumptions a_feature_with_background_items_and_rules_is_parsed_into_exactly_what_was_written.

(* non-vacuity: a whole English feature with a feature-level scenario and a tagged Rule meets the hypotheses *)
Example a_whole_english_feature_with_a_rule_meets_the_hypotheses :
  let fline := [70; 101; 97; 116; 117; 114; 101; 58; 32; 70]%N in
  let its := [IScen ([], ([32; 32; 83; 99; 101; 110; 97; 114; 105; 111; 58; 32; 65]%N, [83; 99; 101; 110; 97; 114; 105; 111]%N, [65]%N), [],
                     [([32; 32; 32; 32; 71; 105; 118; 101; 110; 32; 97; 32; 117; 115; 101; 114]%N, SGiven, [71; 105; 118; 101; 110; 32]%N, [97; 32; 117; 115; 101; 114]%N, None, [])])] in
  let rules := [([([32; 32; 64; 114]%N, [[114]%N])], ([32; 32; 82; 117; 108; 101; 58; 32; 82]%N, [82; 117; 108; 101]%N, [82]%N), [[32; 32; 32; 32; 97; 98; 111; 117; 116; 32; 116; 104; 101; 32; 114; 117; 108; 101]%N],
                 [IScen ([], ([32; 32; 32; 32; 83; 99; 101; 110; 97; 114; 105; 111; 58; 32; 66]%N, [83; 99; 101; 110; 97; 114; 105; 111]%N, [66]%N), [],
                         [([32; 32; 32; 32; 32; 32; 84; 104; 101; 110; 32; 120]%N, SThen, [84; 104; 101; 110; 32]%N, [120]%N, None, [])])])] in
  feature_line english fline [70; 101; 97; 116; 117; 114; 101]%N [70]%N /\ Forall (item_ok english) its /\ Forall (arule_ok english) rules.
Proof. exact an_english_feature_with_a_rule. Qed.

(* non-vacuity: an English Rule line; an ordinary step line is no Background line *)
Example an_english_rule_line :
  rule_line english [32; 32; 82; 117; 108; 101; 58; 32; 82]%N [82; 117; 108; 101]%N [82%N] /\
  nobg english [32; 32; 32; 32; 71; 105; 118; 101; 110; 32; 97; 32; 117; 115; 101; 114]%N.
Proof. split; [split; try (vm_compute; congruence); vm_compute; reflexivity|vm_compute; reflexivity]. Qed.

(* non-vacuity: a German document with header, tags over two lines with a comment, a background, an outline with examples,
   a doc-string and a table with an escaped pipe, indentation, blank and comment lines *)
Example a_german_document :
  let nl := fun (ls : list (list N)) => concat (map (fun l => l ++ [10%N]) ls) in
  let text := nl [
    [35; 32; 108; 97; 110; 103; 117; 97; 103; 101; 58; 32; 100; 101]%N;                                   (* # language: de *)
    [64; 97; 32; 64; 98; 32; 35; 32; 99]%N;                                                                 (* @a @b # c *)
    [70; 117; 110; 107; 116; 105; 111; 110; 97; 108; 105; 116; 228; 116; 58; 32; 70]%N;                     (* Funktionalität: F *)
    []%N;
    [32; 32; 71; 114; 117; 110; 100; 108; 97; 103; 101; 58]%N;                                             (*   Grundlage: *)
    [32; 32; 32; 32; 65; 110; 103; 101; 110; 111; 109; 109; 101; 110; 32; 103]%N;                           (*     Angenommen g *)
    [32; 32; 35; 32; 99]%N;                                                                                 (*   # c *)
    [32; 32; 83; 122; 101; 110; 97; 114; 105; 111; 58; 32; 83]%N;                                           (*   Szenario: S *)
    [9; 85; 110; 100; 32; 117]%N;                                                                           (* \tUnd u *)
    [32; 32; 32; 32; 34; 34; 34]%N;                                                                         (*     three double quotes *)
    [32; 32; 32; 32; 32; 100; 111; 99]%N;                                                                   (*      doc *)
    [32; 32; 32; 32; 34; 34; 34]%N;
    [32; 32; 68; 97; 110; 110; 32; 116]%N;                                                                  (*   Dann t *)
    [32; 124; 32; 97; 92; 124; 98; 32; 124; 32; 124]%N                                                      (*  | a\|b | | *)
  ] in
  match parse EFeature None text with
  | Some (ROk (PFeature (Some f))) =>
      f_line f = 3 /\ f_tags f = [([97%N], 2); ([98%N], 2)] /\ f_lang f = [100; 101]%N /\
      option_map (fun b => (bg_line b, map ps_line (bg_steps b))) (f_bg f) = Some (5, [6]) /\
      map (fun i => match i with
                    | FScen s => (sc_line s, map (fun st => (ps_line st, ps_type st, ps_text st, option_map pt_head (ps_table st))) (sc_steps s))
                    | FRule _ => (0, []) end) (f_items f) =
        [(8, [(9, SGiven, Some ([32; 100; 111; 99]%N, 10), None); (13, SThen, None, Some [[97; 124; 98]%N; []])])]
  | _ => False
  end.
Proof. vm_compute. repeat split; reflexivity. Qed.
