(* C07 — Tag expressions (v2) mean their Boolean formula; printing preserves meaning. *)
From BV Require Import Base UStr TagExpr TagExprProofs TagExprParseProofs.

Theorem and_or_not_are_the_boolean_connectives :
  forall a b tags,
    xeval (XAnd a b) tags = xeval a tags && xeval b tags /\
    xeval (XOr a b) tags = xeval a tags || xeval b tags /\
    xeval (XNot a) tags = negb (xeval a tags).
Proof. exact (fun a b tags => conj (xeval_and a b tags) (conj (xeval_or a b tags) (xeval_not a tags))). Qed.
Print Assumptions and_or_not_are_the_boolean_connectives.

Theorem literal_operand_is_membership : forall n tags, xeval (XLit n) tags = true <-> In n tags.
Proof. exact xeval_lit. Qed.
Print Assumptions literal_operand_is_membership.

Theorem wildcard_operand_is_true_iff_some_tag_matches :
  forall p tags, xeval (XMat p) tags = true <-> exists t, In t tags /\ glob_match p t = true.
Proof. exact xeval_mat. Qed.
Print Assumptions wildcard_operand_is_true_iff_some_tag_matches.

Theorem empty_expression_selects_everything :
  forall tags, exists e, parse_v2 [] = POk e /\ xeval e tags = true.
Proof. exact empty_text_selects_everything. Qed.
Print Assumptions empty_expression_selects_everything.

Theorem blank_text_has_no_tokens : forall n, tokenize (repeat cSP n) = Some [].
Proof. exact blanks_tokenize_to_nothing. Qed.
Print Assumptions blank_text_has_no_tokens.

(* non-vacuity: parsing with precedence, wildcards, escapes; printing and re-parsing *)
(* The parser reads back what the printer writes: for every expression built from operands that are no keywords
   (literals without, matchers with wildcard characters, names non-empty), printing it (Expression.__str__: operands
   escaped, binary operators parenthesised), tokenizing that text and running the shunting-yard loop on the tokens
   yields the very same expression.  (normalize_v2 - removing '@' and collapsing one double blank - is the identity on
   printed texts whose names contain no '@'; that step is covered by the correspondence suite.) *)
Theorem printing_then_parsing_gives_the_expression_back :
  forall e, wf e = true -> named e = true ->
  match tokenize (to_str e) with Some t => parse_tokens t | None => PErr ErrEscape end = POk e.
Proof. exact print_then_parse_is_the_identity. Qed.
Print Assumptions printing_then_parsing_gives_the_expression_back.

Theorem the_tokenizer_reads_the_printed_text_back_into_its_tokens :
  forall e, named e = true -> tokenize (to_str e) = Some (toks e).
Proof.
  intros e N. unfold tokenize. destruct (tokenizer_reads e N) as [_ T]. rewrite T. now rewrite app_nil_r, rev_involutive.
Qed.
Print Assumptions the_tokenizer_reads_the_printed_text_back_into_its_tokens.

Theorem the_shunting_yard_loop_rebuilds_the_expression_from_its_tokens :
  forall e, wf e = true -> parse_tokens (toks e) = POk e.
Proof. exact parse_reads_back_what_print_writes. Qed.
Print Assumptions the_shunting_yard_loop_rebuilds_the_expression_from_its_tokens.

Example parse_print_parse :
  let s (l : list N) := l in
  let txt := (* a or not b and c* *) [97; 32; 111; 114; 32; 110; 111; 116; 32; 98; 32; 97; 110; 100; 32; 99; 42]%N in
  match parse_v2 txt with
  | POk e => e = XOr (XLit [97%N]) (XAnd (XNot (XLit [98%N])) (XMat [99; 42]%N)) /\ parse_v2 (to_str e) = POk e
             /\ parse_v2 (to_string_pretty e) = POk e
  | PErr _ => False
  end.
Proof. vm_compute. repeat split. Qed.
