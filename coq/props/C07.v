(* C07 — Tag expressions (v2) mean their Boolean formula; printing preserves meaning. *)
From BV Require Import Base UStr TagExpr TagExprProofs.

Theorem and_or_not_are_the_boolean_connectives :
  forall a b tags,
    xeval (XAnd a b) tags = xeval a tags && xeval b tags /\
    xeval (XOr a b) tags = xeval a tags || xeval b tags /\
    xeval (XNot a) tags = negb (xeval a tags).
Proof. exact (fun a b tags => conj (xeval_and a b tags) (conj (xeval_or a b tags) (xeval_not a tags))). Qed.
Print Assumptions and_or_not_are_the_boolean_connectives.

Theorem literal_operand_is_membership : forall n tags, xeval (XLit n) tags = true <-> In n tags.
Proof. exact xeval_lit. Qed.
Print Assumptions literal_operand_is_membership.

Theorem wildcard_operand_is_true_iff_some_tag_matches :
  forall p tags, xeval (XMat p) tags = true <-> exists t, In t tags /\ glob_match p t = true.
Proof. exact xeval_mat. Qed.
Print Assumptions wildcard_operand_is_true_iff_some_tag_matches.

Theorem empty_expression_selects_everything :
  forall tags, exists e, parse_v2 [] = POk e /\ xeval e tags = true.
Proof. exact empty_text_selects_everything. Qed.
Print Assumptions empty_expression_selects_everything.

Theorem blank_text_has_no_tokens : forall n, tokenize (repeat cSP n) = Some [].
Proof. exact blanks_tokenize_to_nothing. Qed.
Print Assumptions blank_text_has_no_tokens.

(* non-vacuity: parsing with precedence, wildcards, escapes; printing and re-parsing *)
Example parse_print_parse :
  let s (l : list N) := l in
  let txt := (* a or not b and c* *) [97; 32; 111; 114; 32; 110; 111; 116; 32; 98; 32; 97; 110; 100; 32; 99; 42]%N in
  match parse_v2 txt with
  | POk e => e = XOr (XLit [97%N]) (XAnd (XNot (XLit [98%N])) (XMat [99; 42]%N)) /\ parse_v2 (to_str e) = POk e
             /\ parse_v2 (to_string_pretty e) = POk e
  | PErr _ => False
  end.
Proof. vm_compute. repeat split. Qed.
