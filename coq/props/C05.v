(* C05 — Parser error discipline: only ParserError, with a usable line number.
   Statements only; proofs are in theories/GherkinProofs.v. *)
From BV Require Import Base UStr GherkinTypes Gherkin GherkinProofs.

(* For any text whatsoever and every entry point: parsing (a total function) returns a model, or the parser's own
   error whose line number is the number of a line of the text. *)
Theorem parsing_yields_a_model_or_an_error_inside_the_text :
  forall e lang text r, parse e lang text = Some r ->
  (exists p, r = ROk p) \/ (exists l, r = RErr l /\ 1 <= l <= length (splitlines text)).
Proof. exact parse_total_with_usable_error_line. Qed.
Print Assumptions parsing_yields_a_model_or_an_error_inside_the_text.

(* the error is reported at the first line the machine rejects; all lines before it were accepted *)
Theorem an_error_is_reported_at_the_first_rejected_line :
  forall m0 text l, m_line m0 = 0 -> parse_loop m0 text = RErr l ->
  exists pre line post mp,
    splitlines text = pre ++ line :: post /\ l = length pre + 1 /\
    fold_left feed pre (ROk m0) = ROk mp /\ feed (ROk mp) line = RErr l.
Proof. exact error_is_at_the_first_rejected_line. Qed.
Print Assumptions an_error_is_reported_at_the_first_rejected_line.

(* every action keeps the line counter and raises errors at the line it is working on *)
Theorem every_action_reports_its_own_line :
  forall m line, match action m line with ROk m' => m_line m' = m_line m | RErr l => l = m_line m end.
Proof. exact action_good. Qed.
Print Assumptions every_action_reports_its_own_line.

(* the catalogued faults are rejected where they are faults *)
Theorem text_or_a_second_feature_after_steps_is_rejected :
  forall m line, doc_fact line = None -> step_fact (m_kw m) (strip line) = None -> sub_taggable m (strip line) = ROk None ->
  starts_pipe (strip line) = false -> a_steps m line = RErr (m_line m).
Proof. exact steps_reject_other_lines. Qed.
Print Assumptions text_or_a_second_feature_after_steps_is_rejected.

Theorem examples_outside_a_scenario_outline_are_rejected :
  (forall m s a n, get_stmt m = Some (VScen s) -> sc_outline s = false -> build_examples m a n = RErr (m_line m)) /\
  (forall m a n, (forall s, get_stmt m <> Some (VScen s)) -> build_examples m a n = RErr (m_line m)).
Proof. split; [exact examples_outside_an_outline_are_rejected|exact examples_without_statement_are_rejected]. Qed.
Print Assumptions examples_outside_a_scenario_outline_are_rejected.

Theorem and_but_without_any_preceding_step_is_rejected :
  forall m s k text rt, step_fact (m_kw m) s = Some (rt, k, text) -> (rt = RAnd \/ rt = RBut) -> starts_with_star k = false ->
  m_last m = None -> last_bg_type m = None -> parse_step m s = RErr (m_line m).
Proof. exact and_but_without_a_previous_step_is_rejected. Qed.
Print Assumptions and_but_without_any_preceding_step_is_rejected.

Theorem a_table_row_with_the_wrong_number_of_cells_is_rejected :
  forall m s t, m_table m = Some t -> Nat.eqb (length (row_cells s)) (length (pt_head t)) = false -> a_table_row m s = RErr (m_line m).
Proof. exact a_ragged_table_row_is_rejected. Qed.
Print Assumptions a_table_row_with_the_wrong_number_of_cells_is_rejected.

Theorem a_malformed_tag_token_is_rejected :
  (forall m s, starts_at s = true -> tag_words (split_ws s) (m_line m) = None -> sub_taggable m s = RErr (m_line m)) /\
  (forall w rest line, (match w with 64%N :: _ => False | 35%N :: _ => False | _ => True end) -> tag_words (w :: rest) line = None).
Proof. split; [exact a_malformed_tag_line_is_rejected|exact a_word_that_is_no_tag_spoils_the_line]. Qed.
Print Assumptions a_malformed_tag_token_is_rejected.

(* non-vacuity: a fault in the middle of a document, an unknown language header, a document that parses *)
Example errors_and_a_model :
  let t := fun (s : list (list N)) => concat (map (fun l => l ++ [10%N]) s) in
  let feature := [70; 101; 97; 116; 117; 114; 101; 58; 32; 70]%N in
  let scenario := [32; 32; 83; 99; 101; 110; 97; 114; 105; 111; 58; 32; 83]%N in
  let given := [32; 32; 32; 32; 71; 105; 118; 101; 110; 32; 97]%N in
  let text_line := [32; 32; 115; 111; 109; 101; 32; 116; 101; 120; 116]%N in
  let unknown_lang := [35; 32; 108; 97; 110; 103; 117; 97; 103; 101; 58; 32; 122; 122]%N in
  parse EFeature None (t [feature; scenario; given; text_line; given]) = Some (RErr 4) /\
  parse EFeature None (t [unknown_lang; feature]) = Some (RErr 1) /\
  parse ESteps None (t [given; [32; 32; 124; 97; 124; 98; 124]%N; [32; 32; 124; 49; 124]%N]) = Some (RErr 3) /\
  match parse EFeature None (t [feature; scenario; given]) with
  | Some (ROk (PFeature (Some f))) => map (fun i => match i with FScen s => (sc_line s, map ps_line (sc_steps s)) | FRule _ => (0, []) end) (f_items f) = [(2, [3])]
  | _ => False
  end.
Proof. vm_compute. repeat split; reflexivity. Qed.
