(* C08 — v1 tag expressions keep their meaning; dialect auto-detection never misreads. *)
From BV Require Import Base UStr TagExpr TagExprProofs.

(* separate arguments are AND-ed, comma-separated alternatives OR-ed *)
Theorem v1_check_is_and_of_ors :
  forall ands tags, v1_check ands tags = forallb (fun ors => existsb (v1_test tags) ors) ands.
Proof. exact v1_check_is_cnf. Qed.
Print Assumptions v1_check_is_and_of_ors.

Theorem leading_dash_negates : forall tags t, v1_test tags (cDASH :: t) = negb (mem_tag t tags).
Proof. exact v1_test_negated. Qed.
Print Assumptions leading_dash_negates.

Theorem other_tags_test_membership :
  forall tags c t, N.eqb c cDASH = false -> v1_test tags (c :: t) = mem_tag (c :: t) tags.
Proof. exact v1_test_positive. Qed.
Print Assumptions other_tags_test_membership.

(* t and @t mean the tag; -t, ~t, -@t and ~@t all mean its negation *)
Theorem every_spelling_normalizes_alike :
  forall c t,
    plain_start c = true -> strip (c :: t) = c :: t ->
    strip (cAT :: c :: t) = cAT :: c :: t -> strip (cDASH :: c :: t) = cDASH :: c :: t ->
    strip (cTILDE :: c :: t) = cTILDE :: c :: t ->
    strip (cDASH :: cAT :: c :: t) = cDASH :: cAT :: c :: t -> strip (cTILDE :: cAT :: c :: t) = cTILDE :: cAT :: c :: t ->
    normalize_tag_v1 (c :: t) = c :: t /\
    normalize_tag_v1 (cAT :: c :: t) = c :: t /\
    normalize_tag_v1 (cDASH :: c :: t) = cDASH :: c :: t /\
    normalize_tag_v1 (cTILDE :: c :: t) = cDASH :: c :: t /\
    normalize_tag_v1 (cDASH :: cAT :: c :: t) = cDASH :: c :: t /\
    normalize_tag_v1 (cTILDE :: cAT :: c :: t) = cDASH :: c :: t.
Proof. exact normalize_spellings. Qed.
Print Assumptions every_spelling_normalizes_alike.

Theorem an_empty_alternative_is_not_a_negation :
  forall t tags, strip t = [] -> ~ In [] tags -> v1_test tags (normalize_tag_v1 t) = false.
Proof. exact empty_alternative_never_holds. Qed.
Print Assumptions an_empty_alternative_is_not_a_negation.

Example a_trailing_comma_adds_nothing :
  (match v1_groups [[97; 44]%N] with Some g => map (v1_check g) [[[97]%N]; [[98]%N]; []] | None => [] end) = [true; false; false]
  /\ (match v1_groups [[97; 44; 98]%N; []] with Some g => map (v1_check g) [[[97]%N]; [[98]%N]; []] | None => [] end) = [false; false; false].
Proof. vm_compute. split; reflexivity. Qed.

(* auto detection *)
Theorem mixed_text_is_rejected :
  forall text, has_v1_prefix (words_of text) = true -> has_v2_keyword (words_of text) = true ->
    select_auto text = DMixed.
Proof. exact mixed_is_rejected. Qed.
Print Assumptions mixed_text_is_rejected.

Theorem pure_new_style_is_read_as_v2 :
  forall text, has_v2_keyword (words_of text) = true -> has_v1_prefix (words_of text) = false ->
    select_auto text = DV2.
Proof. exact pure_v2_detected. Qed.
Print Assumptions pure_new_style_is_read_as_v2.

Theorem pure_old_style_is_read_as_v1 :
  forall text, has_v2_keyword (words_of text) = false ->
    has_comma (words_of text) || has_v1_prefix (words_of text) || Nat.ltb 1 (length (words_of text)) = true ->
    select_auto text = DV1.
Proof. exact pure_v1_detected. Qed.
Print Assumptions pure_old_style_is_read_as_v1.

(* only the exact lower-case operator words, a parenthesis or a wildcard are new-style keywords; a text whose words merely
   resemble them (OR, And, NOT, order) and that has a comma, a negation prefix or several words is read in the old dialect *)
Theorem words_that_only_resemble_operators_are_tags :
  forall text, (forall w, In w (words_of text) -> ordinary_word w) ->
    has_comma (words_of text) || has_v1_prefix (words_of text) || Nat.ltb 1 (length (words_of text)) = true ->
    select_auto text = DV1.
Proof. exact ordinary_words_read_as_v1. Qed.
Print Assumptions words_that_only_resemble_operators_are_tags.

(* the known finding, as a machine-checked witness: one positive word with a limit goes to v2 *)
Example single_word_with_limit_goes_to_v2 :
  select_auto [64; 102; 111; 111; 58; 51]%N = DV2 /\
  (match parse_v2 [64; 102; 111; 111; 58; 51]%N with POk e => xeval e [[102; 111; 111]%N] | PErr _ => true end) = false.
Proof. vm_compute. split; reflexivity. Qed.

Example prefix_directly_behind_a_parenthesis_is_seen :
  select_auto [40; 45; 97; 32; 111; 114; 32; 98; 41]%N = DMixed.    (* "(-a or b)" *)
Proof. vm_compute. reflexivity. Qed.

Example operator_words_in_upper_case_are_tags :
  select_auto [97; 44; 102; 111; 111; 32; 79; 82]%N = DV1          (* "a,foo OR" *)
  /\ select_auto [97; 32; 65; 110; 100; 32; 98]%N = DV1            (* "a And b" *)
  /\ select_auto [97; 32; 97; 110; 100; 32; 98]%N = DV2.           (* "a and b" *)
Proof. vm_compute. repeat split; reflexivity. Qed.
