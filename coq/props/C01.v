From BV Require Import Base Status Rollup Runner.
