(* C01 — Run verdict: no false green, no false red.  Statements only. *)
From BV Require Import Base Status Rollup Runner RunnerVerdict RunnerSteps RunnerQuiet RunnerEq.
From BVGen Require Import StatusTable.

(* "something went wrong": a step call that fails an assertion, raises, is interrupted or is
   pending outside @wip; an undefined step; a raising hook; a raising cleanup; an abort. *)
Theorem verdict_iff_bad_event :
  forall cfg fs rs verdict ab evs,
    run_model cfg fs = (rs, verdict, ab, evs) ->
    verdict = existsb bad evs.
Proof. exact verdict_iff_bad. Qed.
Print Assumptions verdict_iff_bad_event.

Theorem all_pass_is_green :
  forall cfg fs rs verdict ab evs,
    run_model cfg fs = (rs, verdict, ab, evs) ->
    existsb bad evs = false -> verdict = false.
Proof. exact (fun cfg fs rs v ab evs H Hb => eq_trans (verdict_iff_bad cfg fs rs v ab evs H) Hb). Qed.
Print Assumptions all_pass_is_green.

Theorem something_wrong_is_red :
  forall cfg fs rs verdict ab evs e,
    run_model cfg fs = (rs, verdict, ab, evs) ->
    In e evs -> bad e = true -> verdict = true.
Proof.
  exact (fun cfg fs rs v ab evs e H Hin Hb =>
           eq_trans (verdict_iff_bad cfg fs rs v ab evs H)
                    (proj2 (existsb_exists bad evs) (ex_intro _ e (conj Hin Hb)))).
Qed.
Print Assumptions something_wrong_is_red.

(* "the run is aborted" includes a hook (at any level, after_all included) or a cleanup-free passing run in which a
   hook calls context.abort() without raising: the event EAbort is bad, so the run is red *)
Theorem a_hook_that_aborts_the_run_makes_it_red :
  forall cfg fs rs verdict ab evs h k,
    run_model cfg fs = (rs, verdict, ab, evs) -> In (EAbort h k) evs -> verdict = true.
Proof.
  exact (fun cfg fs rs v ab evs h k H Hin =>
           eq_trans (verdict_iff_bad cfg fs rs v ab evs H)
                    (proj2 (existsb_exists bad evs) (ex_intro _ (EAbort h k) (conj Hin eq_refl)))).
Qed.
Print Assumptions a_hook_that_aborts_the_run_makes_it_red.

(* a de-selected scenario contributes no event besides its announcement, and cannot fail *)
Theorem deselected_scenario_cannot_fail :
  forall cfg st id all_steps oe eff own,
    sel cfg eff = false ->
    exists res ev,
      run_scenario cfg st id all_steps oe eff own = (st, res, false, ev) /\
      existsb bad ev = false.
Proof. exact run_scenario_unselected_no_bad. Qed.
Print Assumptions deselected_scenario_cannot_fail.

(* the segment lemma behind the theorem, for every level of the tree *)
Theorem feature_failed_iff :
  forall cfg st f st' res fld ev,
    run_feature cfg st f = (st', res, fld, ev) ->
    (fld = true -> existsb lbad ev || existsb gbad ev = true) /\
    (existsb lbad ev = true -> fld = true) /\
    aborted st' = aborted st || existsb abort_ev ev.
Proof. exact run_feature_ok. Qed.
Print Assumptions feature_failed_iff.

(* non-vacuity: concrete programs on both sides of the equivalence *)
Definition ex_cfg : cfgdata :=
  mkCfgData false false true TTrue [HBeforeAll; HAfterScenario] [] [] 99 false None [].
Definition ex_feature (k : skind) : feature :=
  mkFeature 1 [] None [FItem (SScen (mkScen 2 [] [mkStep KPass 1; mkStep k 2; mkStep KPass 3]))].

Example red_run : snd (fst (fst (run_case (ex_cfg, [ex_feature KFail])))) = true.
Proof. vm_compute. reflexivity. Qed.
Example green_run : snd (fst (fst (run_case (ex_cfg, [ex_feature KPass])))) = false.
Proof. vm_compute. reflexivity. Qed.
Example abort_only_run : snd (fst (fst (run_case (ex_cfg, [ex_feature KAbort])))) = true.
Proof. vm_compute. reflexivity. Qed.

(* every step passes, nothing raises; the after_all hook (or a scenario-level hook) calls context.abort(): red *)
Example aborted_at_the_very_end_is_red :
  let cfg h k := mkCfgData false false true TTrue [HBeforeAll; HAfterAll; HAfterScenario] [] [] 99 false None [(h, k)] in
  snd (fst (fst (run_case (cfg HAfterAll 0, [ex_feature KPass])))) = true /\
  snd (fst (fst (run_case (cfg HAfterScenario 2, [ex_feature KPass])))) = true /\
  snd (fst (fst (run_case (cfg HAfterScenario 7, [ex_feature KPass])))) = false.
Proof. vm_compute. repeat split. Qed.
