(* C19 — Active tags exclude exactly by the documented per-category logic. *)
From BV Require Import Base UStr ActiveTag ActiveTagProofs TableFacts.
From BVGen Require Import ActiveTagTables.

(* the code's grouped loop = the documented formula: excluded iff for some category known to the
   provider the element has positive tags none of which matches the current value, or one of
   its negative tags matches it *)
Theorem exclude_iff_documented_formula :
  forall get tags, should_exclude get tags = excluded_by_formula get tags.
Proof. exact should_exclude_is_the_documented_formula. Qed.
Print Assumptions exclude_iff_documented_formula.

Theorem unknown_category_never_excludes :
  forall get tags, (forall a, In a (active_tags tags) -> get (at_cat a) = None) -> should_exclude get tags = false.
Proof. exact unknown_categories_never_exclude. Qed.
Print Assumptions unknown_category_never_excludes.

Theorem tags_that_are_not_active_tags_never_exclude :
  forall get tags, (forall t, In t tags -> recognise t = None) -> should_exclude get tags = false.
Proof. exact ordinary_tags_never_exclude. Qed.
Print Assumptions tags_that_are_not_active_tags_never_exclude.

Theorem malformed_numeric_value_counts_as_mismatch :
  forall n op s, parse_int s = None -> value_matches (VNum n op) s = false.
Proof. exact malformed_number_never_matches. Qed.
Print Assumptions malformed_numeric_value_counts_as_mismatch.

Theorem malformed_boolean_value_counts_as_mismatch :
  forall b s, parse_bool s = None -> value_matches (VBool b) s = false.
Proof. exact malformed_bool_never_matches. Qed.
Print Assumptions malformed_boolean_value_counts_as_mismatch.

Theorem composite_matcher_excludes_iff_a_member_does :
  forall gets tags, composite_exclude gets tags = true <-> exists g, In g gets /\ should_exclude g tags = true.
Proof. exact composite_excludes_iff_any. Qed.
Print Assumptions composite_matcher_excludes_iff_a_member_does.

Example schema_and_logic :
  let os := [111; 115]%N in let a := [97]%N in let b := [98]%N in
  let tag (p : list N) (v : list N) := p ++ [46; 119; 105; 116; 104; 95]%N ++ os ++ [61]%N ++ v in
  let use := [117; 115; 101]%N in let not_ := [110; 111; 116]%N in let not_active := [110; 111; 116; 95; 97; 99; 116; 105; 118; 101]%N in
  let get c := pget [(os, VStr a)] c in
  should_exclude get [tag use a] = false /\ should_exclude get [tag use b] = true /\
  should_exclude get [tag use b; tag use a] = false /\ should_exclude get [tag not_ a] = true /\
  should_exclude get [tag not_active b] = false /\ should_exclude (pget []) [tag use b] = false.
Proof. vm_compute. repeat split. Qed.

(* the tag schema the statement names, decided on the tables generated from tag_matcher.py (TableFacts.v spells the
   words: use / not / active / not_active / only, separator '=', unknown categories ignored; on true yes / false no off) *)
Theorem the_active_tag_schema_is_the_documented_one :
  at_prefixes = doc_prefixes /\     (* use not active not_active only *)
  at_negated = [false; true; false; true; false] /\ at_separator = doc_separator /\ at_ignore_unknown = true.
Proof. exact active_tag_schema_is_the_documented_one. Qed.
Print Assumptions the_active_tag_schema_is_the_documented_one.

Theorem the_boolean_words_are_the_documented_ones :
  bool_true_strings = doc_true_words /\ bool_false_strings = doc_false_words.     (* on true yes / false no off *)
Proof. exact boolean_words_are_the_documented_ones. Qed.
Print Assumptions the_boolean_words_are_the_documented_ones.
