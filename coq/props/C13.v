(* C13 — Context scoping and cleanups: layered visibility, LIFO exactly-once cleanup. *)
From BV Require Import Base Status Rollup Runner RunnerCleanup Context ContextProofs.
From Coq Require Import Permutation.

Theorem attribute_visible_after_set :
  forall st k v, st <> [] -> cget (set_top st k v) k = Some v.
Proof. exact get_after_set_top. Qed.
Print Assumptions attribute_visible_after_set.

Theorem set_does_not_touch_other_attributes :
  forall st k k' v, k <> k' -> cget (set_top st k v) k' = cget st k'.
Proof. exact get_other_after_set_top. Qed.
Print Assumptions set_does_not_touch_other_attributes.

Theorem outer_attributes_visible_in_inner_scope :
  forall l st k, cget (mkFrame l [] [] :: st) k = cget st k.
Proof. exact get_in_new_scope. Qed.
Print Assumptions outer_attributes_visible_in_inner_scope.

(* shadowing: the inner value is seen inside, the outer stack is bit-for-bit back after the pop *)
Theorem shadowing_preserves_outer :
  forall st l k v, st <> [] ->
    let st1 := fst (cstep st (CPush l)) in
    let st2 := fst (cstep st1 (CSet k v)) in
    cget st2 k = Some v /\ fst (cstep st2 CPop) = st.
Proof. exact shadow_then_pop. Qed.
Print Assumptions shadowing_preserves_outer.

(* set / get / contains / del / use_or_assign touch the innermost scope only *)
Theorem inner_operations_keep_outer_scopes :
  forall st op, local_op op = true ->
    tl (fst (cstep st op)) = tl st /\ length (fst (cstep st op)) = length st.
Proof. exact local_op_keeps_outer. Qed.
Print Assumptions inner_operations_keep_outer_scopes.

(* whatever is set, deleted or created inside a scope is gone when the scope ends *)
Theorem scope_contents_disappear_at_pop :
  forall st l ops, st <> [] -> forallb local_op ops = true ->
    fst (crun st (CPush l :: ops ++ [CPop])) = st.
Proof. exact scope_vanishes. Qed.
Print Assumptions scope_contents_disappear_at_pop.

Theorem delete_only_in_owning_scope :
  forall f r k,
    (alookup k (fr_attrs f) <> None ->
       snd (cstep (f :: r) (CDel k)) = OOk /\ cget (fst (cstep (f :: r) (CDel k))) k = cget r k) /\
    (alookup k (fr_attrs f) = None -> cstep (f :: r) (CDel k) = (f :: r, OAttrErr)).
Proof. exact del_spec. Qed.
Print Assumptions delete_only_in_owning_scope.

Theorem root_attribute_visible_unless_shadowed :
  forall st k v, st <> [] ->
    forallb (fun f => match alookup k (fr_attrs f) with None => true | Some _ => false end) (removelast st) = true ->
    cget (set_root st k v) k = Some v.
Proof. exact get_after_set_root. Qed.
Print Assumptions root_attribute_visible_unless_shadowed.

(* pop: every cleanup of the scope, newest first, and the scope is removed whether or not one raises *)
Theorem pop_runs_scope_cleanups_lifo_and_removes_scope :
  forall f g r,
    cstep (f :: g :: r) CPop =
    (g :: r, OPopped (map cl_id (filter cl_logs (rev (fr_cleanups f))))
                     (match filter cl_raises (rev (fr_cleanups f)) with [] => None | c :: _ => Some (cl_id c) end)).
Proof. exact pop_spec. Qed.
Print Assumptions pop_runs_scope_cleanups_lifo_and_removes_scope.

Theorem cleanups_run_in_reverse_registration_order :
  forall cs, ran_ids cs = rev (map cl_id (filter cl_logs cs)).
Proof. exact ran_ids_lifo. Qed.
Print Assumptions cleanups_run_in_reverse_registration_order.

(* exactly once: pending cleanups are untouched by every other operation, a pop consumes exactly
   its own scope's list, registration only adds, and unwinding runs each pending cleanup once *)
Theorem other_operations_keep_pending_cleanups :
  forall st op, quiet_op op = true -> pending (fst (cstep st op)) = pending st.
Proof. exact quiet_op_pending. Qed.
Print Assumptions other_operations_keep_pending_cleanups.

Theorem pop_consumes_exactly_its_scope :
  forall f g r, pending (f :: g :: r) = fr_cleanups f ++ pending (fst (cstep (f :: g :: r) CPop)).
Proof. exact pop_pending. Qed.
Print Assumptions pop_consumes_exactly_its_scope.

Theorem registration_never_drops_pending_cleanups :
  forall st op, quiet_op op = false -> op <> CPop ->
    exists extra, Permutation (pending (fst (cstep st op))) (pending st ++ extra).
Proof. exact register_keeps_pending. Qed.
Print Assumptions registration_never_drops_pending_cleanups.

Theorem unwinding_runs_every_pending_cleanup_exactly_once :
  forall st, Permutation (unwind_order st) (pending st).
Proof. exact unwind_exactly_once. Qed.
Print Assumptions unwinding_runs_every_pending_cleanup_exactly_once.

(* non-vacuity: the generator fixture's teardown is registered before its setup part runs *)
Example fixture_teardown_registered_first :
  crun_out [CPush 4; CFixture 1 [(7, false)] false false; CAddCleanup 8 false 0 false; CPop]
  = [OOk; OOk; OOk; OPopped [8; 7; 101] None].
Proof. vm_compute. reflexivity. Qed.

Example failing_setup_keeps_earlier_cleanups :
  crun_out [CPush 4; CAddCleanup 5 true 0 false; CFixture 1 [(7, false)] true false; CPop]
  = [OOk; OOk; OSetupErr; OPopped [7; 5] (Some 5)].
Proof. vm_compute. reflexivity. Qed.

(* execute_steps: whatever the nested steps are, and whether or not one of them fails, the
   caller's text and table are afterwards what they were; nothing else in the context changed *)
Theorem execute_steps_restores_the_callers_text_and_table :
  forall st steps st' seen raised,
    st <> [] -> execute_steps st steps = (st', seen, raised) ->
    attr_or_none st' k_text = attr_or_none st k_text /\
    attr_or_none st' k_table = attr_or_none st k_table /\
    (forall k, k <> k_text -> k <> k_table -> cget st' k = cget st k) /\
    tl st' = tl st.
Proof. exact execute_steps_restores. Qed.
Print Assumptions execute_steps_restores_the_callers_text_and_table.

(* the nested steps run in order up to and including the first that does not pass, each seeing
   its own text and table *)
Theorem nested_steps_see_their_own_text_and_table :
  forall steps st st' seen raised,
    st <> [] -> exec_nested st steps = (st', seen, raised) ->
    exists n, seen = map (fun s => (n_text s, n_table s)) (firstn n steps) /\
              (raised = false -> n = length steps) /\
              (raised = true -> exists s, nth_error steps (n - 1) = Some s /\ n_passes s = false /\ 1 <= n).
Proof. exact exec_nested_seen. Qed.
Print Assumptions nested_steps_see_their_own_text_and_table.

Example execute_steps_with_a_failing_nested_step :
  exec_case (1, 1, [mkNested 10 0 true; mkNested 0 11 false; mkNested 12 12 true])
  = ([(10, 0); (0, 11)], true, (1, 1)).
Proof. vm_compute. reflexivity. Qed.

(* runner side: when a cleanup of a scenario's own scope raises, the scenario ends in status error
   and counts as failed, whatever its steps and hooks did (the run then fails: C01) *)
Theorem a_raising_cleanup_fails_the_owning_scenario :
  forall cfg st id all_steps oe eff own st' res fld ev,
    run_scenario cfg st id all_steps oe eff own = (st', res, fld, ev) ->
    existsb is_raising_cleanup ev = true ->
    sr_status res = Some Status.error /\ fld = true.
Proof. exact raising_cleanup_fails_its_scenario. Qed.
Print Assumptions a_raising_cleanup_fails_the_owning_scenario.
