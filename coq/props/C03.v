(* C03 — Status roll-up of scenario, outline, rule, feature follows the documented table.
   Statements only; every proof is `exact <lemma of RollupProofs/RunnerRollup>`. *)
From BV Require Import Base Status Rollup RollupProofs RollupCutShort RollupOutlineError.
From BVGen Require Import StatusTable.

(* --- the classification itself (generated tables, all 16 members) *)
Theorem status_members_are_the_modelled_ones : status_members_match = true.
Proof. exact members_match. Qed.
Print Assumptions status_members_are_the_modelled_ones.

Theorem status_classes_partition :
  forall s, reportable s = true ->
    b2n (is_passed s) + b2n (is_failure s) + b2n (is_error s)
    + b2n (status_eqb s skipped) + b2n (is_untested s) = 1.
Proof. exact classes_partition. Qed.
Print Assumptions status_classes_partition.

Theorem has_failed_is_error_or_failure : forall s, has_failed s = is_error s || is_failure s.
Proof. exact has_failed_def. Qed.
Print Assumptions has_failed_is_error_or_failure.

Theorem step_to_scenario_matches_doc_table :
  forall s t, doc_outer s = Some t -> from_step s = Some t.
Proof. exact from_step_doc. Qed.
Print Assumptions step_to_scenario_matches_doc_table.

Theorem inner_to_outer_matches_doc_table :
  forall s t, is_untested s = false \/ s = untested -> doc_outer s = Some t -> from_inner s = t.
Proof. exact from_inner_doc. Qed.
Print Assumptions inner_to_outer_matches_doc_table.

(* --- scenario: all step lists, no length bound *)
Theorem scenario_status_spec :
  forall steps, scen_steps_status steps =
    match first_decisive steps with None => Some passed | Some s => scen_of_decisive s end.
Proof. exact scen_steps_status_spec. Qed.
Print Assumptions scenario_status_spec.

Theorem scenario_status_total_and_in_range :
  forall hf steps, forallb step_status steps = true ->
    exists t, scenario_compute hf steps = Some t /\ elem_status t = true.
Proof. exact scenario_compute_total. Qed.
Print Assumptions scenario_status_total_and_in_range.

Theorem scenario_error_inside_gives_error :
  forall steps, forallb step_status steps = true ->
    existsb is_error steps = true ->
    forallb (fun s => negb (is_failure s)) steps = true ->
    forallb not_us steps = true ->
    scen_steps_status steps = Some error.
Proof. exact scen_error_inside. Qed.
Print Assumptions scenario_error_inside_gives_error.

Theorem scenario_failure_inside_gives_failed :
  forall steps, forallb step_status steps = true ->
    existsb is_failure steps = true ->
    forallb (fun s => negb (is_error s)) steps = true ->
    forallb not_us steps = true ->
    scen_steps_status steps = Some failed.
Proof. exact scen_failure_inside. Qed.
Print Assumptions scenario_failure_inside_gives_failed.

Theorem scenario_passed_only_if_all_passed :
  forall steps, scen_steps_status steps = Some passed -> forallb is_passed steps = true.
Proof. exact scen_passed_all_passed. Qed.
Print Assumptions scenario_passed_only_if_all_passed.

Theorem scenario_nothing_executed_is_untested :
  forall steps, steps <> [] -> forallb is_untested steps = true ->
    scen_steps_status steps = Some untested.
Proof. exact scen_all_untested. Qed.
Print Assumptions scenario_nothing_executed_is_untested.

Theorem scenario_all_skipped_is_skipped :
  forall steps, steps <> [] -> forallb (fun s => status_eqb s skipped) steps = true ->
    scen_steps_status steps = Some skipped.
Proof. exact scen_all_skipped. Qed.
Print Assumptions scenario_all_skipped_is_skipped.

Theorem scenario_skipped_iff_first_decisive_skipped :
  forall steps, scen_steps_status steps = Some skipped <-> first_decisive steps = Some skipped.
Proof. exact scen_skipped_iff. Qed.
Print Assumptions scenario_skipped_iff_first_decisive_skipped.

(* known findings, kept as machine-checked witnesses on the faithful model *)
Theorem scenario_skipped_only_if_all_skipped_refuted :
  exists steps, scen_steps_status steps = Some skipped /\
                forallb (fun s => status_eqb s skipped) steps = false /\
                forallb step_status steps = true.
Proof. exact scen_skipped_plain_refuted. Qed.
Print Assumptions scenario_skipped_only_if_all_skipped_refuted.

Theorem scenario_error_inside_plain_refuted :
  exists steps, existsb is_error steps = true /\
                forallb (fun s => negb (is_failure s)) steps = true /\
                scen_steps_status steps = Some untested.
Proof. exact scen_error_plain_refuted. Qed.
Print Assumptions scenario_error_inside_plain_refuted.

(* --- feature / rule *)
Theorem container_skipped_iff_all_skipped :
  forall items, container_compute false items = skipped <->
                forallb (fun s => status_eqb s skipped) items = true.
Proof. exact container_skipped_iff. Qed.
Print Assumptions container_skipped_iff_all_skipped.

Theorem container_nothing_executed_is_untested :
  forall items, items <> [] -> forallb (fun s => status_eqb s untested) items = true ->
    container_compute false items = untested.
Proof. exact container_all_untested. Qed.
Print Assumptions container_nothing_executed_is_untested.

Theorem container_passed_only_if_all_unskipped_passed :
  forall items, forallb elem_status items = true ->
    container_compute false items = passed ->
    forallb (fun s => status_eqb s passed || status_eqb s skipped) items = true /\
    (items = [] \/ existsb (fun s => status_eqb s passed) items = true).
Proof.
  exact (fun items Hr Hp => conj (container_passed_children items true 0 Hr Hp)
                                 (container_passed_some_passed items Hr Hp)).
Qed.
Print Assumptions container_passed_only_if_all_unskipped_passed.

Theorem container_error_inside_gives_error :
  forall items, existsb is_error items = true ->
    forallb (fun s => negb (is_failure s)) items = true ->
    forallb (fun s => negb (status_eqb s untested)) items = true ->
    container_compute false items = error.
Proof. exact (fun items a b c => container_error_inside items a b c true 0). Qed.
Print Assumptions container_error_inside_gives_error.

Theorem container_failure_inside_gives_failed :
  forall items, existsb is_failure items = true ->
    forallb (fun s => negb (is_error s)) items = true ->
    forallb (fun s => negb (status_eqb s untested)) items = true ->
    container_compute false items = failed.
Proof. exact (fun items a b c => container_failure_inside items a b c true 0). Qed.
Print Assumptions container_failure_inside_gives_failed.

Theorem container_with_untested_child_never_passed :
  forall items, existsb (fun s => status_eqb s untested) items = true ->
    container_compute false items <> passed.
Proof. exact (fun items H => container_untested_never_passed items true 0 H). Qed.
Print Assumptions container_with_untested_child_never_passed.

Theorem container_status_in_range : forall hf items, elem_status (container_compute hf items) = true.
Proof. exact container_compute_range. Qed.
Print Assumptions container_status_in_range.

Theorem container_error_inside_plain_refuted :
  exists items, existsb is_error items = true /\ forallb elem_status items = true /\
                container_compute false items = untested.
Proof. exact container_error_plain_refuted. Qed.
Print Assumptions container_error_inside_plain_refuted.

(* --- scenario outline (after the fix of O1: a never-run outline is untested) *)
Theorem outline_skipped_iff_all_rows_skipped :
  forall expected rows, rows <> [] ->
    (outline_compute expected rows = skipped <->
     forallb (fun s => status_eqb s skipped) rows = true).
Proof. exact outline_skipped_iff. Qed.
Print Assumptions outline_skipped_iff_all_rows_skipped.

Theorem outline_failing_row_gives_failing_outline :
  forall expected rows, existsb (fun s => has_failed (from_inner s)) rows = true ->
    forallb (fun s => negb (status_eqb s untested)) rows = true ->
    has_failed (outline_compute expected rows) = true.
Proof. exact outline_failed_inside. Qed.
Print Assumptions outline_failing_row_gives_failing_outline.

Theorem outline_passed_only_if_all_unskipped_passed :
  forall expected rows, rows <> [] -> forallb elem_status rows = true ->
    outline_compute expected rows = passed ->
    forallb (fun s => status_eqb s passed || status_eqb s skipped) rows = true /\
    existsb (fun s => status_eqb s passed) rows = true.
Proof. exact outline_passed_rows. Qed.
Print Assumptions outline_passed_only_if_all_unskipped_passed.

Theorem outline_nothing_executed_is_untested :
  forall expected rows, rows <> [] -> forallb (fun s => status_eqb s untested) rows = true ->
    outline_compute expected rows = untested.
Proof. exact outline_all_untested. Qed.
Print Assumptions outline_nothing_executed_is_untested.

Theorem outline_rows_never_built_is_untested :
  forall expected, 0 < expected -> outline_compute expected [] = untested.
Proof. exact outline_never_built. Qed.
Print Assumptions outline_rows_never_built_is_untested.

Theorem outline_with_untested_row_never_passed :
  forall expected rows, existsb (fun s => status_eqb s untested) rows = true ->
    outline_compute expected rows <> passed.
Proof. exact outline_untested_never_passed. Qed.
Print Assumptions outline_with_untested_row_never_passed.

Theorem outline_status_in_range :
  forall expected rows, forallb elem_status rows = true ->
    elem_status (outline_compute expected rows) = true.
Proof. exact outline_range. Qed.
Print Assumptions outline_status_in_range.

(* --- cached status: a run starts with clear_status, so only the latest run counts *)
(* --- two more rows of the documented table: de-selected children are no execution; a run cut short is failed *)
Theorem container_nothing_executed_is_untested_skips_included :
  forall items, forallb skipped_or_untested items = true ->
    existsb (fun s => status_eqb s untested) items = true ->
    container_compute false items = untested.
Proof. exact container_nothing_executed_skips_included. Qed.
Print Assumptions container_nothing_executed_is_untested_skips_included.

Theorem container_cut_short_after_passed_is_failed :
  forall pre post, forallb passed_or_skipped pre = true ->
    existsb (fun s => status_eqb s passed) pre = true ->
    container_compute false (pre ++ untested :: post) = failed.
Proof. exact container_cut_short_is_failed. Qed.
Print Assumptions container_cut_short_after_passed_is_failed.

Theorem outline_nothing_executed_is_untested_skips_included :
  forall expected rows, forallb skipped_or_untested rows = true ->
    existsb (fun s => status_eqb s untested) rows = true ->
    outline_compute expected rows = untested.
Proof. exact outline_nothing_executed_skips_included. Qed.
Print Assumptions outline_nothing_executed_is_untested_skips_included.

Theorem outline_cut_short_after_passed_is_failed :
  forall expected pre post, forallb passed_or_skipped pre = true ->
    existsb (fun s => status_eqb s passed) pre = true ->
    outline_compute expected (pre ++ untested :: post) = failed.
Proof. exact outline_cut_short_is_failed. Qed.
Print Assumptions outline_cut_short_after_passed_is_failed.

(* the first failing row decides, with the status it has from outside: an error-class row (error, hook error, cleanup error,
   undefined, pending) makes the outline error - never hook_error -, a failed row makes it failed *)
Theorem outline_first_failing_row_decides_with_its_outer_status :
  forall expected pre s post, forallb quiet_row pre = true -> has_failed (from_inner s) = true ->
    outline_compute expected (pre ++ s :: post) = from_inner s.
Proof. exact outline_first_failing_row_decides. Qed.
Print Assumptions outline_first_failing_row_decides_with_its_outer_status.

Theorem outline_with_an_error_class_row_first_is_error :
  forall expected pre s post, forallb quiet_row pre = true -> is_error s = true ->
    outline_compute expected (pre ++ s :: post) = error.
Proof. exact outline_error_row_first_gives_error. Qed.
Print Assumptions outline_with_an_error_class_row_first_is_error.

Example a_row_passed_then_the_run_was_aborted :
  outline_compute 3 [passed; untested; untested] = failed /\ outline_compute 3 [skipped; untested; untested] = untested.
Proof. split; reflexivity. Qed.

Theorem status_after_clear_is_recomputed : forall computed, read_status untested computed = computed.
Proof. exact read_after_clear. Qed.
Print Assumptions status_after_clear_is_recomputed.

Theorem status_after_set_is_kept : forall s computed, is_final s = true -> read_status s computed = s.
Proof. exact read_after_set. Qed.
Print Assumptions status_after_set_is_kept.
