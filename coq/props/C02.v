(* C02 — Step execution: order, outcome-to-status mapping, stop after the first non-pass.
   Statements only. *)
From BV Require Import Base Status Rollup Runner RunnerSteps RunnerQuiet RunnerEq RunnerOrder.
From BVGen Require Import StatusTable.

(* the documented mapping: what the step function did -> status *)
Theorem step_status_mapping :
  forall cfg st wip scid s st' status skip ev,
    run_step cfg st wip scid s = (st', status, skip, ev) ->
    let rb := hook_fires cfg HBeforeStep (st_id s) in
    let ra := hook_fires cfg HAfterStep (st_id s) in
    match st_kind s with
    | KUndefined => status = undefined /\ call_ids ev = [] /\ skip = false
    | k => status = (if rb || ra then hook_error else step_outcome wip k) /\
           call_ids ev = (if rb then [] else [st_id s]) /\
           skip = (if rb then false else match k with KSkip => true | _ => false end)
    end.
Proof. exact run_step_status. Qed.
Print Assumptions step_status_mapping.

Example outcome_table :
  map (step_outcome false) [KPass; KFail; KError; KPending; KKbd; KSkip; KAbort; KCleanOk]
  = [passed; failed; error; pending; error; skipped; passed; passed]
  /\ step_outcome true KPending = pending_warn.
Proof. split; reflexivity. Qed.

(* step functions are called in document order (a subsequence of background ++ own steps) *)
Theorem calls_in_document_order :
  forall cfg wip dry scid steps st l st' l' sts ev,
    steps_loop cfg st wip dry scid l steps = (st', l', sts, ev) ->
    subseq (call_ids ev) (map st_id steps) /\ length sts = length steps.
Proof. exact steps_loop_calls_in_order. Qed.
Print Assumptions calls_in_document_order.

(* default class switch: the calls are exactly a prefix of the step list *)
Theorem calls_are_a_prefix :
  forall cfg wip dry scid, c_cont cfg = false ->
  forall steps st l st' l' sts ev,
    steps_loop cfg st wip dry scid l steps = (st', l', sts, ev) ->
    exists n, call_ids ev = firstn n (map st_id steps).
Proof. exact steps_loop_prefix. Qed.
Print Assumptions calls_are_a_prefix.

Theorem all_pass_runs_everything_in_order :
  forall cfg wip dry scid steps st l st' l' sts ev,
    l_run_steps l = true -> l_should_skip l = false ->
    forallb (plain_pass cfg) steps = true ->
    steps_loop cfg st wip dry scid l steps = (st', l', sts, ev) ->
    call_ids ev = map st_id steps /\ sts = map (fun _ => passed) steps /\ l_failed l' = l_failed l.
Proof. exact steps_loop_all_pass. Qed.
Print Assumptions all_pass_runs_everything_in_order.

(* after the first step that does not pass: no further call, rest skipped / undefined *)
Theorem no_call_after_first_non_pass :
  forall cfg st wip scid l s r st' l' sts ev, c_cont cfg = false ->
    l_run_steps l = true ->
    steps_loop cfg st wip false scid l (s :: r) = (st', l', sts, ev) ->
    forall st1 status skip ev1,
      run_step cfg st wip scid s = (st1, status, skip, ev1) ->
      has_failed status = true ->
      sts = status :: map (rest_status false true) r /\
      call_ids ev = call_ids ev1 /\ l_failed l' = true.
Proof. exact steps_loop_after_failure. Qed.
Print Assumptions no_call_after_first_non_pass.

Example rest_status_table :
  map (rest_status false true) [mkStep KPass 1; mkStep KUndefined 2; mkStep KFail 3] = [skipped; undefined; skipped].
Proof. reflexivity. Qed.

Theorem skip_scenario_leaves_rest_skipped :
  forall cfg st wip scid l s r st' l' sts ev,
    l_run_steps l = true -> l_failed l = false ->
    steps_loop cfg st wip false scid l (s :: r) = (st', l', sts, ev) ->
    forall st1 status ev1,
      run_step cfg st wip scid s = (st1, status, true, ev1) ->
      has_failed status = false ->
      sts = status :: map (fun _ => skipped) r /\ call_ids ev = call_ids ev1.
Proof. exact steps_loop_after_skip. Qed.
Print Assumptions skip_scenario_leaves_rest_skipped.

(* once the loop is switched off nothing of the user's is called, whatever follows *)
Theorem switched_off_loop_calls_nothing :
  forall cfg wip dry scid steps st l st' l' sts ev,
    l_run_steps l = false ->
    steps_loop cfg st wip dry scid l steps = (st', l', sts, ev) ->
    st' = st /\ l' = l /\ sts = map (rest_status dry (l_failed l)) steps /\
    call_ids ev = [] /\ forallb (fun e => negb (is_hook e)) ev = true.
Proof. exact norun_spec. Qed.
Print Assumptions switched_off_loop_calls_nothing.

(* dry-run: no step function and no hook is ever called, in the whole run *)
Theorem dry_run_never_calls_user_code :
  forall cfg fs rs verdict ab evs,
    c_dry cfg = true -> run_model cfg fs = (rs, verdict, ab, evs) ->
    forallb (fun e => negb (is_call e) && negb (is_hook e)) evs = true.
Proof. exact dry_run_calls_nothing. Qed.
Print Assumptions dry_run_never_calls_user_code.

(* non-vacuity *)
Example loop_runs :
  let cfg := config_of (mkCfgData false false true TTrue [] [] [] 99 false None []) in
  let '(_, _, sts, ev) :=
    steps_loop cfg (mkState false [[]]) false false 7 (mkLoop true false false)
               [mkStep KPass 1; mkStep KFail 2; mkStep KUndefined 3; mkStep KPass 4] in
  sts = [passed; failed; undefined; skipped] /\ call_ids ev = [1; 2].
Proof. vm_compute. split; reflexivity. Qed.

(* the whole run: the step-function calls of any run are, in run order, one block per scenario /
   outline row of the program (feature_specs: feature background ++ rule background ++ own
   steps), each block made on behalf of that scenario and being a subsequence of its step
   list - a prefix of it with the default continue_after_failed_step = false *)
Theorem the_calls_of_a_run_follow_the_document :
  forall cfg fs rs verdict ab evs,
    run_model cfg fs = (rs, verdict, ab, evs) ->
    calls_match (c_cont cfg) (flat_map feature_specs fs) (step_calls evs).
Proof. exact run_calls_follow_the_document. Qed.
Print Assumptions the_calls_of_a_run_follow_the_document.

Example inherited_backgrounds_come_first :
  let cfg := mkCfgData false false true TTrue [] [] [] 99 false None [] in
  let f := mkFeature 1 [] (Some [mkStep KPass 1])
             [FRule (mkRule 2 [] (Some [mkStep KPass 2]) [SScen (mkScen 3 [] [mkStep KPass 4; mkStep KFail 5; mkStep KPass 6])]);
              FItem (SScen (mkScen 7 [] [mkStep KPass 8]))] in
  feature_specs f = [(3, [mkStep KPass 1; mkStep KPass 2; mkStep KPass 4; mkStep KFail 5; mkStep KPass 6]);
                     (7, [mkStep KPass 1; mkStep KPass 8])] /\
  step_calls (snd (run_case (cfg, [f]))) = [(3, 1); (3, 2); (3, 4); (3, 5); (7, 1); (7, 8)].
Proof. vm_compute. split; reflexivity. Qed.
