(* C12 — Hooks: nested order, after-hooks always paired, hook faults contained.
   [all_hooks cfg]: not a dry run and every hook is defined (so the whole trace is visible). *)
From BV Require Import Base Status Rollup Runner RunnerVerdict RunnerSteps RunnerQuiet RunnerSelect RunnerHooks RunnerEq RunnerLocal.
From BVGen Require Import StatusTable.

(* a defined step: before_step, <function>, after_step - the after hook whatever happened *)
Theorem step_hooks_always_paired :
  forall cfg, all_hooks cfg -> forall st wip scid k id st' status skip ev,
    run_defined_step cfg st wip scid k id = (st', status, skip, ev) ->
    hooks_of ev = [(HBeforeStep, id); (HAfterStep, id)].
Proof. exact run_defined_step_hooks. Qed.
Print Assumptions step_hooks_always_paired.

(* scenario: before_tag* before_scenario <step hooks> after_scenario after_tag*, for EVERY fault set;
   hook_failed <-> one of its own sites raised; a raising opening hook keeps the body from running *)
Theorem scenario_hook_trace :
  forall cfg, all_hooks cfg -> forall st id all_steps oe eff own st' res fld ev,
    sel cfg eff = true ->
    run_scenario cfg st id all_steps oe eff own = (st', res, fld, ev) ->
    exists body,
      hooks_of ev = map (pair HBeforeTag) own ++ [(HBeforeScenario, id)] ++ body
                    ++ [(HAfterScenario, id)] ++ map (pair HAfterTag) own /\
      forallb step_hook body = true /\
      sr_hook_failed res = scen_opens_fault cfg id own || scen_closes_fault cfg id own /\
      (scen_opens_fault cfg id own = true ->
         body = [] /\ call_ids ev = [] /\ sr_steps res = map (fun _ => untested) all_steps) /\
      (sr_hook_failed res = true -> fld = true).
Proof. exact scenario_hooks_shape. Qed.
Print Assumptions scenario_hook_trace.

Theorem rule_hook_trace :
  forall cfg, all_hooks cfg -> forall st r anc inh fhb st' res fld ev,
    rule_runs cfg anc r = true ->
    run_rule cfg st r anc inh fhb = (st', res, fld, ev) ->
    exists body,
      hooks_of ev = map (pair HBeforeTag) (r_tags r) ++ [(HBeforeRule, r_id r)] ++ body
                    ++ [(HAfterRule, r_id r)] ++ map (pair HAfterTag) (r_tags r) /\
      rr_hook_failed res = opens_fault cfg HBeforeRule (r_id r) (r_tags r)
                           || closes_fault cfg HAfterRule (r_id r) (r_tags r) /\
      (opens_fault cfg HBeforeRule (r_id r) (r_tags r) = true ->
         body = [] /\ call_ids ev = [] /\
         rr_items res = map (notrun_sitem (inh ++ opt_steps (r_bg r))) (r_items r)) /\
      (rr_hook_failed res = true -> fld = true /\ (rr_status res = hook_error \/ rr_status res = error)).
Proof. exact rule_hooks_shape. Qed.
Print Assumptions rule_hook_trace.

Theorem feature_hook_trace :
  forall cfg, all_hooks cfg -> forall st f st' res fld ev,
    feature_should_run cfg f = true ->
    run_feature cfg st f = (st', res, fld, ev) ->
    exists body,
      hooks_of ev = map (pair HBeforeTag) (f_tags f) ++ [(HBeforeFeature, f_id f)] ++ body
                    ++ [(HAfterFeature, f_id f)] ++ map (pair HAfterTag) (f_tags f) /\
      fr_hook_failed res = opens_fault cfg HBeforeFeature (f_id f) (f_tags f)
                           || closes_fault cfg HAfterFeature (f_id f) (f_tags f) /\
      (opens_fault cfg HBeforeFeature (f_id f) (f_tags f) = true ->
         body = [] /\ call_ids ev = [] /\
         fr_items res = map (notrun_fitem (opt_steps (f_bg f))) (f_items f)) /\
      (fr_hook_failed res = true -> fld = true /\ (fr_status res = hook_error \/ fr_status res = error)).
Proof. exact feature_hooks_shape. Qed.
Print Assumptions feature_hook_trace.

(* before_all first, after_all last; a failing before_all aborts: nothing else runs, run fails *)
Theorem run_hook_trace_and_before_all_fault :
  forall cfg, all_hooks cfg -> forall fs rs verdict ab evs,
    run_model cfg fs = (rs, verdict, ab, evs) ->
    exists body,
      hooks_of evs = [(HBeforeAll, 0)] ++ body ++ [(HAfterAll, 0)] /\
      (c_faults cfg HBeforeAll 0 = true ->
         body = [] /\ call_ids evs = [] /\ rs = map notrun_feature fs /\ verdict = true /\ ab = true).
Proof. exact model_hooks_shape. Qed.
Print Assumptions run_hook_trace_and_before_all_fault.

(* any raising hook makes the run fail (instance of C01's theorem) *)
Theorem hook_fault_fails_run :
  forall cfg fs rs verdict ab evs h k,
    run_model cfg fs = (rs, verdict, ab, evs) -> In (EHook h k true) evs -> verdict = true.
Proof. exact hook_fault_fails. Qed.
Print Assumptions hook_fault_fails_run.

(* hooks are not called in dry-run mode, nor for a de-selected scenario *)
Theorem no_hooks_in_dry_run :
  forall cfg fs rs verdict ab evs,
    c_dry cfg = true -> run_model cfg fs = (rs, verdict, ab, evs) ->
    forallb (fun e => negb (is_call e) && negb (is_hook e)) evs = true.
Proof. exact dry_run_calls_nothing. Qed.
Print Assumptions no_hooks_in_dry_run.

Theorem no_hooks_for_deselected_rule :
  forall cfg st r anc inh fhb,
    aborted st = false -> rule_runs cfg anc r = false ->
    forallb (sitem_nonempty (inh ++ opt_steps (r_bg r))) (r_items r) = true ->
    exists res ev, run_rule cfg st r anc inh fhb = (st, res, false, ev) /\
      rr_status res = skipped /\ rr_hook_failed res = false /\ allq ev = true.
Proof. exact unselected_rule_is_skipped. Qed.
Print Assumptions no_hooks_for_deselected_rule.

(* non-interference: two runs of the same program under ANY two fault sets (cfg and
   set_faults cfg f2; e.g. the fault-free run and a faulted one), no --stop, no aborting step, no hook
   that calls context.abort(), before_all not raising.  sim_feature / sim_rule / sim_sitem say, level by level:
   an element none of whose own hook sites (its before/after hooks, its tag hooks, the step
   hooks of its steps, and those of everything below it) is affected has the SAME result in
   both runs; an element whose own hooks are unaffected has children that are related in the
   same way - so only the affected element, its ancestors and its descendants may differ *)
Theorem hook_faults_leave_unrelated_elements_alone :
  forall cfg f2, no_hook_aborts cfg -> c_stop cfg = false ->
  forall fs rs1 v1 a1 e1 rs2 v2 a2 e2,
    forallb na_feature fs = true ->
    c_faults cfg HBeforeAll 0 = false -> f2 HBeforeAll 0 = false ->
    run_model cfg fs = (rs1, v1, a1, e1) ->
    run_model (set_faults cfg f2) fs = (rs2, v2, a2, e2) ->
    sim_list (sim_feature cfg f2) fs rs1 rs2.
Proof. exact hook_faults_do_not_interfere. Qed.
Print Assumptions hook_faults_leave_unrelated_elements_alone.

(* without aborting steps and aborting hooks every scenario hands the runner state back as it got it,
   whatever its hooks did: a hook fault cannot leak through the runner state *)
Theorem scenario_restores_the_runner_state :
  forall c, no_hook_aborts c -> forall st id all_steps oe eff own st' res fld ev,
    na_steps all_steps = true ->
    run_scenario c st id all_steps oe eff own = (st', res, fld, ev) -> st' = st.
Proof. exact run_scenario_frame. Qed.
Print Assumptions scenario_restores_the_runner_state.

(* and a scenario none of whose sites is affected runs identically from the same state *)
Theorem unaffected_scenario_runs_identically :
  forall cfg f2 st id all_steps oe eff own,
    agree_scen cfg f2 id all_steps own ->
    run_scenario (set_faults cfg f2) st id all_steps oe eff own = run_scenario cfg st id all_steps oe eff own.
Proof. exact run_scenario_local. Qed.
Print Assumptions unaffected_scenario_runs_identically.

(* not vacuous: before_scenario(4) raises; scenario 4 changes, its sibling 6 and the
   feature 10 keep their results, the premises of the theorem hold *)
Example interference_example :
  let hooks := [HBeforeAll; HAfterAll; HBeforeFeature; HAfterFeature; HBeforeRule; HAfterRule;
                HBeforeScenario; HAfterScenario; HBeforeStep; HAfterStep; HBeforeTag; HAfterTag] in
  let free := mkCfgData false false true TTrue hooks [] [] 99 false None [] in
  let flt := mkCfgData false false true TTrue hooks [(HBeforeScenario, 4)] [] 99 false None [] in
  let f := mkFeature 1 [7] None [FRule (mkRule 2 [8] None [SScen (mkScen 4 [9] [mkStep KPass 5]);
                                                           SScen (mkScen 6 [] [mkStep KFail 7])])] in
  let g := mkFeature 10 [] None [FItem (SScen (mkScen 11 [] [mkStep KPass 12]))] in
  forallb na_feature [f; g] = true /\
  match fst (fst (fst (run_case (free, [f; g])))), fst (fst (fst (run_case (flt, [f; g])))) with
  | [mkFeatRes _ s1 _ [RFRule (mkRuleRes _ _ _ [RScen a1; RScen b1])]; g1],
    [mkFeatRes _ s2 _ [RFRule (mkRuleRes _ _ _ [RScen a2; RScen b2])]; g2] =>
      sr_status a1 = Some passed /\ sr_status a2 = Some hook_error /\
      b1 = b2 /\ sr_status b1 = Some failed /\ g1 = g2 /\ fr_status g1 = passed
  | _, _ => False
  end.
Proof. vm_compute. repeat split; reflexivity. Qed.

Example nested_trace :
  let cfg := mkCfgData false false true TTrue
               [HBeforeAll; HAfterAll; HBeforeFeature; HAfterFeature; HBeforeRule; HAfterRule;
                HBeforeScenario; HAfterScenario; HBeforeStep; HAfterStep; HBeforeTag; HAfterTag]
               [(HBeforeScenario, 4)] [] 99 false None [] in
  let f := mkFeature 1 [7] None [FRule (mkRule 2 [8] None [SScen (mkScen 4 [9] [mkStep KPass 5])])] in
  hooks_of (snd (run_case (cfg, [f]))) =
  [(HBeforeAll, 0); (HBeforeTag, 7); (HBeforeFeature, 1); (HBeforeTag, 8); (HBeforeRule, 2);
   (HBeforeTag, 9); (HBeforeScenario, 4); (HAfterScenario, 4); (HAfterTag, 9);
   (HAfterRule, 2); (HAfterTag, 8); (HAfterFeature, 1); (HAfterTag, 7); (HAfterAll, 0)].
Proof. vm_compute. reflexivity. Qed.
