(* C12 — Hooks: nested order, after-hooks always paired, hook faults contained.
   [all_hooks cfg]: not a dry run and every hook is defined (so the whole trace is visible). *)
From BV Require Import Base Status Rollup Runner RunnerVerdict RunnerSteps RunnerQuiet RunnerSelect RunnerHooks RunnerEq.
From BVGen Require Import StatusTable.

(* a defined step: before_step, <function>, after_step - the after hook whatever happened *)
Theorem step_hooks_always_paired :
  forall cfg, all_hooks cfg -> forall st wip scid k id st' status skip ev,
    run_defined_step cfg st wip scid k id = (st', status, skip, ev) ->
    hooks_of ev = [(HBeforeStep, id); (HAfterStep, id)].
Proof. exact run_defined_step_hooks. Qed.
Print Assumptions step_hooks_always_paired.

(* scenario: before_tag* before_scenario <step hooks> after_scenario after_tag*, for EVERY fault set;
   hook_failed <-> one of its own sites raised; a raising opening hook keeps the body from running *)
Theorem scenario_hook_trace :
  forall cfg, all_hooks cfg -> forall st id all_steps oe eff own st' res fld ev,
    c_expr cfg eff = true ->
    run_scenario cfg st id all_steps oe eff own = (st', res, fld, ev) ->
    exists body,
      hooks_of ev = map (pair HBeforeTag) own ++ [(HBeforeScenario, id)] ++ body
                    ++ [(HAfterScenario, id)] ++ map (pair HAfterTag) own /\
      forallb step_hook body = true /\
      sr_hook_failed res = scen_opens_fault cfg id own || scen_closes_fault cfg id own /\
      (scen_opens_fault cfg id own = true ->
         body = [] /\ call_ids ev = [] /\ sr_steps res = map (fun _ => untested) all_steps) /\
      (sr_hook_failed res = true -> fld = true).
Proof. exact scenario_hooks_shape. Qed.
Print Assumptions scenario_hook_trace.

Theorem rule_hook_trace :
  forall cfg, all_hooks cfg -> forall st r anc inh fhb st' res fld ev,
    rule_should_run cfg anc r = true ->
    run_rule cfg st r anc inh fhb = (st', res, fld, ev) ->
    exists body,
      hooks_of ev = map (pair HBeforeTag) (r_tags r) ++ [(HBeforeRule, r_id r)] ++ body
                    ++ [(HAfterRule, r_id r)] ++ map (pair HAfterTag) (r_tags r) /\
      rr_hook_failed res = opens_fault cfg HBeforeRule (r_id r) (r_tags r)
                           || closes_fault cfg HAfterRule (r_id r) (r_tags r) /\
      (opens_fault cfg HBeforeRule (r_id r) (r_tags r) = true ->
         body = [] /\ call_ids ev = [] /\
         rr_items res = map (notrun_sitem (inh ++ opt_steps (r_bg r))) (r_items r)) /\
      (rr_hook_failed res = true -> fld = true /\ (rr_status res = hook_error \/ rr_status res = error)).
Proof. exact rule_hooks_shape. Qed.
Print Assumptions rule_hook_trace.

Theorem feature_hook_trace :
  forall cfg, all_hooks cfg -> forall st f st' res fld ev,
    feature_should_run cfg f = true ->
    run_feature cfg st f = (st', res, fld, ev) ->
    exists body,
      hooks_of ev = map (pair HBeforeTag) (f_tags f) ++ [(HBeforeFeature, f_id f)] ++ body
                    ++ [(HAfterFeature, f_id f)] ++ map (pair HAfterTag) (f_tags f) /\
      fr_hook_failed res = opens_fault cfg HBeforeFeature (f_id f) (f_tags f)
                           || closes_fault cfg HAfterFeature (f_id f) (f_tags f) /\
      (opens_fault cfg HBeforeFeature (f_id f) (f_tags f) = true ->
         body = [] /\ call_ids ev = [] /\
         fr_items res = map (notrun_fitem (opt_steps (f_bg f))) (f_items f)) /\
      (fr_hook_failed res = true -> fld = true /\ (fr_status res = hook_error \/ fr_status res = error)).
Proof. exact feature_hooks_shape. Qed.
Print Assumptions feature_hook_trace.

(* before_all first, after_all last; a failing before_all aborts: nothing else runs, run fails *)
Theorem run_hook_trace_and_before_all_fault :
  forall cfg, all_hooks cfg -> forall fs rs verdict ab evs,
    run_model cfg fs = (rs, verdict, ab, evs) ->
    exists body,
      hooks_of evs = [(HBeforeAll, 0)] ++ body ++ [(HAfterAll, 0)] /\
      (c_faults cfg HBeforeAll 0 = true ->
         body = [] /\ call_ids evs = [] /\ rs = map notrun_feature fs /\ verdict = true /\ ab = true).
Proof. exact model_hooks_shape. Qed.
Print Assumptions run_hook_trace_and_before_all_fault.

(* any raising hook makes the run fail (instance of C01's theorem) *)
Theorem hook_fault_fails_run :
  forall cfg fs rs verdict ab evs h k,
    run_model cfg fs = (rs, verdict, ab, evs) -> In (EHook h k true) evs -> verdict = true.
Proof. exact hook_fault_fails. Qed.
Print Assumptions hook_fault_fails_run.

(* hooks are not called in dry-run mode, nor for a de-selected scenario *)
Theorem no_hooks_in_dry_run :
  forall cfg fs rs verdict ab evs,
    c_dry cfg = true -> run_model cfg fs = (rs, verdict, ab, evs) ->
    forallb (fun e => negb (is_call e) && negb (is_hook e)) evs = true.
Proof. exact dry_run_calls_nothing. Qed.
Print Assumptions no_hooks_in_dry_run.

Theorem no_hooks_for_deselected_rule :
  forall cfg st r anc inh fhb,
    aborted st = false -> rule_should_run cfg anc r = false ->
    forallb (sitem_nonempty (inh ++ opt_steps (r_bg r))) (r_items r) = true ->
    exists res ev, run_rule cfg st r anc inh fhb = (st, res, false, ev) /\
      rr_status res = skipped /\ rr_hook_failed res = false /\ allq ev = true.
Proof. exact unselected_rule_is_skipped. Qed.
Print Assumptions no_hooks_for_deselected_rule.

Example nested_trace :
  let cfg := mkCfgData false false true TTrue
               [HBeforeAll; HAfterAll; HBeforeFeature; HAfterFeature; HBeforeRule; HAfterRule;
                HBeforeScenario; HAfterScenario; HBeforeStep; HAfterStep; HBeforeTag; HAfterTag]
               [(HBeforeScenario, 4)] [] 99 false in
  let f := mkFeature 1 [7] None [FRule (mkRule 2 [8] None [SScen (mkScen 4 [9] [mkStep KPass 5])])] in
  hooks_of (snd (run_case (cfg, [f]))) =
  [(HBeforeAll, 0); (HBeforeTag, 7); (HBeforeFeature, 1); (HBeforeTag, 8); (HBeforeRule, 2);
   (HBeforeTag, 9); (HBeforeScenario, 4); (HAfterScenario, 4); (HAfterTag, 9);
   (HAfterRule, 2); (HAfterTag, 8); (HAfterFeature, 1); (HAfterTag, 7); (HAfterAll, 0)].
Proof. vm_compute. reflexivity. Qed.
