gen/ActiveTagTables.vo gen/ActiveTagTables.glob gen/ActiveTagTables.v.beautified gen/ActiveTagTables.required_vo: gen/ActiveTagTables.v theories/Base.vo
gen/ActiveTagTables.vio: gen/ActiveTagTables.v theories/Base.vio
gen/ActiveTagTables.vos gen/ActiveTagTables.vok gen/ActiveTagTables.required_vos: gen/ActiveTagTables.v theories/Base.vos
gen/ConfigTables.vo gen/ConfigTables.glob gen/ConfigTables.v.beautified gen/ConfigTables.required_vo: gen/ConfigTables.v theories/Base.vo theories/ConfigTypes.vo
gen/ConfigTables.vio: gen/ConfigTables.v theories/Base.vio theories/ConfigTypes.vio
gen/ConfigTables.vos gen/ConfigTables.vok gen/ConfigTables.required_vos: gen/ConfigTables.v theories/Base.vos theories/ConfigTypes.vos
gen/GherkinTables.vo gen/GherkinTables.glob gen/GherkinTables.v.beautified gen/GherkinTables.required_vo: gen/GherkinTables.v theories/Base.vo theories/GherkinTypes.vo
gen/GherkinTables.vio: gen/GherkinTables.v theories/Base.vio theories/GherkinTypes.vio
gen/GherkinTables.vos gen/GherkinTables.vok gen/GherkinTables.required_vos: gen/GherkinTables.v theories/Base.vos theories/GherkinTypes.vos
gen/JUnitTables.vo gen/JUnitTables.glob gen/JUnitTables.v.beautified gen/JUnitTables.required_vo: gen/JUnitTables.v theories/Base.vo theories/Status.vo
gen/JUnitTables.vio: gen/JUnitTables.v theories/Base.vio theories/Status.vio
gen/JUnitTables.vos gen/JUnitTables.vok gen/JUnitTables.required_vos: gen/JUnitTables.v theories/Base.vos theories/Status.vos
gen/OutlineTables.vo gen/OutlineTables.glob gen/OutlineTables.v.beautified gen/OutlineTables.required_vo: gen/OutlineTables.v theories/Base.vo
gen/OutlineTables.vio: gen/OutlineTables.v theories/Base.vio
gen/OutlineTables.vos gen/OutlineTables.vok gen/OutlineTables.required_vos: gen/OutlineTables.v theories/Base.vos
gen/StatusTable.vo gen/StatusTable.glob gen/StatusTable.v.beautified gen/StatusTable.required_vo: gen/StatusTable.v theories/Base.vo theories/Status.vo
gen/StatusTable.vio: gen/StatusTable.v theories/Base.vio theories/Status.vio
gen/StatusTable.vos gen/StatusTable.vok gen/StatusTable.required_vos: gen/StatusTable.v theories/Base.vos theories/Status.vos
gen/SummaryTables.vo gen/SummaryTables.glob gen/SummaryTables.v.beautified gen/SummaryTables.required_vo: gen/SummaryTables.v theories/Base.vo theories/Status.vo
gen/SummaryTables.vio: gen/SummaryTables.v theories/Base.vio theories/Status.vio
gen/SummaryTables.vos gen/SummaryTables.vok gen/SummaryTables.required_vos: gen/SummaryTables.v theories/Base.vos theories/Status.vos
gen/UnicodeTables.vo gen/UnicodeTables.glob gen/UnicodeTables.v.beautified gen/UnicodeTables.required_vo: gen/UnicodeTables.v theories/Base.vo
gen/UnicodeTables.vio: gen/UnicodeTables.v theories/Base.vio
gen/UnicodeTables.vos gen/UnicodeTables.vok gen/UnicodeTables.required_vos: gen/UnicodeTables.v theories/Base.vos
theories/ActiveTag.vo theories/ActiveTag.glob theories/ActiveTag.v.beautified theories/ActiveTag.required_vo: theories/ActiveTag.v theories/Base.vo theories/UStr.vo gen/UnicodeTables.vo gen/ActiveTagTables.vo
theories/ActiveTag.vio: theories/ActiveTag.v theories/Base.vio theories/UStr.vio gen/UnicodeTables.vio gen/ActiveTagTables.vio
theories/ActiveTag.vos theories/ActiveTag.vok theories/ActiveTag.required_vos: theories/ActiveTag.v theories/Base.vos theories/UStr.vos gen/UnicodeTables.vos gen/ActiveTagTables.vos
theories/ActiveTagProofs.vo theories/ActiveTagProofs.glob theories/ActiveTagProofs.v.beautified theories/ActiveTagProofs.required_vo: theories/ActiveTagProofs.v theories/Base.vo theories/UStr.vo theories/TagExpr.vo theories/TagExprProofs.vo theories/ActiveTag.vo gen/UnicodeTables.vo gen/ActiveTagTables.vo
theories/ActiveTagProofs.vio: theories/ActiveTagProofs.v theories/Base.vio theories/UStr.vio theories/TagExpr.vio theories/TagExprProofs.vio theories/ActiveTag.vio gen/UnicodeTables.vio gen/ActiveTagTables.vio
theories/ActiveTagProofs.vos theories/ActiveTagProofs.vok theories/ActiveTagProofs.required_vos: theories/ActiveTagProofs.v theories/Base.vos theories/UStr.vos theories/TagExpr.vos theories/TagExprProofs.vos theories/ActiveTag.vos gen/UnicodeTables.vos gen/ActiveTagTables.vos
theories/Base.vo theories/Base.glob theories/Base.v.beautified theories/Base.required_vo: theories/Base.v 
theories/Base.vio: theories/Base.v 
theories/Base.vos theories/Base.vok theories/Base.required_vos: theories/Base.v 
theories/Capture.vo theories/Capture.glob theories/Capture.v.beautified theories/Capture.required_vo: theories/Capture.v theories/Base.vo
theories/Capture.vio: theories/Capture.v theories/Base.vio
theories/Capture.vos theories/Capture.vok theories/Capture.required_vos: theories/Capture.v theories/Base.vos
theories/CaptureProofs.vo theories/CaptureProofs.glob theories/CaptureProofs.v.beautified theories/CaptureProofs.required_vo: theories/CaptureProofs.v theories/Base.vo theories/Capture.vo
theories/CaptureProofs.vio: theories/CaptureProofs.v theories/Base.vio theories/Capture.vio
theories/CaptureProofs.vos theories/CaptureProofs.vok theories/CaptureProofs.required_vos: theories/CaptureProofs.v theories/Base.vos theories/Capture.vos
theories/Config.vo theories/Config.glob theories/Config.v.beautified theories/Config.required_vo: theories/Config.v theories/Base.vo theories/UStr.vo theories/ConfigTypes.vo theories/UserData.vo gen/ConfigTables.vo
theories/Config.vio: theories/Config.v theories/Base.vio theories/UStr.vio theories/ConfigTypes.vio theories/UserData.vio gen/ConfigTables.vio
theories/Config.vos theories/Config.vok theories/Config.required_vos: theories/Config.v theories/Base.vos theories/UStr.vos theories/ConfigTypes.vos theories/UserData.vos gen/ConfigTables.vos
theories/ConfigProofs.vo theories/ConfigProofs.glob theories/ConfigProofs.v.beautified theories/ConfigProofs.required_vo: theories/ConfigProofs.v theories/Base.vo theories/UStr.vo theories/ConfigTypes.vo theories/UserData.vo theories/Config.vo gen/ConfigTables.vo
theories/ConfigProofs.vio: theories/ConfigProofs.v theories/Base.vio theories/UStr.vio theories/ConfigTypes.vio theories/UserData.vio theories/Config.vio gen/ConfigTables.vio
theories/ConfigProofs.vos theories/ConfigProofs.vok theories/ConfigProofs.required_vos: theories/ConfigProofs.v theories/Base.vos theories/UStr.vos theories/ConfigTypes.vos theories/UserData.vos theories/Config.vos gen/ConfigTables.vos
theories/ConfigTagsProofs.vo theories/ConfigTagsProofs.glob theories/ConfigTagsProofs.v.beautified theories/ConfigTagsProofs.required_vo: theories/ConfigTagsProofs.v theories/Base.vo theories/UStr.vo theories/ConfigTypes.vo theories/Config.vo theories/ConfigProofs.vo
theories/ConfigTagsProofs.vio: theories/ConfigTagsProofs.v theories/Base.vio theories/UStr.vio theories/ConfigTypes.vio theories/Config.vio theories/ConfigProofs.vio
theories/ConfigTagsProofs.vos theories/ConfigTagsProofs.vok theories/ConfigTagsProofs.required_vos: theories/ConfigTagsProofs.v theories/Base.vos theories/UStr.vos theories/ConfigTypes.vos theories/Config.vos theories/ConfigProofs.vos
theories/ConfigTypes.vo theories/ConfigTypes.glob theories/ConfigTypes.v.beautified theories/ConfigTypes.required_vo: theories/ConfigTypes.v theories/Base.vo
theories/ConfigTypes.vio: theories/ConfigTypes.v theories/Base.vio
theories/ConfigTypes.vos theories/ConfigTypes.vok theories/ConfigTypes.required_vos: theories/ConfigTypes.v theories/Base.vos
theories/Context.vo theories/Context.glob theories/Context.v.beautified theories/Context.required_vo: theories/Context.v theories/Base.vo
theories/Context.vio: theories/Context.v theories/Base.vio
theories/Context.vos theories/Context.vok theories/Context.required_vos: theories/Context.v theories/Base.vos
theories/ContextProofs.vo theories/ContextProofs.glob theories/ContextProofs.v.beautified theories/ContextProofs.required_vo: theories/ContextProofs.v theories/Base.vo theories/Context.vo
theories/ContextProofs.vio: theories/ContextProofs.v theories/Base.vio theories/Context.vio
theories/ContextProofs.vos theories/ContextProofs.vok theories/ContextProofs.required_vos: theories/ContextProofs.v theories/Base.vos theories/Context.vos
theories/Formatters.vo theories/Formatters.glob theories/Formatters.v.beautified theories/Formatters.required_vo: theories/Formatters.v theories/Base.vo theories/Status.vo theories/Rollup.vo theories/Runner.vo gen/StatusTable.vo
theories/Formatters.vio: theories/Formatters.v theories/Base.vio theories/Status.vio theories/Rollup.vio theories/Runner.vio gen/StatusTable.vio
theories/Formatters.vos theories/Formatters.vok theories/Formatters.required_vos: theories/Formatters.v theories/Base.vos theories/Status.vos theories/Rollup.vos theories/Runner.vos gen/StatusTable.vos
theories/FormattersProofs.vo theories/FormattersProofs.glob theories/FormattersProofs.v.beautified theories/FormattersProofs.required_vo: theories/FormattersProofs.v theories/Base.vo theories/Status.vo theories/Rollup.vo theories/Runner.vo theories/RunnerSteps.vo theories/RunnerQuiet.vo theories/Formatters.vo gen/StatusTable.vo
theories/FormattersProofs.vio: theories/FormattersProofs.v theories/Base.vio theories/Status.vio theories/Rollup.vio theories/Runner.vio theories/RunnerSteps.vio theories/RunnerQuiet.vio theories/Formatters.vio gen/StatusTable.vio
theories/FormattersProofs.vos theories/FormattersProofs.vok theories/FormattersProofs.required_vos: theories/FormattersProofs.v theories/Base.vos theories/Status.vos theories/Rollup.vos theories/Runner.vos theories/RunnerSteps.vos theories/RunnerQuiet.vos theories/Formatters.vos gen/StatusTable.vos
theories/Gherkin.vo theories/Gherkin.glob theories/Gherkin.v.beautified theories/Gherkin.required_vo: theories/Gherkin.v theories/Base.vo theories/UStr.vo theories/GherkinTypes.vo gen/UnicodeTables.vo gen/GherkinTables.vo
theories/Gherkin.vio: theories/Gherkin.v theories/Base.vio theories/UStr.vio theories/GherkinTypes.vio gen/UnicodeTables.vio gen/GherkinTables.vio
theories/Gherkin.vos theories/Gherkin.vok theories/Gherkin.required_vos: theories/Gherkin.v theories/Base.vos theories/UStr.vos theories/GherkinTypes.vos gen/UnicodeTables.vos gen/GherkinTables.vos
theories/GherkinBlockProofs.vo theories/GherkinBlockProofs.glob theories/GherkinBlockProofs.v.beautified theories/GherkinBlockProofs.required_vo: theories/GherkinBlockProofs.v theories/Base.vo theories/UStr.vo theories/GherkinTypes.vo theories/Gherkin.vo theories/GherkinProofs.vo
theories/GherkinBlockProofs.vio: theories/GherkinBlockProofs.v theories/Base.vio theories/UStr.vio theories/GherkinTypes.vio theories/Gherkin.vio theories/GherkinProofs.vio
theories/GherkinBlockProofs.vos theories/GherkinBlockProofs.vok theories/GherkinBlockProofs.required_vos: theories/GherkinBlockProofs.v theories/Base.vos theories/UStr.vos theories/GherkinTypes.vos theories/Gherkin.vos theories/GherkinProofs.vos
theories/GherkinDocProofs.vo theories/GherkinDocProofs.glob theories/GherkinDocProofs.v.beautified theories/GherkinDocProofs.required_vo: theories/GherkinDocProofs.v theories/Base.vo theories/UStr.vo theories/GherkinTypes.vo theories/Gherkin.vo theories/GherkinProofs.vo theories/GherkinBlockProofs.vo
theories/GherkinDocProofs.vio: theories/GherkinDocProofs.v theories/Base.vio theories/UStr.vio theories/GherkinTypes.vio theories/Gherkin.vio theories/GherkinProofs.vio theories/GherkinBlockProofs.vio
theories/GherkinDocProofs.vos theories/GherkinDocProofs.vok theories/GherkinDocProofs.required_vos: theories/GherkinDocProofs.v theories/Base.vos theories/UStr.vos theories/GherkinTypes.vos theories/Gherkin.vos theories/GherkinProofs.vos theories/GherkinBlockProofs.vos
theories/GherkinProofs.vo theories/GherkinProofs.glob theories/GherkinProofs.v.beautified theories/GherkinProofs.required_vo: theories/GherkinProofs.v theories/Base.vo theories/UStr.vo theories/GherkinTypes.vo theories/Gherkin.vo gen/UnicodeTables.vo gen/GherkinTables.vo
theories/GherkinProofs.vio: theories/GherkinProofs.v theories/Base.vio theories/UStr.vio theories/GherkinTypes.vio theories/Gherkin.vio gen/UnicodeTables.vio gen/GherkinTables.vio
theories/GherkinProofs.vos theories/GherkinProofs.vok theories/GherkinProofs.required_vos: theories/GherkinProofs.v theories/Base.vos theories/UStr.vos theories/GherkinTypes.vos theories/Gherkin.vos gen/UnicodeTables.vos gen/GherkinTables.vos
theories/GherkinRichProofs.vo theories/GherkinRichProofs.glob theories/GherkinRichProofs.v.beautified theories/GherkinRichProofs.required_vo: theories/GherkinRichProofs.v theories/Base.vo theories/UStr.vo theories/GherkinTypes.vo theories/Gherkin.vo theories/GherkinProofs.vo theories/GherkinRowProofs.vo theories/GherkinBlockProofs.vo theories/GherkinTagProofs.vo theories/GherkinTableProofs.vo theories/GherkinDocProofs.vo
theories/GherkinRichProofs.vio: theories/GherkinRichProofs.v theories/Base.vio theories/UStr.vio theories/GherkinTypes.vio theories/Gherkin.vio theories/GherkinProofs.vio theories/GherkinRowProofs.vio theories/GherkinBlockProofs.vio theories/GherkinTagProofs.vio theories/GherkinTableProofs.vio theories/GherkinDocProofs.vio
theories/GherkinRichProofs.vos theories/GherkinRichProofs.vok theories/GherkinRichProofs.required_vos: theories/GherkinRichProofs.v theories/Base.vos theories/UStr.vos theories/GherkinTypes.vos theories/Gherkin.vos theories/GherkinProofs.vos theories/GherkinRowProofs.vos theories/GherkinBlockProofs.vos theories/GherkinTagProofs.vos theories/GherkinTableProofs.vos theories/GherkinDocProofs.vos
theories/GherkinRowProofs.vo theories/GherkinRowProofs.glob theories/GherkinRowProofs.v.beautified theories/GherkinRowProofs.required_vo: theories/GherkinRowProofs.v theories/Base.vo theories/UStr.vo theories/GherkinTypes.vo theories/Gherkin.vo theories/UserDataProofs.vo
theories/GherkinRowProofs.vio: theories/GherkinRowProofs.v theories/Base.vio theories/UStr.vio theories/GherkinTypes.vio theories/Gherkin.vio theories/UserDataProofs.vio
theories/GherkinRowProofs.vos theories/GherkinRowProofs.vok theories/GherkinRowProofs.required_vos: theories/GherkinRowProofs.v theories/Base.vos theories/UStr.vos theories/GherkinTypes.vos theories/Gherkin.vos theories/UserDataProofs.vos
theories/GherkinTableProofs.vo theories/GherkinTableProofs.glob theories/GherkinTableProofs.v.beautified theories/GherkinTableProofs.required_vo: theories/GherkinTableProofs.v theories/Base.vo theories/UStr.vo theories/GherkinTypes.vo theories/Gherkin.vo theories/GherkinProofs.vo theories/GherkinRowProofs.vo theories/GherkinBlockProofs.vo theories/GherkinTagProofs.vo
theories/GherkinTableProofs.vio: theories/GherkinTableProofs.v theories/Base.vio theories/UStr.vio theories/GherkinTypes.vio theories/Gherkin.vio theories/GherkinProofs.vio theories/GherkinRowProofs.vio theories/GherkinBlockProofs.vio theories/GherkinTagProofs.vio
theories/GherkinTableProofs.vos theories/GherkinTableProofs.vok theories/GherkinTableProofs.required_vos: theories/GherkinTableProofs.v theories/Base.vos theories/UStr.vos theories/GherkinTypes.vos theories/Gherkin.vos theories/GherkinProofs.vos theories/GherkinRowProofs.vos theories/GherkinBlockProofs.vos theories/GherkinTagProofs.vos
theories/GherkinTagProofs.vo theories/GherkinTagProofs.glob theories/GherkinTagProofs.v.beautified theories/GherkinTagProofs.required_vo: theories/GherkinTagProofs.v theories/Base.vo theories/UStr.vo theories/GherkinTypes.vo theories/Gherkin.vo theories/GherkinProofs.vo theories/GherkinBlockProofs.vo
theories/GherkinTagProofs.vio: theories/GherkinTagProofs.v theories/Base.vio theories/UStr.vio theories/GherkinTypes.vio theories/Gherkin.vio theories/GherkinProofs.vio theories/GherkinBlockProofs.vio
theories/GherkinTagProofs.vos theories/GherkinTagProofs.vok theories/GherkinTagProofs.required_vos: theories/GherkinTagProofs.v theories/Base.vos theories/UStr.vos theories/GherkinTypes.vos theories/Gherkin.vos theories/GherkinProofs.vos theories/GherkinBlockProofs.vos
theories/GherkinTypes.vo theories/GherkinTypes.glob theories/GherkinTypes.v.beautified theories/GherkinTypes.required_vo: theories/GherkinTypes.v theories/Base.vo
theories/GherkinTypes.vio: theories/GherkinTypes.v theories/Base.vio
theories/GherkinTypes.vos theories/GherkinTypes.vok theories/GherkinTypes.required_vos: theories/GherkinTypes.v theories/Base.vos
theories/JUnit.vo theories/JUnit.glob theories/JUnit.v.beautified theories/JUnit.required_vo: theories/JUnit.v theories/Base.vo theories/UStr.vo theories/Status.vo gen/StatusTable.vo gen/JUnitTables.vo
theories/JUnit.vio: theories/JUnit.v theories/Base.vio theories/UStr.vio theories/Status.vio gen/StatusTable.vio gen/JUnitTables.vio
theories/JUnit.vos theories/JUnit.vok theories/JUnit.required_vos: theories/JUnit.v theories/Base.vos theories/UStr.vos theories/Status.vos gen/StatusTable.vos gen/JUnitTables.vos
theories/JUnitProofs.vo theories/JUnitProofs.glob theories/JUnitProofs.v.beautified theories/JUnitProofs.required_vo: theories/JUnitProofs.v theories/Base.vo theories/UStr.vo theories/Status.vo theories/JUnit.vo gen/StatusTable.vo gen/JUnitTables.vo
theories/JUnitProofs.vio: theories/JUnitProofs.v theories/Base.vio theories/UStr.vio theories/Status.vio theories/JUnit.vio gen/StatusTable.vio gen/JUnitTables.vio
theories/JUnitProofs.vos theories/JUnitProofs.vok theories/JUnitProofs.required_vos: theories/JUnitProofs.v theories/Base.vos theories/UStr.vos theories/Status.vos theories/JUnit.vos gen/StatusTable.vos gen/JUnitTables.vos
theories/Outline.vo theories/Outline.glob theories/Outline.v.beautified theories/Outline.required_vo: theories/Outline.v theories/Base.vo theories/UStr.vo gen/UnicodeTables.vo gen/OutlineTables.vo
theories/Outline.vio: theories/Outline.v theories/Base.vio theories/UStr.vio gen/UnicodeTables.vio gen/OutlineTables.vio
theories/Outline.vos theories/Outline.vok theories/Outline.required_vos: theories/Outline.v theories/Base.vos theories/UStr.vos gen/UnicodeTables.vos gen/OutlineTables.vos
theories/OutlineProofs.vo theories/OutlineProofs.glob theories/OutlineProofs.v.beautified theories/OutlineProofs.required_vo: theories/OutlineProofs.v theories/Base.vo theories/UStr.vo theories/Outline.vo gen/UnicodeTables.vo gen/OutlineTables.vo
theories/OutlineProofs.vio: theories/OutlineProofs.v theories/Base.vio theories/UStr.vio theories/Outline.vio gen/UnicodeTables.vio gen/OutlineTables.vio
theories/OutlineProofs.vos theories/OutlineProofs.vok theories/OutlineProofs.required_vos: theories/OutlineProofs.v theories/Base.vos theories/UStr.vos theories/Outline.vos gen/UnicodeTables.vos gen/OutlineTables.vos
theories/Protocol.vo theories/Protocol.glob theories/Protocol.v.beautified theories/Protocol.required_vo: theories/Protocol.v theories/Base.vo theories/Status.vo theories/Rollup.vo theories/Runner.vo theories/RunnerSteps.vo theories/RunnerQuiet.vo theories/Formatters.vo theories/FormattersProofs.vo gen/StatusTable.vo
theories/Protocol.vio: theories/Protocol.v theories/Base.vio theories/Status.vio theories/Rollup.vio theories/Runner.vio theories/RunnerSteps.vio theories/RunnerQuiet.vio theories/Formatters.vio theories/FormattersProofs.vio gen/StatusTable.vio
theories/Protocol.vos theories/Protocol.vok theories/Protocol.required_vos: theories/Protocol.v theories/Base.vos theories/Status.vos theories/Rollup.vos theories/Runner.vos theories/RunnerSteps.vos theories/RunnerQuiet.vos theories/Formatters.vos theories/FormattersProofs.vos gen/StatusTable.vos
theories/Regex.vo theories/Regex.glob theories/Regex.v.beautified theories/Regex.required_vo: theories/Regex.v theories/Base.vo theories/UStr.vo theories/StepMatch.vo
theories/Regex.vio: theories/Regex.v theories/Base.vio theories/UStr.vio theories/StepMatch.vio
theories/Regex.vos theories/Regex.vok theories/Regex.required_vos: theories/Regex.v theories/Base.vos theories/UStr.vos theories/StepMatch.vos
theories/RegexProofs.vo theories/RegexProofs.glob theories/RegexProofs.v.beautified theories/RegexProofs.required_vo: theories/RegexProofs.v theories/Base.vo theories/UStr.vo theories/StepMatch.vo theories/Regex.vo
theories/RegexProofs.vio: theories/RegexProofs.v theories/Base.vio theories/UStr.vio theories/StepMatch.vio theories/Regex.vio
theories/RegexProofs.vos theories/RegexProofs.vok theories/RegexProofs.required_vos: theories/RegexProofs.v theories/Base.vos theories/UStr.vos theories/StepMatch.vos theories/Regex.vos
theories/Rerun.vo theories/Rerun.glob theories/Rerun.v.beautified theories/Rerun.required_vo: theories/Rerun.v theories/Base.vo theories/Status.vo theories/Rollup.vo theories/Runner.vo theories/Summary.vo theories/Select.vo theories/SelectProofs.vo gen/StatusTable.vo
theories/Rerun.vio: theories/Rerun.v theories/Base.vio theories/Status.vio theories/Rollup.vio theories/Runner.vio theories/Summary.vio theories/Select.vio theories/SelectProofs.vio gen/StatusTable.vio
theories/Rerun.vos theories/Rerun.vok theories/Rerun.required_vos: theories/Rerun.v theories/Base.vos theories/Status.vos theories/Rollup.vos theories/Runner.vos theories/Summary.vos theories/Select.vos theories/SelectProofs.vos gen/StatusTable.vos
theories/RerunMore.vo theories/RerunMore.glob theories/RerunMore.v.beautified theories/RerunMore.required_vo: theories/RerunMore.v theories/Base.vo theories/Status.vo theories/Rollup.vo theories/Runner.vo theories/RunnerSteps.vo theories/Summary.vo theories/Select.vo theories/SelectProofs.vo theories/Rerun.vo gen/StatusTable.vo
theories/RerunMore.vio: theories/RerunMore.v theories/Base.vio theories/Status.vio theories/Rollup.vio theories/Runner.vio theories/RunnerSteps.vio theories/Summary.vio theories/Select.vio theories/SelectProofs.vio theories/Rerun.vio gen/StatusTable.vio
theories/RerunMore.vos theories/RerunMore.vok theories/RerunMore.required_vos: theories/RerunMore.v theories/Base.vos theories/Status.vos theories/Rollup.vos theories/Runner.vos theories/RunnerSteps.vos theories/Summary.vos theories/Select.vos theories/SelectProofs.vos theories/Rerun.vos gen/StatusTable.vos
theories/Rollup.vo theories/Rollup.glob theories/Rollup.v.beautified theories/Rollup.required_vo: theories/Rollup.v theories/Base.vo theories/Status.vo gen/StatusTable.vo
theories/Rollup.vio: theories/Rollup.v theories/Base.vio theories/Status.vio gen/StatusTable.vio
theories/Rollup.vos theories/Rollup.vok theories/Rollup.required_vos: theories/Rollup.v theories/Base.vos theories/Status.vos gen/StatusTable.vos
theories/RollupProofs.vo theories/RollupProofs.glob theories/RollupProofs.v.beautified theories/RollupProofs.required_vo: theories/RollupProofs.v theories/Base.vo theories/Status.vo theories/Rollup.vo gen/StatusTable.vo
theories/RollupProofs.vio: theories/RollupProofs.v theories/Base.vio theories/Status.vio theories/Rollup.vio gen/StatusTable.vio
theories/RollupProofs.vos theories/RollupProofs.vok theories/RollupProofs.required_vos: theories/RollupProofs.v theories/Base.vos theories/Status.vos theories/Rollup.vos gen/StatusTable.vos
theories/Runner.vo theories/Runner.glob theories/Runner.v.beautified theories/Runner.required_vo: theories/Runner.v theories/Base.vo theories/Status.vo theories/Rollup.vo gen/StatusTable.vo
theories/Runner.vio: theories/Runner.v theories/Base.vio theories/Status.vio theories/Rollup.vio gen/StatusTable.vio
theories/Runner.vos theories/Runner.vok theories/Runner.required_vos: theories/Runner.v theories/Base.vos theories/Status.vos theories/Rollup.vos gen/StatusTable.vos
theories/RunnerEq.vo theories/RunnerEq.glob theories/RunnerEq.v.beautified theories/RunnerEq.required_vo: theories/RunnerEq.v theories/Base.vo theories/Status.vo theories/Rollup.vo theories/Runner.vo
theories/RunnerEq.vio: theories/RunnerEq.v theories/Base.vio theories/Status.vio theories/Rollup.vio theories/Runner.vio
theories/RunnerEq.vos theories/RunnerEq.vok theories/RunnerEq.required_vos: theories/RunnerEq.v theories/Base.vos theories/Status.vos theories/Rollup.vos theories/Runner.vos
theories/RunnerHooks.vo theories/RunnerHooks.glob theories/RunnerHooks.v.beautified theories/RunnerHooks.required_vo: theories/RunnerHooks.v theories/Base.vo theories/Status.vo theories/Rollup.vo theories/Runner.vo theories/RunnerSteps.vo theories/RunnerQuiet.vo gen/StatusTable.vo
theories/RunnerHooks.vio: theories/RunnerHooks.v theories/Base.vio theories/Status.vio theories/Rollup.vio theories/Runner.vio theories/RunnerSteps.vio theories/RunnerQuiet.vio gen/StatusTable.vio
theories/RunnerHooks.vos theories/RunnerHooks.vok theories/RunnerHooks.required_vos: theories/RunnerHooks.v theories/Base.vos theories/Status.vos theories/Rollup.vos theories/Runner.vos theories/RunnerSteps.vos theories/RunnerQuiet.vos gen/StatusTable.vos
theories/RunnerLocal.vo theories/RunnerLocal.glob theories/RunnerLocal.v.beautified theories/RunnerLocal.required_vo: theories/RunnerLocal.v theories/Base.vo theories/Status.vo theories/Rollup.vo theories/Runner.vo theories/RunnerQuiet.vo theories/RunnerHooks.vo gen/StatusTable.vo
theories/RunnerLocal.vio: theories/RunnerLocal.v theories/Base.vio theories/Status.vio theories/Rollup.vio theories/Runner.vio theories/RunnerQuiet.vio theories/RunnerHooks.vio gen/StatusTable.vio
theories/RunnerLocal.vos theories/RunnerLocal.vok theories/RunnerLocal.required_vos: theories/RunnerLocal.v theories/Base.vos theories/Status.vos theories/Rollup.vos theories/Runner.vos theories/RunnerQuiet.vos theories/RunnerHooks.vos gen/StatusTable.vos
theories/RunnerOrder.vo theories/RunnerOrder.glob theories/RunnerOrder.v.beautified theories/RunnerOrder.required_vo: theories/RunnerOrder.v theories/Base.vo theories/Status.vo theories/Rollup.vo theories/Runner.vo theories/RunnerSteps.vo theories/RunnerQuiet.vo theories/RunnerHooks.vo gen/StatusTable.vo
theories/RunnerOrder.vio: theories/RunnerOrder.v theories/Base.vio theories/Status.vio theories/Rollup.vio theories/Runner.vio theories/RunnerSteps.vio theories/RunnerQuiet.vio theories/RunnerHooks.vio gen/StatusTable.vio
theories/RunnerOrder.vos theories/RunnerOrder.vok theories/RunnerOrder.required_vos: theories/RunnerOrder.v theories/Base.vos theories/Status.vos theories/Rollup.vos theories/Runner.vos theories/RunnerSteps.vos theories/RunnerQuiet.vos theories/RunnerHooks.vos gen/StatusTable.vos
theories/RunnerQuiet.vo theories/RunnerQuiet.glob theories/RunnerQuiet.v.beautified theories/RunnerQuiet.required_vo: theories/RunnerQuiet.v theories/Base.vo theories/Status.vo theories/Rollup.vo theories/Runner.vo theories/RunnerSteps.vo theories/RunnerVerdict.vo gen/StatusTable.vo
theories/RunnerQuiet.vio: theories/RunnerQuiet.v theories/Base.vio theories/Status.vio theories/Rollup.vio theories/Runner.vio theories/RunnerSteps.vio theories/RunnerVerdict.vio gen/StatusTable.vio
theories/RunnerQuiet.vos theories/RunnerQuiet.vok theories/RunnerQuiet.required_vos: theories/RunnerQuiet.v theories/Base.vos theories/Status.vos theories/Rollup.vos theories/Runner.vos theories/RunnerSteps.vos theories/RunnerVerdict.vos gen/StatusTable.vos
theories/RunnerRange.vo theories/RunnerRange.glob theories/RunnerRange.v.beautified theories/RunnerRange.required_vo: theories/RunnerRange.v theories/Base.vo theories/Status.vo theories/Rollup.vo theories/RollupProofs.vo theories/Runner.vo theories/RunnerSteps.vo gen/StatusTable.vo
theories/RunnerRange.vio: theories/RunnerRange.v theories/Base.vio theories/Status.vio theories/Rollup.vio theories/RollupProofs.vio theories/Runner.vio theories/RunnerSteps.vio gen/StatusTable.vio
theories/RunnerRange.vos theories/RunnerRange.vok theories/RunnerRange.required_vos: theories/RunnerRange.v theories/Base.vos theories/Status.vos theories/Rollup.vos theories/RollupProofs.vos theories/Runner.vos theories/RunnerSteps.vos gen/StatusTable.vos
theories/RunnerSelect.vo theories/RunnerSelect.glob theories/RunnerSelect.v.beautified theories/RunnerSelect.required_vo: theories/RunnerSelect.v theories/Base.vo theories/Status.vo theories/Rollup.vo theories/RollupProofs.vo theories/Runner.vo theories/RunnerSteps.vo theories/RunnerQuiet.vo gen/StatusTable.vo
theories/RunnerSelect.vio: theories/RunnerSelect.v theories/Base.vio theories/Status.vio theories/Rollup.vio theories/RollupProofs.vio theories/Runner.vio theories/RunnerSteps.vio theories/RunnerQuiet.vio gen/StatusTable.vio
theories/RunnerSelect.vos theories/RunnerSelect.vok theories/RunnerSelect.required_vos: theories/RunnerSelect.v theories/Base.vos theories/Status.vos theories/Rollup.vos theories/RollupProofs.vos theories/Runner.vos theories/RunnerSteps.vos theories/RunnerQuiet.vos gen/StatusTable.vos
theories/RunnerSelectMore.vo theories/RunnerSelectMore.glob theories/RunnerSelectMore.v.beautified theories/RunnerSelectMore.required_vo: theories/RunnerSelectMore.v theories/Base.vo theories/Status.vo theories/Rollup.vo theories/RollupProofs.vo theories/Runner.vo theories/RunnerSteps.vo theories/RunnerQuiet.vo theories/RunnerSelect.vo theories/RunnerLocal.vo gen/StatusTable.vo
theories/RunnerSelectMore.vio: theories/RunnerSelectMore.v theories/Base.vio theories/Status.vio theories/Rollup.vio theories/RollupProofs.vio theories/Runner.vio theories/RunnerSteps.vio theories/RunnerQuiet.vio theories/RunnerSelect.vio theories/RunnerLocal.vio gen/StatusTable.vio
theories/RunnerSelectMore.vos theories/RunnerSelectMore.vok theories/RunnerSelectMore.required_vos: theories/RunnerSelectMore.v theories/Base.vos theories/Status.vos theories/Rollup.vos theories/RollupProofs.vos theories/Runner.vos theories/RunnerSteps.vos theories/RunnerQuiet.vos theories/RunnerSelect.vos theories/RunnerLocal.vos gen/StatusTable.vos
theories/RunnerSteps.vo theories/RunnerSteps.glob theories/RunnerSteps.v.beautified theories/RunnerSteps.required_vo: theories/RunnerSteps.v theories/Base.vo theories/Status.vo theories/Rollup.vo theories/Runner.vo gen/StatusTable.vo
theories/RunnerSteps.vio: theories/RunnerSteps.v theories/Base.vio theories/Status.vio theories/Rollup.vio theories/Runner.vio gen/StatusTable.vio
theories/RunnerSteps.vos theories/RunnerSteps.vok theories/RunnerSteps.required_vos: theories/RunnerSteps.v theories/Base.vos theories/Status.vos theories/Rollup.vos theories/Runner.vos gen/StatusTable.vos
theories/RunnerVerdict.vo theories/RunnerVerdict.glob theories/RunnerVerdict.v.beautified theories/RunnerVerdict.required_vo: theories/RunnerVerdict.v theories/Base.vo theories/Status.vo theories/Rollup.vo theories/Runner.vo gen/StatusTable.vo
theories/RunnerVerdict.vio: theories/RunnerVerdict.v theories/Base.vio theories/Status.vio theories/Rollup.vio theories/Runner.vio gen/StatusTable.vio
theories/RunnerVerdict.vos theories/RunnerVerdict.vok theories/RunnerVerdict.required_vos: theories/RunnerVerdict.v theories/Base.vos theories/Status.vos theories/Rollup.vos theories/Runner.vos gen/StatusTable.vos
theories/Select.vo theories/Select.glob theories/Select.v.beautified theories/Select.required_vo: theories/Select.v theories/Base.vo
theories/Select.vio: theories/Select.v theories/Base.vio
theories/Select.vos theories/Select.vok theories/Select.required_vos: theories/Select.v theories/Base.vos
theories/SelectProofs.vo theories/SelectProofs.glob theories/SelectProofs.v.beautified theories/SelectProofs.required_vo: theories/SelectProofs.v theories/Base.vo theories/Select.vo
theories/SelectProofs.vio: theories/SelectProofs.v theories/Base.vio theories/Select.vio
theories/SelectProofs.vos theories/SelectProofs.vok theories/SelectProofs.required_vos: theories/SelectProofs.v theories/Base.vos theories/Select.vos
theories/Status.vo theories/Status.glob theories/Status.v.beautified theories/Status.required_vo: theories/Status.v theories/Base.vo
theories/Status.vio: theories/Status.v theories/Base.vio
theories/Status.vos theories/Status.vok theories/Status.required_vos: theories/Status.v theories/Base.vos
theories/StepMatch.vo theories/StepMatch.glob theories/StepMatch.v.beautified theories/StepMatch.required_vo: theories/StepMatch.v theories/Base.vo theories/UStr.vo gen/UnicodeTables.vo gen/ActiveTagTables.vo
theories/StepMatch.vio: theories/StepMatch.v theories/Base.vio theories/UStr.vio gen/UnicodeTables.vio gen/ActiveTagTables.vio
theories/StepMatch.vos theories/StepMatch.vok theories/StepMatch.required_vos: theories/StepMatch.v theories/Base.vos theories/UStr.vos gen/UnicodeTables.vos gen/ActiveTagTables.vos
theories/StepMatchProofs.vo theories/StepMatchProofs.glob theories/StepMatchProofs.v.beautified theories/StepMatchProofs.required_vo: theories/StepMatchProofs.v theories/Base.vo theories/UStr.vo theories/StepMatch.vo
theories/StepMatchProofs.vio: theories/StepMatchProofs.v theories/Base.vio theories/UStr.vio theories/StepMatch.vio
theories/StepMatchProofs.vos theories/StepMatchProofs.vok theories/StepMatchProofs.required_vos: theories/StepMatchProofs.v theories/Base.vos theories/UStr.vos theories/StepMatch.vos
theories/Summary.vo theories/Summary.glob theories/Summary.v.beautified theories/Summary.required_vo: theories/Summary.v theories/Base.vo theories/Status.vo theories/Rollup.vo theories/Runner.vo gen/StatusTable.vo gen/SummaryTables.vo
theories/Summary.vio: theories/Summary.v theories/Base.vio theories/Status.vio theories/Rollup.vio theories/Runner.vio gen/StatusTable.vio gen/SummaryTables.vio
theories/Summary.vos theories/Summary.vok theories/Summary.required_vos: theories/Summary.v theories/Base.vos theories/Status.vos theories/Rollup.vos theories/Runner.vos gen/StatusTable.vos gen/SummaryTables.vos
theories/SummaryProofs.vo theories/SummaryProofs.glob theories/SummaryProofs.v.beautified theories/SummaryProofs.required_vo: theories/SummaryProofs.v theories/Base.vo theories/Status.vo theories/Rollup.vo theories/RollupProofs.vo theories/Runner.vo theories/RunnerRange.vo theories/Summary.vo gen/StatusTable.vo gen/SummaryTables.vo
theories/SummaryProofs.vio: theories/SummaryProofs.v theories/Base.vio theories/Status.vio theories/Rollup.vio theories/RollupProofs.vio theories/Runner.vio theories/RunnerRange.vio theories/Summary.vio gen/StatusTable.vio gen/SummaryTables.vio
theories/SummaryProofs.vos theories/SummaryProofs.vok theories/SummaryProofs.required_vos: theories/SummaryProofs.v theories/Base.vos theories/Status.vos theories/Rollup.vos theories/RollupProofs.vos theories/Runner.vos theories/RunnerRange.vos theories/Summary.vos gen/StatusTable.vos gen/SummaryTables.vos
theories/TagExpr.vo theories/TagExpr.glob theories/TagExpr.v.beautified theories/TagExpr.required_vo: theories/TagExpr.v theories/Base.vo theories/UStr.vo gen/UnicodeTables.vo
theories/TagExpr.vio: theories/TagExpr.v theories/Base.vio theories/UStr.vio gen/UnicodeTables.vio
theories/TagExpr.vos theories/TagExpr.vok theories/TagExpr.required_vos: theories/TagExpr.v theories/Base.vos theories/UStr.vos gen/UnicodeTables.vos
theories/TagExprParseProofs.vo theories/TagExprParseProofs.glob theories/TagExprParseProofs.v.beautified theories/TagExprParseProofs.required_vo: theories/TagExprParseProofs.v theories/Base.vo theories/UStr.vo theories/TagExpr.vo theories/TagExprProofs.vo
theories/TagExprParseProofs.vio: theories/TagExprParseProofs.v theories/Base.vio theories/UStr.vio theories/TagExpr.vio theories/TagExprProofs.vio
theories/TagExprParseProofs.vos theories/TagExprParseProofs.vok theories/TagExprParseProofs.required_vos: theories/TagExprParseProofs.v theories/Base.vos theories/UStr.vos theories/TagExpr.vos theories/TagExprProofs.vos
theories/TagExprProofs.vo theories/TagExprProofs.glob theories/TagExprProofs.v.beautified theories/TagExprProofs.required_vo: theories/TagExprProofs.v theories/Base.vo theories/UStr.vo theories/TagExpr.vo gen/UnicodeTables.vo
theories/TagExprProofs.vio: theories/TagExprProofs.v theories/Base.vio theories/UStr.vio theories/TagExpr.vio gen/UnicodeTables.vio
theories/TagExprProofs.vos theories/TagExprProofs.vok theories/TagExprProofs.required_vos: theories/TagExprProofs.v theories/Base.vos theories/UStr.vos theories/TagExpr.vos gen/UnicodeTables.vos
theories/UStr.vo theories/UStr.glob theories/UStr.v.beautified theories/UStr.required_vo: theories/UStr.v theories/Base.vo gen/UnicodeTables.vo
theories/UStr.vio: theories/UStr.v theories/Base.vio gen/UnicodeTables.vio
theories/UStr.vos theories/UStr.vok theories/UStr.required_vos: theories/UStr.v theories/Base.vos gen/UnicodeTables.vos
theories/UserData.vo theories/UserData.glob theories/UserData.v.beautified theories/UserData.required_vo: theories/UserData.v theories/Base.vo theories/UStr.vo theories/ConfigTypes.vo gen/ConfigTables.vo
theories/UserData.vio: theories/UserData.v theories/Base.vio theories/UStr.vio theories/ConfigTypes.vio gen/ConfigTables.vio
theories/UserData.vos theories/UserData.vok theories/UserData.required_vos: theories/UserData.v theories/Base.vos theories/UStr.vos theories/ConfigTypes.vos gen/ConfigTables.vos
theories/UserDataProofs.vo theories/UserDataProofs.glob theories/UserDataProofs.v.beautified theories/UserDataProofs.required_vo: theories/UserDataProofs.v theories/Base.vo theories/UStr.vo theories/ConfigTypes.vo theories/UserData.vo gen/ConfigTables.vo gen/UnicodeTables.vo
theories/UserDataProofs.vio: theories/UserDataProofs.v theories/Base.vio theories/UStr.vio theories/ConfigTypes.vio theories/UserData.vio gen/ConfigTables.vio gen/UnicodeTables.vio
theories/UserDataProofs.vos theories/UserDataProofs.vok theories/UserDataProofs.required_vos: theories/UserDataProofs.v theories/Base.vos theories/UStr.vos theories/ConfigTypes.vos theories/UserData.vos gen/ConfigTables.vos gen/UnicodeTables.vos
props/C01.vo props/C01.glob props/C01.v.beautified props/C01.required_vo: props/C01.v theories/Base.vo theories/Status.vo theories/Rollup.vo theories/Runner.vo theories/RunnerVerdict.vo theories/RunnerSteps.vo theories/RunnerQuiet.vo theories/RunnerEq.vo gen/StatusTable.vo
props/C01.vio: props/C01.v theories/Base.vio theories/Status.vio theories/Rollup.vio theories/Runner.vio theories/RunnerVerdict.vio theories/RunnerSteps.vio theories/RunnerQuiet.vio theories/RunnerEq.vio gen/StatusTable.vio
props/C01.vos props/C01.vok props/C01.required_vos: props/C01.v theories/Base.vos theories/Status.vos theories/Rollup.vos theories/Runner.vos theories/RunnerVerdict.vos theories/RunnerSteps.vos theories/RunnerQuiet.vos theories/RunnerEq.vos gen/StatusTable.vos
props/C02.vo props/C02.glob props/C02.v.beautified props/C02.required_vo: props/C02.v theories/Base.vo theories/Status.vo theories/Rollup.vo theories/Runner.vo theories/RunnerSteps.vo theories/RunnerQuiet.vo theories/RunnerEq.vo theories/RunnerOrder.vo gen/StatusTable.vo
props/C02.vio: props/C02.v theories/Base.vio theories/Status.vio theories/Rollup.vio theories/Runner.vio theories/RunnerSteps.vio theories/RunnerQuiet.vio theories/RunnerEq.vio theories/RunnerOrder.vio gen/StatusTable.vio
props/C02.vos props/C02.vok props/C02.required_vos: props/C02.v theories/Base.vos theories/Status.vos theories/Rollup.vos theories/Runner.vos theories/RunnerSteps.vos theories/RunnerQuiet.vos theories/RunnerEq.vos theories/RunnerOrder.vos gen/StatusTable.vos
props/C03.vo props/C03.glob props/C03.v.beautified props/C03.required_vo: props/C03.v theories/Base.vo theories/Status.vo theories/Rollup.vo theories/RollupProofs.vo gen/StatusTable.vo
props/C03.vio: props/C03.v theories/Base.vio theories/Status.vio theories/Rollup.vio theories/RollupProofs.vio gen/StatusTable.vio
props/C03.vos props/C03.vok props/C03.required_vos: props/C03.v theories/Base.vos theories/Status.vos theories/Rollup.vos theories/RollupProofs.vos gen/StatusTable.vos
props/C04.vo props/C04.glob props/C04.v.beautified props/C04.required_vo: props/C04.v theories/Base.vo theories/UStr.vo theories/GherkinTypes.vo theories/Gherkin.vo theories/GherkinProofs.vo theories/GherkinRowProofs.vo theories/GherkinBlockProofs.vo theories/GherkinTagProofs.vo theories/GherkinTableProofs.vo theories/GherkinDocProofs.vo theories/GherkinRichProofs.vo gen/GherkinTables.vo
props/C04.vio: props/C04.v theories/Base.vio theories/UStr.vio theories/GherkinTypes.vio theories/Gherkin.vio theories/GherkinProofs.vio theories/GherkinRowProofs.vio theories/GherkinBlockProofs.vio theories/GherkinTagProofs.vio theories/GherkinTableProofs.vio theories/GherkinDocProofs.vio theories/GherkinRichProofs.vio gen/GherkinTables.vio
props/C04.vos props/C04.vok props/C04.required_vos: props/C04.v theories/Base.vos theories/UStr.vos theories/GherkinTypes.vos theories/Gherkin.vos theories/GherkinProofs.vos theories/GherkinRowProofs.vos theories/GherkinBlockProofs.vos theories/GherkinTagProofs.vos theories/GherkinTableProofs.vos theories/GherkinDocProofs.vos theories/GherkinRichProofs.vos gen/GherkinTables.vos
props/C05.vo props/C05.glob props/C05.v.beautified props/C05.required_vo: props/C05.v theories/Base.vo theories/UStr.vo theories/GherkinTypes.vo theories/Gherkin.vo theories/GherkinProofs.vo
props/C05.vio: props/C05.v theories/Base.vio theories/UStr.vio theories/GherkinTypes.vio theories/Gherkin.vio theories/GherkinProofs.vio
props/C05.vos props/C05.vok props/C05.required_vos: props/C05.v theories/Base.vos theories/UStr.vos theories/GherkinTypes.vos theories/Gherkin.vos theories/GherkinProofs.vos
props/C06.vo props/C06.glob props/C06.v.beautified props/C06.required_vo: props/C06.v theories/Base.vo theories/UStr.vo theories/Outline.vo theories/OutlineProofs.vo
props/C06.vio: props/C06.v theories/Base.vio theories/UStr.vio theories/Outline.vio theories/OutlineProofs.vio
props/C06.vos props/C06.vok props/C06.required_vos: props/C06.v theories/Base.vos theories/UStr.vos theories/Outline.vos theories/OutlineProofs.vos
props/C07.vo props/C07.glob props/C07.v.beautified props/C07.required_vo: props/C07.v theories/Base.vo theories/UStr.vo theories/TagExpr.vo theories/TagExprProofs.vo theories/TagExprParseProofs.vo
props/C07.vio: props/C07.v theories/Base.vio theories/UStr.vio theories/TagExpr.vio theories/TagExprProofs.vio theories/TagExprParseProofs.vio
props/C07.vos props/C07.vok props/C07.required_vos: props/C07.v theories/Base.vos theories/UStr.vos theories/TagExpr.vos theories/TagExprProofs.vos theories/TagExprParseProofs.vos
props/C08.vo props/C08.glob props/C08.v.beautified props/C08.required_vo: props/C08.v theories/Base.vo theories/UStr.vo theories/TagExpr.vo theories/TagExprProofs.vo
props/C08.vio: props/C08.v theories/Base.vio theories/UStr.vio theories/TagExpr.vio theories/TagExprProofs.vio
props/C08.vos props/C08.vok props/C08.required_vos: props/C08.v theories/Base.vos theories/UStr.vos theories/TagExpr.vos theories/TagExprProofs.vos
props/C09.vo props/C09.glob props/C09.v.beautified props/C09.required_vo: props/C09.v theories/Base.vo theories/Status.vo theories/Rollup.vo theories/Runner.vo theories/RunnerSteps.vo theories/RunnerQuiet.vo theories/RunnerSelect.vo theories/RunnerEq.vo theories/RunnerSelectMore.vo gen/StatusTable.vo
props/C09.vio: props/C09.v theories/Base.vio theories/Status.vio theories/Rollup.vio theories/Runner.vio theories/RunnerSteps.vio theories/RunnerQuiet.vio theories/RunnerSelect.vio theories/RunnerEq.vio theories/RunnerSelectMore.vio gen/StatusTable.vio
props/C09.vos props/C09.vok props/C09.required_vos: props/C09.v theories/Base.vos theories/Status.vos theories/Rollup.vos theories/Runner.vos theories/RunnerSteps.vos theories/RunnerQuiet.vos theories/RunnerSelect.vos theories/RunnerEq.vos theories/RunnerSelectMore.vos gen/StatusTable.vos
props/C10.vo props/C10.glob props/C10.v.beautified props/C10.required_vo: props/C10.v theories/Base.vo theories/Select.vo theories/SelectProofs.vo
props/C10.vio: props/C10.v theories/Base.vio theories/Select.vio theories/SelectProofs.vio
props/C10.vos props/C10.vok props/C10.required_vos: props/C10.v theories/Base.vos theories/Select.vos theories/SelectProofs.vos
props/C11.vo props/C11.glob props/C11.v.beautified props/C11.required_vo: props/C11.v theories/Base.vo theories/UStr.vo theories/StepMatch.vo theories/StepMatchProofs.vo theories/Regex.vo theories/RegexProofs.vo
props/C11.vio: props/C11.v theories/Base.vio theories/UStr.vio theories/StepMatch.vio theories/StepMatchProofs.vio theories/Regex.vio theories/RegexProofs.vio
props/C11.vos props/C11.vok props/C11.required_vos: props/C11.v theories/Base.vos theories/UStr.vos theories/StepMatch.vos theories/StepMatchProofs.vos theories/Regex.vos theories/RegexProofs.vos
props/C12.vo props/C12.glob props/C12.v.beautified props/C12.required_vo: props/C12.v theories/Base.vo theories/Status.vo theories/Rollup.vo theories/Runner.vo theories/RunnerVerdict.vo theories/RunnerSteps.vo theories/RunnerQuiet.vo theories/RunnerSelect.vo theories/RunnerHooks.vo theories/RunnerEq.vo theories/RunnerLocal.vo gen/StatusTable.vo
props/C12.vio: props/C12.v theories/Base.vio theories/Status.vio theories/Rollup.vio theories/Runner.vio theories/RunnerVerdict.vio theories/RunnerSteps.vio theories/RunnerQuiet.vio theories/RunnerSelect.vio theories/RunnerHooks.vio theories/RunnerEq.vio theories/RunnerLocal.vio gen/StatusTable.vio
props/C12.vos props/C12.vok props/C12.required_vos: props/C12.v theories/Base.vos theories/Status.vos theories/Rollup.vos theories/Runner.vos theories/RunnerVerdict.vos theories/RunnerSteps.vos theories/RunnerQuiet.vos theories/RunnerSelect.vos theories/RunnerHooks.vos theories/RunnerEq.vos theories/RunnerLocal.vos gen/StatusTable.vos
props/C13.vo props/C13.glob props/C13.v.beautified props/C13.required_vo: props/C13.v theories/Base.vo theories/Context.vo theories/ContextProofs.vo
props/C13.vio: props/C13.v theories/Base.vio theories/Context.vio theories/ContextProofs.vio
props/C13.vos props/C13.vok props/C13.required_vos: props/C13.v theories/Base.vos theories/Context.vos theories/ContextProofs.vos
props/C14.vo props/C14.glob props/C14.v.beautified props/C14.required_vo: props/C14.v theories/Base.vo theories/Status.vo theories/Rollup.vo theories/Runner.vo theories/RunnerRange.vo theories/Summary.vo theories/SummaryProofs.vo theories/RunnerEq.vo gen/StatusTable.vo gen/SummaryTables.vo
props/C14.vio: props/C14.v theories/Base.vio theories/Status.vio theories/Rollup.vio theories/Runner.vio theories/RunnerRange.vio theories/Summary.vio theories/SummaryProofs.vio theories/RunnerEq.vio gen/StatusTable.vio gen/SummaryTables.vio
props/C14.vos props/C14.vok props/C14.required_vos: props/C14.v theories/Base.vos theories/Status.vos theories/Rollup.vos theories/Runner.vos theories/RunnerRange.vos theories/Summary.vos theories/SummaryProofs.vos theories/RunnerEq.vos gen/StatusTable.vos gen/SummaryTables.vos
props/C15.vo props/C15.glob props/C15.v.beautified props/C15.required_vo: props/C15.v theories/Base.vo theories/Status.vo theories/Rollup.vo theories/Runner.vo theories/RunnerSteps.vo theories/Formatters.vo theories/FormattersProofs.vo theories/Protocol.vo theories/RunnerEq.vo gen/StatusTable.vo
props/C15.vio: props/C15.v theories/Base.vio theories/Status.vio theories/Rollup.vio theories/Runner.vio theories/RunnerSteps.vio theories/Formatters.vio theories/FormattersProofs.vio theories/Protocol.vio theories/RunnerEq.vio gen/StatusTable.vio
props/C15.vos props/C15.vok props/C15.required_vos: props/C15.v theories/Base.vos theories/Status.vos theories/Rollup.vos theories/Runner.vos theories/RunnerSteps.vos theories/Formatters.vos theories/FormattersProofs.vos theories/Protocol.vos theories/RunnerEq.vos gen/StatusTable.vos
props/C16.vo props/C16.glob props/C16.v.beautified props/C16.required_vo: props/C16.v theories/Base.vo theories/UStr.vo theories/Status.vo theories/JUnit.vo theories/JUnitProofs.vo gen/StatusTable.vo gen/JUnitTables.vo
props/C16.vio: props/C16.v theories/Base.vio theories/UStr.vio theories/Status.vio theories/JUnit.vio theories/JUnitProofs.vio gen/StatusTable.vio gen/JUnitTables.vio
props/C16.vos props/C16.vok props/C16.required_vos: props/C16.v theories/Base.vos theories/UStr.vos theories/Status.vos theories/JUnit.vos theories/JUnitProofs.vos gen/StatusTable.vos gen/JUnitTables.vos
props/C17.vo props/C17.glob props/C17.v.beautified props/C17.required_vo: props/C17.v theories/Base.vo theories/Status.vo theories/Rollup.vo theories/Runner.vo theories/Summary.vo theories/Select.vo theories/SelectProofs.vo theories/Rerun.vo theories/RunnerSteps.vo theories/RerunMore.vo gen/StatusTable.vo
props/C17.vio: props/C17.v theories/Base.vio theories/Status.vio theories/Rollup.vio theories/Runner.vio theories/Summary.vio theories/Select.vio theories/SelectProofs.vio theories/Rerun.vio theories/RunnerSteps.vio theories/RerunMore.vio gen/StatusTable.vio
props/C17.vos props/C17.vok props/C17.required_vos: props/C17.v theories/Base.vos theories/Status.vos theories/Rollup.vos theories/Runner.vos theories/Summary.vos theories/Select.vos theories/SelectProofs.vos theories/Rerun.vos theories/RunnerSteps.vos theories/RerunMore.vos gen/StatusTable.vos
props/C18.vo props/C18.glob props/C18.v.beautified props/C18.required_vo: props/C18.v theories/Base.vo theories/Capture.vo theories/CaptureProofs.vo
props/C18.vio: props/C18.v theories/Base.vio theories/Capture.vio theories/CaptureProofs.vio
props/C18.vos props/C18.vok props/C18.required_vos: props/C18.v theories/Base.vos theories/Capture.vos theories/CaptureProofs.vos
props/C19.vo props/C19.glob props/C19.v.beautified props/C19.required_vo: props/C19.v theories/Base.vo theories/UStr.vo theories/ActiveTag.vo theories/ActiveTagProofs.vo
props/C19.vio: props/C19.v theories/Base.vio theories/UStr.vio theories/ActiveTag.vio theories/ActiveTagProofs.vio
props/C19.vos props/C19.vok props/C19.required_vos: props/C19.v theories/Base.vos theories/UStr.vos theories/ActiveTag.vos theories/ActiveTagProofs.vos
props/C20.vo props/C20.glob props/C20.v.beautified props/C20.required_vo: props/C20.v theories/Base.vo theories/UStr.vo theories/ConfigTypes.vo theories/UserData.vo theories/Config.vo theories/ConfigProofs.vo theories/ConfigTagsProofs.vo theories/UserDataProofs.vo gen/ConfigTables.vo
props/C20.vio: props/C20.v theories/Base.vio theories/UStr.vio theories/ConfigTypes.vio theories/UserData.vio theories/Config.vio theories/ConfigProofs.vio theories/ConfigTagsProofs.vio theories/UserDataProofs.vio gen/ConfigTables.vio
props/C20.vos props/C20.vok props/C20.required_vos: props/C20.v theories/Base.vos theories/UStr.vos theories/ConfigTypes.vos theories/UserData.vos theories/Config.vos theories/ConfigProofs.vos theories/ConfigTagsProofs.vos theories/UserDataProofs.vos gen/ConfigTables.vos
