"""debug helper: show attribute-level disagreements between Config.v and the implementation for the C20 configuration suite"""
import sys, os, re, json
sys.path.insert(0, os.path.dirname(os.path.abspath(__file__)))
sys.path.insert(0, os.path.join(os.path.dirname(os.path.abspath(__file__)), "props"))
import common
import c20


def decode(text):
    def rep(m):
        nums = re.findall(r"(\d+)%N", m.group(0))
        return json.dumps("".join(chr(int(n)) for n in nums))
    return re.sub(r"\[(?:\d+%N(?:;\s*)?)+\]", rep, text)


def main():
    tier = "quick"
    limit = int(sys.argv[1]) if len(sys.argv) > 1 else 5
    suite = c20.suites(tier, 0)[0]
    cases = suite["cases"]
    obs = common.impl_map(suite["impl"], cases)
    shown = 0
    pairs = [suite["coq"]["enc"](c, o) for c, o in zip(cases, obs)]
    idx = [i for i, p in enumerate(pairs) if p is not None]
    bad, errors = common.coq_run_cases("dbg20", c20.HEADER, "cfg_case", "res ns", "configure", "result_agrees", [pairs[i] for i in idx], shard=60)
    print("mismatches", len(bad), "errors", errors[:1])
    for b in bad[:limit]:
        i = idx[b]
        cin, cout = pairs[i]
        print("=" * 100)
        c = cases[i]
        print("files:", [(f["home"], f["name"], f["behave"], f.get("userdata")) for f in c["files"]], "argv:", c20.render_argv(c), "env:", c["env_stage"])
        if "error" in obs[i]:
            print("impl error:", obs[i])
        txt = common.coq_eval(c20.HEADER, "disagreeing (configure %s) %s" % (cin, cout))
        print("model differs on:", decode(txt)[:1500])
        if "attrs" in obs[i]:
            keys = re.findall(r'\("(\w+)",', decode(txt))
            print("impl:", {k: obs[i]["attrs"].get(k) for k in keys})


main()
