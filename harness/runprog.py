"""Drive the real behave runner on an abstract program (run cluster, DESIGN 5.7).

program := {"features": [feature], "cfg": cfg}
feature := {"id", "tags": [tag], "bg": [step] | None, "items": [item]}
item    := {"kind": "scenario", "id", "tags", "steps": [step]}
         | {"kind": "outline", "id", "tags", "steps", "examples": [{"id", "tags", "rows": n}]}
         | {"kind": "rule", "id", "tags", "bg", "items": [scenario | outline]}
step    := {"kind": KIND, "id": n}
cfg     := {"dry_run", "stop", "show_skipped", "expr": None | ["has", t] | ["not", t] | ["and"/"or", e, e],
            "hooks": [hook names], "faults": [[hook name, key]], "continue_after_failed": bool}
Names: feature F<id>, rule R<id>, scenario S<id>, outline O<id>, examples E<id>;
row scenarios get the name behave builds.  Tags are "t<n>" or "wip".
The observation never contains private attributes, only what hooks, step
functions, formatters and the public model API show.
"""
from __future__ import annotations
import io, contextlib, sys, os

KINDS = ["pass", "fail", "error", "pending", "undefined", "skip", "kbd", "abort",
         "cleanupok", "cleanupraise"]
HOOKS = ["before_all", "after_all", "before_feature", "after_feature", "before_rule", "after_rule",
         "before_scenario", "after_scenario", "before_step", "after_step", "before_tag", "after_tag"]


# ------------------------------------------------------------------ rendering
NOISE = {"F": "", "S": "", "step": ""}       # set per run from cfg["noise"]: text appended to names after " ~ "
SEP = " ~ "
EX_INDEX = {}                                # examples id -> its 1-based position among the outline's blocks that have a table


def canon(name):
    """With cfg["noise"]["tableless"] an outline also has an 'Examples:' block without a table. behave numbers rows by the
    position of their block among all blocks, the abstract program by its position among the blocks it knows: map back."""
    if NOISE.get("tableless") is None:
        return name
    import re
    return re.sub(r"@(\d+)\.(\d+) E(\d+)", lambda m: "@%d.%s E%s" % (EX_INDEX.get(int(m.group(3)), int(m.group(1))), m.group(2), m.group(3)),
                  str(name))


def noisy(kind, base):
    n = NOISE.get(kind) or ""
    return base + (SEP + n if n else "")


def noisy_step(s, base):
    """cfg["noise"]["step_mod"] = k: only steps whose id is a multiple of k carry the step noise (a background then
    has steps with and steps without a placeholder)"""
    k = NOISE.get("step_mod")
    if k and s["id"] % k:
        return base
    return noisy("step", base)


# An undefined step is written in several ways: text that resembles no definition, and near misses of the
# registered patterns "<kind> {n:d}" (wrong letter case, longer word, extra word) -- the id stays the last word.
UNDEF_FORMS = ["undefined %d", "Pass %d", "undefined %d", "FAIL %d", "passes %d", "pass x %d", "undefined %d", "eRROR %d"]


def step_name(s):
    if s["kind"] == "undefined":
        return noisy_step(s, UNDEF_FORMS[s["id"] % len(UNDEF_FORMS)] % s["id"])
    return noisy_step(s, "%s %d" % (s["kind"], s["id"]))


def render_steps(steps, ind, out):
    for i, s in enumerate(steps):
        out.append("%s%s %s" % (ind, "Given" if i == 0 else "And", step_name(s)))


def tagline(tags, ind, out):
    if tags:
        out.append(ind + " ".join("@" + t for t in tags))


def render_item(it, ind, out):
    tagline(it["tags"], ind, out)
    if it["kind"] == "scenario":
        out.append("%sScenario: %s" % (ind, noisy("S", "S%d" % it["id"])))
        render_steps(it["steps"], ind + "  ", out)
    else:
        if NOISE.get("phantom_tag"):
            # a parametrised tag whose placeholder is no column of any Examples table: documented to be dropped from the rows
            out.append("%s@%s" % (ind, NOISE["phantom_tag"]))
        out.append("%sScenario Outline: %s" % (ind, noisy("S", "O%d" % it["id"])))
        render_steps(it["steps"], ind + "  ", out)
        exs = list(it["examples"])
        if NOISE.get("tableless") is not None:
            # an Examples block that has the keyword but no table contributes no rows (and hides none of the other blocks' rows)
            exs.insert((NOISE["tableless"] + it["id"]) % (len(exs) + 1), None)
        for ex in exs:
            if ex is None:
                out.append("%s  Examples: none" % ind)
                continue
            tagline(ex["tags"], ind + "  ", out)
            out.append("%s  Examples: E%d" % (ind, ex["id"]))
            out.append("%s    | x |" % ind)
            for r in range(ex["rows"]):
                out.append("%s    | %d |" % (ind, r))


def render_feature(f):
    out = []
    tagline(f["tags"], "", out)
    out.append("Feature: %s" % noisy("F", "F%d" % f["id"]))
    if f["bg"] is not None:
        out.append("  Background: fb%d" % f["id"])
        render_steps(f["bg"], "    ", out)
    plain = [it for it in f["items"] if it["kind"] != "rule"]
    rules = [it for it in f["items"] if it["kind"] == "rule"]
    for it in plain:
        render_item(it, "  ", out)
    for r in rules:
        tagline(r["tags"], "  ", out)
        out.append("  Rule: R%d" % r["id"])
        if r["bg"] is not None:
            out.append("    Background: rb%d" % r["id"])
            render_steps(r["bg"], "      ", out)
        for it in r["items"]:
            render_item(it, "    ", out)
    return "\n".join(out) + "\n"


def normalize_program(prog):
    """Feature-level scenarios come before rules in a Gherkin file: reorder items the same way."""
    for f in prog["features"]:
        f["items"] = [it for it in f["items"] if it["kind"] != "rule"] + \
                     [it for it in f["items"] if it["kind"] == "rule"]
    return prog


# ------------------------------------------------------------------ expression -> behave
def expr_text(e):
    if e is None:
        return None
    k = e[0]
    if k == "has":
        return "@" + e[1]
    if k == "not":
        return "not @" + e[1] if isinstance(e[1], str) else "not (%s)" % expr_text(e[1])
    return "(%s %s %s)" % (expr_text(e[1]), k, expr_text(e[2]))


# ------------------------------------------------------------------ the run
class _MyAssertion(AssertionError):
    pass


class _MyError(Exception):
    pass


_ERRORS = [RuntimeError, NotImplementedError, ValueError, KeyError, _MyError, ZeroDivisionError, StopIteration]


class _LogList(list):
    def __init__(self, log):
        super().__init__()
        self._log = log

    def append(self, step):
        self._log.append(["undef", int(step.name.split(SEP)[0].split()[-1])])
        super().append(step)


def run_program(prog, extra_formatters=None, reporters=None, config_hook=None, want_model=False, after_run=None):
    from behave.configuration import Configuration
    from behave.runner import ModelRunner
    from behave.step_registry import StepRegistry
    from behave.parser import parse_feature
    from behave.formatter.base import Formatter
    from behave.exception import StepNotImplementedError, PendingStepError
    from behave.model import ScenarioOutline, Scenario
    from behave.tag_expression import make_tag_expression
    import behave.model as bmodel

    cfg = prog["cfg"]
    noise = cfg.get("noise") or {}
    NOISE.update({"F": noise.get("feature", ""), "S": noise.get("scenario", ""), "step": noise.get("step", ""),
                  "step_mod": noise.get("step_mod"), "phantom_tag": noise.get("phantom_tag"),
                  "tableless": noise.get("tableless")})
    EX_INDEX.clear()
    for _f in prog["features"]:
        for _it in _f["items"]:
            for _x in (_it["items"] if _it["kind"] == "rule" else [_it]):
                if _x["kind"] == "outline":
                    for _ei, _ex in enumerate(_x["examples"]):
                        EX_INDEX[_ex["id"]] = _ei + 1
    msg_noise = noise.get("message", "")
    log, fmt = [], []
    faults = set((h, str(k)) for h, k in cfg.get("faults", []))
    aborts = set((h, str(k)) for h, k in cfg.get("aborts", []))
    fault_kind = cfg.get("fault_kind", "exception")

    # ---- step definitions: one generic definition per kind, behaviour by kind
    registry = StepRegistry()
    cur = {"scenario": None}

    def mk(kind):
        def impl(context, n, noise_text=None):
            sc = canon(str(context.scenario.name).split(SEP)[0])
            log.append(["step", kind, n, sc, "wip" in context.scenario.effective_tags])
            if noise.get("stdout"):
                sys.stdout.write(noise["stdout"])
            if noise.get("stderr"):
                sys.stderr.write(noise["stderr"])
            if kind == "fail":
                if n % 2:
                    raise _MyAssertion("step %d fails%s" % (n, msg_noise))
                assert False, "step %d fails%s" % (n, msg_noise)
            if kind == "error":
                # "other exception -> error": vary the exception class by step id
                raise _ERRORS[n % len(_ERRORS)]("step %d raises%s" % (n, msg_noise))
            if kind == "pending":
                if n % 2:
                    raise PendingStepError("step %d pending" % n)
                raise StepNotImplementedError("step %d pending" % n)
            if kind == "skip":
                context.scenario.skip()
            if kind == "kbd":
                raise KeyboardInterrupt()
            if kind == "abort":
                context.abort()
            if kind in ("cleanupok", "cleanupraise"):
                context.add_cleanup(mk_cleanup(n, kind == "cleanupraise"))
        if cfg.get("async_steps") and kind not in ("kbd", "abort"):
            # the same behaviour as an async step function (coroutine run by behave's async_run_until_complete)
            from behave.api.async_step import async_run_until_complete
            sync_impl = impl

            # the three documented ways to apply the decorator: bare, called without arguments, called with a timeout
            form = ("bare", "called", "timeout")[(KINDS.index(kind) + len(cfg.get("hooks", ()))) % 3]
            decorate = {"bare": async_run_until_complete, "called": async_run_until_complete(),
                        "timeout": async_run_until_complete(timeout=30)}[form]

            @decorate
            async def async_impl(context, n, noise_text=None):
                import asyncio
                await asyncio.sleep(0)
                return sync_impl(context, n, noise_text)
            return async_impl
        return impl
    for kind in KINDS:
        if kind != "undefined":
            registry.add_step_definition("step", "%s {n:d}" % kind, mk(kind))
            registry.add_step_definition("given", "%s {n:d}%s{noise_text}" % (kind, SEP), mk(kind))

    # ---- hooks
    def key_of(arg):
        if arg is None:
            return "0"
        if isinstance(arg, str):
            return str.__str__(arg)
        name = canon(str(arg.name).split(SEP)[0])
        if hasattr(arg, "step_type"):
            return name.split()[-1]
        return name

    def exclude_tagged(feature, xt):
        from behave.model import Rule, ScenarioOutline

        def consider(el):
            if xt in el.tags:
                log.append(["excluded", key_of(el)])
                el.skip()
                return True
            return False

        def walk(items):
            for it in items:
                if consider(it):
                    continue            # (an excluded outline is not asked for its rows)
                if isinstance(it, Rule):
                    walk(it.run_items)
                elif isinstance(it, ScenarioOutline):
                    for row in it.scenarios:
                        consider(row)
        if not consider(feature):
            walk(feature.run_items)

    def mk_hook(hname):
        def hook(context, *args):
            key = key_of(args[0] if args else None)
            raises = (hname, key) in faults
            log.append(["hook", hname, key, raises])
            if (hname, key) in aborts:
                # the hook gives the run up (context.abort() is the documented way); it may still raise afterwards
                log.append(["hookabort", hname, key])
                context.abort()
            if hname.startswith("after_") and args and hasattr(args[0], "status") and cfg.get("peek_status", True):
                # what after-hooks usually do first: look at how the element ended (`if scenario.status == "failed": ...`)
                str(args[0].status)
            if hname == "before_scenario" and cfg.get("continue_via_hook") and cfg.get("continue_after_failed"):
                # the documented recipe: switch the flag on for this scenario from its before_scenario hook
                args[0].continue_after_failed_step = True
            if hname == "before_feature" and cfg.get("exclude_tag"):
                # the documented way to exclude elements at run time (what ActiveTagMatcher users write in their hooks):
                # element.skip() on everything that carries the tag, decided when the feature starts
                exclude_tagged(args[0], cfg["exclude_tag"])
            for (h2, k2, cid, craises) in hook_cleanups:
                if h2 == hname and str(k2) == key:
                    context.add_cleanup(mk_cleanup(cid, craises))
            if raises:
                if fault_kind == "assertion":
                    raise AssertionError("hook %s %s fails" % (hname, key))
                raise RuntimeError("hook %s %s raises" % (hname, key))
        return hook
    hook_cleanups = [tuple(x) for x in cfg.get("hook_cleanups", [])]

    def mk_cleanup(cid, craises):
        def cleanup():
            log.append(["cleanup", cid, bool(craises)])
            if craises:
                raise RuntimeError("cleanup %d raises" % cid)
        return cleanup
    hooks = {h: mk_hook(h) for h in cfg.get("hooks", [])}

    def ev(e):
        fmt.append(e)
        log.append(["fmt"] + e)

    class Rec(Formatter):
        name = "rec"

        def uri(self, uri):
            ev(["uri", os.path.basename(uri)])

        def feature(self, feature):
            ev(["feature", feature.name])

        def rule(self, rule):
            ev(["rule", rule.name])

        def background(self, background):
            ev(["background", background.name, [s.name for s in background.steps]])

        def scenario(self, scenario):
            ev(["scenario", canon(scenario.name)])

        def step(self, step):
            ev(["step", step.name])

        def match(self, match):
            ev(["match", bool(match.location)])

        def result(self, step):
            ev(["result", step.name, step.status.name])

        def eof(self):
            ev(["eof"])

        def close(self):
            ev(["close"])

    args = ["--no-color"]
    if cfg.get("dry_run"):
        args.append("--dry-run")
    if cfg.get("stop"):
        args.append("--stop")
    args.append("--show-skipped" if cfg.get("show_skipped") else "--no-skipped")
    ex = cfg.get("expr")
    if ex is not None and ex[0] == "raw":
        # ["raw", [--tags arguments as written], semantic AST]: both dialects, wildcards
        for a in ex[1]:
            args += ["--tags=" + a]
    else:
        et = expr_text(ex)
        if et is not None:
            args += ["--tags", et]
    if cfg.get("wip_mode"):
        args.append("--wip")        # only @wip scenarios (AND-ed with any --tags), stop at the first failure, no capture
    for a in cfg.get("args", []):
        args.append(a)
    sink = io.StringIO()
    with contextlib.redirect_stdout(sink), contextlib.redirect_stderr(sink):
        config = Configuration(args, load_config=False)
        config.base_dir = os.getcwd()
        config.paths = []
        config.reporters = list(reporters(config)) if reporters else []
        if config_hook:
            config_hook(config)
        features = []
        for f in prog["features"]:
            text = render_feature(f)
            # cfg["file_infix"]: feature file names with further dots ("F1.part.feature")
            features.append(parse_feature(text, filename="F%d%s.feature" % (f["id"], cfg.get("file_infix", ""))))
        old_flag = Scenario.continue_after_failed_step
        Scenario.continue_after_failed_step = bool(cfg.get("continue_after_failed", False)) and not cfg.get("continue_via_hook")
        try:
            runner = ModelRunner(config, features, step_registry=registry)
            runner.hooks = hooks
            runner._undefined_steps = _LogList(log)
            from behave.formatter.base import StreamOpener
            rec = Rec(StreamOpener(stream=io.StringIO()), config)
            runner.formatters = [rec] + (list(extra_formatters(config)) if extra_formatters else [])
            crashed = None
            try:
                failed = runner.run()
            except BaseException as e:      # noqa -- an escaping exception is an observation
                failed = None
                crashed = "%s: %s" % (type(e).__name__, e)
        finally:
            Scenario.continue_after_failed_step = old_flag
    after = None
    if after_run is not None:
        # called on the model exactly as the run left it, before this harness reads anything from it
        after = after_run(runner, features)

    def scen_res(sc):
        return {"name": canon(sc.name), "status": sc.status.name, "hook_failed": bool(sc.hook_failed),
                "steps": [s.status.name for s in sc.all_steps], "line": sc.line,
                "should_skip": bool(sc.should_skip)}

    def item_res(it):
        if isinstance(it, ScenarioOutline):
            return {"kind": "outline", "name": it.name, "status": it.status.name,
                    "rows": [scen_res(r) for r in it.scenarios]}
        if isinstance(it, bmodel.Rule):
            return {"kind": "rule", "name": it.name, "status": it.status.name,
                    "hook_failed": bool(it.hook_failed), "items": [item_res(x) for x in it.run_items]}
        d = scen_res(it)
        d["kind"] = "scenario"
        return d

    tree = []
    with contextlib.redirect_stdout(io.StringIO()):       # (an outline with a table-less Examples block complains on every access)
        for f in features:
            tree.append({"kind": "feature", "name": f.name, "status": f.status.name,
                         "hook_failed": bool(f.hook_failed), "items": [item_res(x) for x in f.run_items]})
    obs = {"failed": failed, "crashed": crashed, "log": log, "fmt": fmt, "tree": tree,
           "aborted": bool(runner.aborted), "hook_failures": runner.hook_failures,
           "undefined": len(runner.undefined_steps), "stdout": sink.getvalue()[-2000:]}
    if after_run is not None:
        obs["after_run"] = after
    if want_model:
        obs["_features"] = features
        obs["_runner"] = runner
        obs["_config"] = config
    return obs
