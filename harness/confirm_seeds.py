#!/venv/bin/python
"""Confirm every seeded change myself in a scratch worktree outside /repo and /verif:
   demo passes on the unchanged tree, patch applies, byte-compiles, pinned test suite still passes, demo fails on the patched tree.
   Worktrees live under /tmp/wt/<id> (the demos import from there) and are removed again."""
import json, os, subprocess, sys, tempfile
import xml.etree.ElementTree as ET

def sh(cmd, **kw):
    return subprocess.run(cmd, shell=True, capture_output=True, text=True, **kw)

def pytest_missing(wt):
    base = json.load(open("/root/.vp/BASELINE.json"))
    fd, path = tempfile.mkstemp(suffix=".xml"); os.close(fd)
    env = dict(os.environ); env.pop("BEHAVE_VERIF", None)
    sh("cd %s && /venv/bin/python -m pytest -ra -q -p no:cacheprovider --timeout=900 --continue-on-collection-errors --junitxml=%s" % (wt, path), env=env)
    passed = set()
    for tc in ET.parse(path).getroot().iter("testcase"):
        if not any(ch.tag in ("failure", "error", "skipped") for ch in tc):
            passed.add("%s::%s" % (tc.get("classname"), tc.get("name")))
    os.remove(path)
    return [t for t in base["stable_pass"] if t not in passed]

def main():
    ids = sys.argv[1:] or ["C%02d" % i for i in range(1, 21)]
    os.makedirs("/tmp/wt", exist_ok=True)
    out = {}
    for cid in ids:
        wt = "/tmp/wt/%s" % cid
        sh("git -C /repo worktree remove --force %s" % wt)
        r = sh("git -C /repo worktree add --detach %s HEAD" % wt)
        res = {"worktree": r.returncode == 0}
        try:
            demo = os.path.join(wt, "demo_%s.py" % cid)      # some demos locate behave relative to their own file
            sh("cp /verif/seeded/%s/demo_%s.py %s" % (cid, cid, demo))
            env = dict(os.environ, PYTHONPATH=wt, PYTHONHASHSEED="0")
            res["demo_unchanged_exit"] = sh("cd %s && /venv/bin/python %s" % (wt, demo), env=env).returncode
            res["applies"] = sh("git -C %s apply /verif/seeded/%s/patch.diff" % (wt, cid)).returncode == 0
            res["compiles"] = sh("cd %s && /venv/bin/python -m compileall -q behave" % wt).returncode == 0
            res["demo_patched_exit"] = sh("cd %s && /venv/bin/python %s" % (wt, demo), env=env).returncode
            os.remove(demo)
            res["tests_missing"] = len(pytest_missing(wt))
        finally:
            sh("git -C /repo worktree remove --force %s" % wt)
        res["confirmed"] = bool(res.get("applies") and res.get("compiles") and res.get("demo_unchanged_exit") == 0
                                and res.get("demo_patched_exit") not in (0, None) and res.get("tests_missing") == 0)
        out[cid] = res
        print(cid, res, flush=True)
    sh("git -C /repo worktree prune")
    prev = {}
    if os.path.exists("/tmp/seed_confirm.json"):
        prev = json.load(open("/tmp/seed_confirm.json"))
    prev.update(out)
    json.dump(prev, open("/tmp/seed_confirm.json", "w"), indent=1)

main()
