#!/venv/bin/python
"""Run the repository's pinned test suite (guard off) and compare with BASELINE.json's stable_pass list."""
import json, os, subprocess, sys, tempfile
import xml.etree.ElementTree as ET

def main():
    base = json.load(open("/root/.vp/BASELINE.json"))
    fd, path = tempfile.mkstemp(suffix=".xml"); os.close(fd)
    env = dict(os.environ); env.pop("BEHAVE_VERIF", None)
    subprocess.run("cd /repo && /venv/bin/python -m pytest -ra -q -p no:cacheprovider --timeout=900 "
                   "--continue-on-collection-errors --junitxml=%s >/dev/null 2>&1" % path, shell=True, env=env)
    passed = set()
    for tc in ET.parse(path).getroot().iter("testcase"):
        if not any(ch.tag in ("failure", "error", "skipped") for ch in tc):
            passed.add("%s::%s" % (tc.get("classname"), tc.get("name")))
    os.remove(path)
    missing = [t for t in base["stable_pass"] if t not in passed]
    print("baseline stable_pass: %d, passing now: %d, missing: %d" % (len(base["stable_pass"]), len(passed), len(missing)))
    for m in missing[:20]:
        print("  NOT PASSING:", m)
    return 1 if missing else 0

if __name__ == "__main__":
    sys.exit(main())
