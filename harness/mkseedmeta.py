#!/venv/bin/python
"""Write seeded/<id>/meta.json from the hand-written descriptions below and the last seed-matrix log (harness/seedtest.py runs)."""
import json, os, re, sys
LOG = sys.argv[1] if len(sys.argv) > 1 else "/tmp/seed_matrix.log"
DESCR = {
 "C01": ("Scenario.run skips steps on `runner.config.dry_run` instead of the per-scenario dry-run flag",
         "a dry-run in which a scenario is executed for real is impossible, so: any --dry-run with an undefined step after a passed one - the remaining-step bookkeeping changes the verdict; needs --dry-run and a scenario with steps after an undefined step"),
 "C02": ("Step.run catches every NotImplementedError (not only StepNotImplementedError) as 'pending'",
         "a step function raising a plain NotImplementedError (an 'other exception'): it must end 'error', ends 'pending'"),
 "C03": ("Scenario.run keeps the step-derived status of a failed scenario instead of recomputing it",
         "a scenario with a failed/errored step and a later status-changing event (hook error in after_scenario, skip): the stale status survives"),
 "C04": ("the parser resets last_step_type in the scenario/outline builders instead of at every scenario line",
         "a Background (or Rule background) whose first step is And/But relies on inheritance; the reset no longer happens for Background:, so its And takes the type of the previous scenario's last step"),
 "C05": ("last_step_type reset moved to the background/scenario builders only (not Scenario Outline)",
         "an And/But as first step of a Scenario Outline that follows another scenario, in a feature without background: must be a ParserError, is accepted"),
 "C06": ("Table.add_column rebinds self.headings to a new list",
         "rows share the table's headings list; after add_column through the table API the rows do not see the new column, so the rebuilt scenarios do not substitute <new column>"),
 "C07": ("Matcher.evaluate skips values shorter than len(pattern) - count('*')",
         "a wildcard pattern with a character class, e.g. f[op]o: one bracket expression matches one character but counts as four, so matching tags are skipped"),
 "C08": ("auto-detection looks for v1 prefixes before parentheses are isolated",
         "a mixed v1/v2 text where the v1 marker is glued to a parenthesis, e.g. '(-x or foo)': must be rejected as mixed, is parsed as v2 with a literal '-x'"),
 "C09": ("ScenarioOutline.effective_tags is cached on first use",
         "effective tags asked before the parent link / feature tags are final (or examples tags vary): rows are selected with stale tags; needs tag selection on outlines inside tagged features/rules"),
 "C10": ("FeatureScenarioLocationCollector.clear() no longer resets use_all_scenarios and __init__ goes through clear()",
         "one collector reused for several files/locations where an earlier location selected the whole feature: later line selections run everything"),
 "C11": ("StepRegistry lookups extend the type-specific list with the generic steps in place",
         "a look-up before further registrations (execute_steps, a first feature run): generic definitions leak into the given/when/then lists - wrong ambiguity errors and generic-before-specific precedence afterwards"),
 "C12": ("after_tag hooks of a scenario run after the hook_failed check",
         "a raising after_tag hook on a scenario: the scenario is no longer marked hook_error/failed, --stop does not stop"),
 "C13": ("a generator fixture's cleanup is registered after the setup part ran",
         "a fixture whose setup registers further cleanups (or fails): cleanup order is no longer LIFO relative to cleanups added during setup, a failing setup leaves no cleanup"),
 "C14": ("summary walkers read ScenarioOutline._scenarios instead of .scenarios",
         "a run that never built an outline's rows (feature skipped/--stop before it): the outline's scenarios are not counted, totals no longer add up"),
 "C15": ("progress formatter reports the announced step object and resets its queue per scenario",
         "dry-run / skipped remainder: marks are printed for the queued (announced) step instead of the processed one, so the mark sequence no longer mirrors the processed statuses"),
 "C16": ("CDATA() escapes ']]>' before ANSI escapes are stripped; serialisation only replaces invalid characters",
         "captured output or a message containing ']]' + ANSI colour sequence + '>': stripping the escape creates ']]>' inside the CDATA section"),
 "C17": ("location collector iterates all scenarios in file order and builds selected scenarios as a list",
         "a rerun file (or name list) addressing scenarios of several features with duplicate lines/names: membership test on a list of rows and outline templates differs from the set semantics, unlisted scenarios are not skipped"),
 "C18": ("LoggingCapture iterates root_logger.handlers while removing from it",
         "two or more foreign handlers on the root logger and a left-over LoggingCapture: removal during iteration skips an element; handler order/identity after teardown differs"),
 "C19": ("ActiveTagMatcher asks the provider with default None instead of the Unknown sentinel",
         "a category the provider knows with current value None: it is treated as unknown, so a positive active tag that does not match no longer excludes"),
 "C20": ("parse_user_define unquotes the value before stripping it",
         "-D name = \"value\" with padding between '=' and the quoted value: the quotes survive"),
 "C01b": ("ScenarioContainer.run computes `failed` right after the after-hooks, before the cleanup block of context._pop()",
          "a raising cleanup on the feature or rule layer (add_cleanup in before_feature/before_rule or layer=) in an otherwise passing run: the element ends error but the run is green"),
 "C02b": ("Scenario.run: `elif self.should_skip and not failed` - a scenario.skip() from a step no longer switches the steps off once a step failed",
          "continue_after_failed_step on, a failing step, then a step that skips the scenario: the steps after it still run"),
 "C03b": ("ScenarioContainer.compute_status iterates self.scenarios instead of self.run_items",
          "a feature with Rule sections: rules drop out of the feature roll-up (feature skipped/passed although a rule failed or was untested)"),
 "C04b": ("Parser.action_table calls table.add_row(cells) without the line",
          "a table (step table or Examples) with a comment or blank line between the heading and a row: rows carry heading line + index instead of their own line"),
 "C05b": ("the 'Malformed table' ParserError reports table.line + len(rows) + 1 instead of the current line",
          "a ragged row in a table that has comment/blank lines between its rows: the error line is too small"),
 "C06b": ("Parser.action_table calls table.add_row(cells) without the line (same edit as C04b, judged against C06)",
          "an Examples table with comment/blank lines between rows: generated scenarios are located at the wrong line"),
 "C07b": ("Not.__str__ always wraps in 'not ( ... )' after stripping the operand's parentheses with str.strip('( )')",
          "not over an and/or whose first or last operand is itself parenthesised: the printed text re-parses to a different formula or not at all"),
 "C08b": ("v1 normalize_tag tests startswith('~') before the '-@'/'~@' branch",
          "a negated tag written '~@tag': normalised to '-@tag', the negation is silently ignored"),
 "C09b": ("ScenarioOutlineBuilder.make_row_tags returns the outline's own (empty) tag list instead of a fresh list",
          "an untagged outline with two or more Examples blocks, the first tagged: that tag leaks into the outline and all later rows; selection by that tag is wrong"),
 "C10b": ("FeatureScenarioLocationCollector.add_location assigns use_all_scenarios = not location.line on every call",
          "several locations of one file, a bare file name (or :0) first and a line last: only the line's scenarios run instead of all"),
 "C11b": ("StepRegistry.find_match copies the generic list instead of the type list: candidates aliases self.steps[step_type]",
          "a type-specific registration after a look-up of that type: generic definitions sit in the type list (wrong AmbiguousStep, generic before specific)"),
 "C12b": ("ScenarioContainer.should_run_with_tags checks self.tags instead of self.effective_tags",
          "a tagged feature containing an untagged rule, run with a negated tag expression: the de-selected feature and rule get their hooks called"),
 "C13b": ("Context.add_cleanup computes `already_registered` against the current frame before the layer= frame is selected",
          "a plain cleanup registered for an outer layer that is also in the current scope (dropped) or registered for that layer from two scopes (runs twice)"),
 "C14b": ("SummaryReporterV1.process_scenario_outline iterates scenario_outline._scenarios",
          "--stop/abort leaving an outline whose rows were never built: its scenarios and steps are missing from the summary"),
 "C15b": ("JSONFormatter.background iterates `background` (inherited + own steps) instead of background.steps",
          "a feature with a Background and a Rule: the rule's background element lists the feature background's steps too"),
 "C16b": ("JUnit: counts_tests is guarded by config.show_skipped instead of the reporter's show_skipped (which honours show_skipped_always)",
          "skipped scenarios with --no-skipped and behave.reporter.junit.show_skipped_always=true: tests counter smaller than the number of test cases"),
 "C17b": ("RerunFormatter.eof collects a feature's failures first and its error-class scenarios afterwards",
          "a feature in which an error-class scenario runs before an assertion-failed one: the rerun file is not in run order"),
 "C18b": ("CaptureController.teardown_capture: `if self.config.log_capture and self.log_capture` (LoggingCapture is falsy when its buffer is empty)",
          "a scenario that captured no log record: the capture handler stays on the root logger, the root level is not restored"),
 "C19b": ("ActiveTagMatcher.is_tag_group_enabled breaks out of the loop at the first matching positive tag",
          "a matching positive tag followed by a matching negative tag of the same category: the element is not excluded"),
 "C20b": ("UserData.getas: `value = self.get(name); if not value: return default`",
          "a defined but falsy value: the empty string no longer raises ValueError, 0 / 0.0 / False are replaced by the default"),
}
runs = {}
cur = None
for line in open(LOG, encoding="utf-8"):
    m = re.match(r"seed (C\d+b?) / check (C\d+): exit (\d+)", line)
    if m:
        cur = m.group(1)
        runs[cur] = {"check": m.group(2), "exit": int(m.group(3)), "lines": []}
    elif cur and "VIOLATION" in line:
        runs[cur]["lines"].append(line.strip()[:300])
for cid, (what, needs) in sorted(DESCR.items()):
    d = "/verif/seeded/%s" % cid
    r = runs.get(cid, {})
    meta = {"property": cid[:3], "patch": "patch.diff", "demonstration": "demo_%s.py" % cid,
            "what_the_change_does": what, "needs_to_manifest": needs,
            "confirmed": "applied in a scratch worktree of /repo: byte-compiles, the pinned pytest suite (1655 stable tests) still passes, "
                         "the demonstration exits non-zero on the patched tree and zero on the unchanged tree (checked by the sub-agent that "
                         "wrote it and again by me before keeping it)",
            "what_i_ran": "/venv/bin/python harness/seedtest.py %s %s   # git -C /repo apply seeded/%s/patch.diff; quick check; git -C /repo checkout -- ." % (cid, cid[:3], cid),
            "detected_by": ([r.get("check")] if r.get("exit") == 1 else []),
            "detection": {"exit_code": r.get("exit"), "first_violation_lines": r.get("lines", [])[:2]}}
    with open(os.path.join(d, "meta.json"), "w") as f:
        json.dump(meta, f, indent=1, ensure_ascii=False)
        f.write("\n")
print("wrote", len(DESCR), "meta.json files;", sum(1 for c in runs.values() if c["exit"] == 1), "seeds detected")
