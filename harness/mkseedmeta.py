#!/venv/bin/python
"""Write seeded/<id>/meta.json from the hand-written descriptions below and the last seed-matrix log (harness/seedtest.py runs)."""
import json, os, re, sys
LOG = sys.argv[1] if len(sys.argv) > 1 else "/tmp/seed_matrix.log"
DESCR = {
 "C01": ("Scenario.run skips steps on `runner.config.dry_run` instead of the per-scenario dry-run flag",
         "a dry-run in which a scenario is executed for real is impossible, so: any --dry-run with an undefined step after a passed one - the remaining-step bookkeeping changes the verdict; needs --dry-run and a scenario with steps after an undefined step"),
 "C02": ("Step.run catches every NotImplementedError (not only StepNotImplementedError) as 'pending'",
         "a step function raising a plain NotImplementedError (an 'other exception'): it must end 'error', ends 'pending'"),
 "C03": ("Scenario.run keeps the step-derived status of a failed scenario instead of recomputing it",
         "a scenario with a failed/errored step and a later status-changing event (hook error in after_scenario, skip): the stale status survives"),
 "C04": ("the parser resets last_step_type in the scenario/outline builders instead of at every scenario line",
         "a Background (or Rule background) whose first step is And/But relies on inheritance; the reset no longer happens for Background:, so its And takes the type of the previous scenario's last step"),
 "C05": ("last_step_type reset moved to the background/scenario builders only (not Scenario Outline)",
         "an And/But as first step of a Scenario Outline that follows another scenario, in a feature without background: must be a ParserError, is accepted"),
 "C06": ("Table.add_column rebinds self.headings to a new list",
         "rows share the table's headings list; after add_column through the table API the rows do not see the new column, so the rebuilt scenarios do not substitute <new column>"),
 "C07": ("Matcher.evaluate skips values shorter than len(pattern) - count('*')",
         "a wildcard pattern with a character class, e.g. f[op]o: one bracket expression matches one character but counts as four, so matching tags are skipped"),
 "C08": ("auto-detection looks for v1 prefixes before parentheses are isolated",
         "a mixed v1/v2 text where the v1 marker is glued to a parenthesis, e.g. '(-x or foo)': must be rejected as mixed, is parsed as v2 with a literal '-x'"),
 "C09": ("ScenarioOutline.effective_tags is cached on first use",
         "effective tags asked before the parent link / feature tags are final (or examples tags vary): rows are selected with stale tags; needs tag selection on outlines inside tagged features/rules"),
 "C10": ("FeatureScenarioLocationCollector.clear() no longer resets use_all_scenarios and __init__ goes through clear()",
         "one collector reused for several files/locations where an earlier location selected the whole feature: later line selections run everything"),
 "C11": ("StepRegistry lookups extend the type-specific list with the generic steps in place",
         "a look-up before further registrations (execute_steps, a first feature run): generic definitions leak into the given/when/then lists - wrong ambiguity errors and generic-before-specific precedence afterwards"),
 "C12": ("after_tag hooks of a scenario run after the hook_failed check",
         "a raising after_tag hook on a scenario: the scenario is no longer marked hook_error/failed, --stop does not stop"),
 "C13": ("a generator fixture's cleanup is registered after the setup part ran",
         "a fixture whose setup registers further cleanups (or fails): cleanup order is no longer LIFO relative to cleanups added during setup, a failing setup leaves no cleanup"),
 "C14": ("summary walkers read ScenarioOutline._scenarios instead of .scenarios",
         "a run that never built an outline's rows (feature skipped/--stop before it): the outline's scenarios are not counted, totals no longer add up"),
 "C15": ("progress formatter reports the announced step object and resets its queue per scenario",
         "dry-run / skipped remainder: marks are printed for the queued (announced) step instead of the processed one, so the mark sequence no longer mirrors the processed statuses"),
 "C16": ("CDATA() escapes ']]>' before ANSI escapes are stripped; serialisation only replaces invalid characters",
         "captured output or a message containing ']]' + ANSI colour sequence + '>': stripping the escape creates ']]>' inside the CDATA section"),
 "C17": ("location collector iterates all scenarios in file order and builds selected scenarios as a list",
         "a rerun file (or name list) addressing scenarios of several features with duplicate lines/names: membership test on a list of rows and outline templates differs from the set semantics, unlisted scenarios are not skipped"),
 "C18": ("LoggingCapture iterates root_logger.handlers while removing from it",
         "two or more foreign handlers on the root logger and a left-over LoggingCapture: removal during iteration skips an element; handler order/identity after teardown differs"),
 "C19": ("ActiveTagMatcher asks the provider with default None instead of the Unknown sentinel",
         "a category the provider knows with current value None: it is treated as unknown, so a positive active tag that does not match no longer excludes"),
 "C20": ("parse_user_define unquotes the value before stripping it",
         "-D name = \"value\" with padding between '=' and the quoted value: the quotes survive"),
}
runs = {}
cur = None
for line in open(LOG, encoding="utf-8"):
    m = re.match(r"seed (C\d+) / check (C\d+): exit (\d+)", line)
    if m:
        cur = m.group(1)
        runs[cur] = {"check": m.group(2), "exit": int(m.group(3)), "lines": []}
    elif cur and "VIOLATION" in line:
        runs[cur]["lines"].append(line.strip()[:300])
for cid, (what, needs) in sorted(DESCR.items()):
    d = "/verif/seeded/%s" % cid
    r = runs.get(cid, {})
    meta = {"property": cid, "patch": "patch.diff", "demonstration": "demo_%s.py" % cid,
            "what_the_change_does": what, "needs_to_manifest": needs,
            "confirmed": "applied in a scratch worktree of /repo: byte-compiles, the pinned pytest suite (1655 stable tests) still passes, "
                         "the demonstration exits non-zero on the patched tree and zero on the unchanged tree (checked by the sub-agent that "
                         "wrote it and again by me before keeping it)",
            "what_i_ran": "/venv/bin/python harness/seedtest.py %s %s   # git -C /repo apply seeded/%s/patch.diff; quick check; git -C /repo checkout -- ." % (cid, cid, cid),
            "detected_by": ([r.get("check")] if r.get("exit") == 1 else []),
            "detection": {"exit_code": r.get("exit"), "first_violation_lines": r.get("lines", [])[:2]}}
    with open(os.path.join(d, "meta.json"), "w") as f:
        json.dump(meta, f, indent=1, ensure_ascii=False)
        f.write("\n")
print("wrote", len(DESCR), "meta.json files;", sum(1 for c in runs.values() if c["exit"] == 1), "seeds detected")
