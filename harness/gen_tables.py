#!/venv/bin/python
"""Regenerate coq/gen/*.v from the *current working tree* of /repo.

Every table here is a finite function of the code, tabulated completely by
importing the tree and calling the real function on every element of its
(finite) domain.  A file is rewritten only when its content changes, so an
unchanged tree does not trigger a rebuild.
"""
from __future__ import annotations
import os, sys, json

VERIF = os.path.dirname(os.path.dirname(os.path.abspath(__file__)))
REPO = os.environ.get("VERIF_REPO", "/repo")
GEN = os.path.join(VERIF, "coq", "gen")

STATUS_NAMES = ["unknown", "untested", "executing", "skipped", "passed", "xfailed",
                "xpassed", "failed", "error", "hook_error", "cleanup_error",
                "undefined", "pending", "pending_warn", "untested_pending",
                "untested_undefined"]


def write_if_changed(path, text):
    os.makedirs(os.path.dirname(path), exist_ok=True)
    try:
        with open(path, encoding="utf-8") as f:
            if f.read() == text:
                return False
    except OSError:
        pass
    with open(path, "w", encoding="utf-8") as f:
        f.write(text)
    return True


def cbool(b):
    return "true" if b else "false"


def cstr(s):
    """Python str -> Coq `list N` literal of code points."""
    if not s:
        return "(@nil N)"
    return "[" + "; ".join("%d%%N" % ord(c) for c in s) + "]"


def clist(items, ty=None):
    items = list(items)
    if not items:
        return "(@nil (%s))" % ty if ty else "[]"
    return "[" + "; ".join(items) + "]"


# ---------------------------------------------------------------- Status
def gen_status():
    from behave.model_core import Status, OuterStatus, ScenarioStatus
    members = [m.name for m in Status]
    out = ["(* GENERATED from %s/behave/model_core.py by harness/gen_tables.py — do not edit *)" % REPO,
           "From BV Require Import Base Status.", ""]
    same = (members == STATUS_NAMES)
    out.append("Definition status_members_match : bool := %s." % cbool(same))
    out.append("(* members in the code: %s *)" % " ".join(members))
    known = [n for n in STATUS_NAMES if n in Status.__members__]

    def table(name, fn, rty, default, conv):
        lines = ["Definition %s (s : status) : %s :=" % (name, rty), "  match s with"]
        for n in STATUS_NAMES:
            if n in Status.__members__:
                lines.append("  | %s => %s" % (n, conv(fn(Status[n]))))
            else:
                lines.append("  | %s => %s" % (n, default))
        lines.append("  end.")
        out.extend(lines)
        out.append("")

    for pred in ("is_error", "is_failure", "is_passed", "is_untested", "is_final",
                 "has_failed", "is_pending", "is_undefined"):
        table(pred, lambda s, p=pred: bool(getattr(s, p)()), "bool", "false", cbool)

    def norm(s):
        n = s.normalized_name
        return n if n in STATUS_NAMES else "unknown"
    table("normalized", norm, "status", "unknown", str)

    def from_inner(s):
        r = OuterStatus.from_inner_status(s)
        return r.name
    table("from_inner", from_inner, "status", "unknown", str)

    def from_step(s):
        try:
            return "Some " + ScenarioStatus.from_step_status(s).name
        except AssertionError:
            return "None"
    table("from_step", from_step, "option status", "None", str)

    # numeric enum values (ordering facts used nowhere critical, but cheap)
    table("status_value", lambda s: s.value, "nat", "0", lambda v: "%d" % v)

    # Status == "name" string comparison: tabulate s == t.name for all pairs
    ok = all((Status[a] == b) == (a == b) for a in known for b in known)
    out.append("Definition status_eq_string_coherent : bool := %s." % cbool(ok))
    return "\n".join(out) + "\n"


GENERATORS = {
    "StatusTable.v": gen_status,
}


def main(argv=None):
    sys.path.insert(0, REPO)
    os.environ.setdefault("PYTHONHASHSEED", "0")
    changed = []
    extra = {}
    # optional generators live in harness/gen_more.py (added per property)
    try:
        sys.path.insert(0, os.path.dirname(os.path.abspath(__file__)))
        import gen_more
        extra = gen_more.GENERATORS
    except ImportError:
        extra = {}
    errors = {}
    for name, fn in list(GENERATORS.items()) + list(extra.items()):
        try:
            text = fn()
        except Exception as e:      # a broken tree must not silently keep an old table
            text = "(* GENERATION FAILED: %s: %s *)\nDefinition generation_failed : False := I.\n" % (
                type(e).__name__, str(e).replace("*)", "* )"))
            errors[name] = "%s: %s" % (type(e).__name__, e)
        if write_if_changed(os.path.join(GEN, name), text):
            changed.append(name)
    print(json.dumps({"changed": changed, "errors": errors}))
    return 0


if __name__ == "__main__":
    sys.exit(main())
