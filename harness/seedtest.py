#!/venv/bin/python
"""seedtest.py <seed id> <check id> [...]: apply seeded/<seed>/patch.diff to /repo, run the quick checks, always revert."""
import subprocess, sys, os
seed = sys.argv[1]
checks = sys.argv[2:] or [seed[:3]]
patch = "/verif/seeded/%s/patch.diff" % seed
assert subprocess.run(["git", "-C", "/repo", "status", "--porcelain", "--untracked-files=no"], capture_output=True, text=True).stdout.strip() == "", "repo dirty"
subprocess.run(["git", "-C", "/repo", "apply", patch], check=True)
try:
    for c in checks:
        env = dict(os.environ, VERIF_EVIDENCE_DIR="/tmp/verif_seed_evidence")     # never overwrite committed evidence
        p = subprocess.run(["/venv/bin/python", "/verif/harness/check.py", c, "--tier", "quick"], capture_output=True, text=True, cwd="/verif", env=env)
        lines = [l for l in p.stdout.splitlines() if l.startswith("VIOLATION") or l.startswith(c + " quick")]
        print("seed %s / check %s: exit %d" % (seed, c, p.returncode))
        for l in lines[:4]:
            print("   ", l[:260])
finally:
    subprocess.run(["git", "-C", "/repo", "checkout", "--", "."], check=True)
    try:
        print(subprocess.run(["git", "-C", "/repo", "status", "--porcelain", "--untracked-files=no"], capture_output=True, text=True).stdout or "repo clean")
    except BrokenPipeError:      # output piped into head: the tree is already restored at this point
        pass
