#!/venv/bin/python
"""check.py <Cxx> [--tier quick|thorough] [--replay FILE]

One run = (1) regenerate tables from /repo's working tree and rebuild the Coq
development, (2) re-check the property's theorem file and its axiom reports,
(3) for every suite of the property: run the implementation on the cases, state
the property directly on what it did (oracle), evaluate the Coq model on the
same cases inside Coq and compare (correspondence), (4) when a proof obligation
or the correspondence broke, search for a concrete failing input, (5) write
evidence and exit 0/1.
"""
from __future__ import annotations
import os, sys, json, importlib, time, random

HERE = os.path.dirname(os.path.abspath(__file__))
sys.path.insert(0, HERE)
import common
from common import Report

sys.path.insert(0, common.REPO)
os.environ.setdefault("PYTHONHASHSEED", "0")


def load_prop(cid):
    return importlib.import_module("props.%s" % cid.lower())


def match_known(cid, sig, known):
    for k in known.get("findings", []):
        if k.get("property") == cid and k.get("status") == "open" and k.get("signature") == sig:
            return k
    return None


def run_suite(rep, mod, suite, known, build_ok):
    name = suite["name"]
    cases = suite["cases"]
    t0 = time.time()
    obs = common.impl_map(suite["impl"], cases)
    rep.say("  [%s] %d cases through the implementation in %.1fs" % (name, len(cases), time.time() - t0))
    n_viol = 0
    nontrivial = set()
    harness_exc = []
    oracle = suite.get("oracle")
    for i, (c, o) in enumerate(zip(cases, obs)):
        if isinstance(o, dict) and "__harness_exception__" in o:
            harness_exc.append(i)
            continue
        if suite.get("nontrivial", lambda c, o: True)(c, o):
            nontrivial.add(common.canonical(c))
        if oracle:
            for msg, sig in oracle(c, o):
                k = match_known(rep.cid, sig, known)
                if k:
                    rep.known_finding("%s [%s] e.g. %s" % (k["what"], sig, k.get("example", "")))
                    suite.setdefault("_known_hits", {}).setdefault(sig, 0)
                    suite["_known_hits"][sig] += 1
                else:
                    n_viol += 1
                    if n_viol <= 3:
                        small = shrink(suite, c, sig)
                        rep.violation({"suite": name, "case": small, "observed": run_one(suite, small),
                                       "original_case": c, "signature": sig},
                                      "%s: %s" % (name, msg))
    for i in harness_exc[:3]:
        rep.violation({"suite": name, "case": cases[i], "observed": obs[i]},
                      "%s: the implementation raised inside the harness driver: %s" % (
                          name, obs[i]["__harness_exception__"]))
    # ---- correspondence with the Coq model
    n_cmp = 0
    mism = []
    coq = suite.get("coq")
    if coq:
        pairs, index = [], []
        for i, (c, o) in enumerate(zip(cases, obs)):
            if i in harness_exc:
                continue
            enc = coq["enc"](c, o)
            if enc is None:
                continue
            pairs.append(enc)
            index.append(i)
        n_cmp = len(pairs)
        if not build_ok:
            rep.obligation("correspondence:%s" % name, False, "model did not build")
        elif pairs:
            t1 = time.time()
            bad, errors = common.coq_run_cases("%s_%s" % (rep.cid, name), coq["header"], coq["in_ty"],
                                               coq["out_ty"], coq["fn"], coq["eqb"], pairs,
                                               shard=coq.get("shard", 300))
            rep.say("  [%s] %d cases through the Coq model in %.1fs: %d mismatches, %d shard errors" % (
                name, len(pairs), time.time() - t1, len(bad), len(errors)))
            ok = not bad and not errors
            rep.obligation("correspondence:%s" % name, ok,
                           "%d cases, %d mismatches" % (len(pairs), len(bad)))
            if errors:
                rep.violation({"suite": name, "shard_errors": errors[:2]},
                              "%s: the model could not be evaluated on the case file" % name, no_input=True)
            if bad:
                mism = [index[b] for b in bad]
                # a disagreement is not by itself a violation: the oracle has already
                # looked at every case.  Report the smallest disagreeing input and
                # whether any input violates the property.
                first = min(mism, key=lambda i: len(common.canonical(cases[i])))
                model_says = common.coq_eval(coq["header"], "(%s) %s" % (coq["fn"], coq["enc"](cases[first], obs[first])[0]))
                rep.violation({"suite": name, "obligation": "correspondence:%s (model %s vs implementation)" % (name, coq["fn"]),
                               "case": cases[first], "implementation": obs[first], "model": model_says,
                               "mismatching_cases": len(mism)},
                              "%s: model and implementation disagree on %d case(s)" % (name, len(mism)),
                              no_input=(n_viol == 0))
        else:
            rep.obligation("correspondence:%s" % name, True, "no comparable cases")
    cov = rep.coverage
    cov["evaluations"] = cov.get("evaluations", 0) + len(cases)
    cov["distinct_nontrivial"] = cov.get("distinct_nontrivial", 0) + len(nontrivial)
    cov["traces_validated_against_impl"] = cov.get("traces_validated_against_impl", 0) + n_cmp
    cov["disagreements_checked"] = cov.get("disagreements_checked", 0) + len(mism)
    cov.setdefault("suites", {})[name] = {
        "cases": len(cases), "compared_with_model": n_cmp, "mismatches": len(mism),
        "oracle_violations": n_viol, "nontrivial": len(nontrivial),
        "exhaustive": bool(suite.get("exhaustive")), "bound": suite.get("bound", ""),
        "known_finding_hits": suite.get("_known_hits", {}),
        "histogram": suite.get("histogram", lambda cs, os_: {})(cases, obs)}
    for i in range(0, len(cases), max(1, len(cases) // 3))[:3]:
        cov["samples"].append({"suite": name, "case": cases[i], "observed": obs[i]})
    return n_viol, len(mism)


def run_one(suite, case):
    common._worker_init(common.REPO)
    return common._call((suite["impl"], case))


def shrink(suite, case, sig):
    """Greedy shrinking: keep a candidate when the oracle still reports the same signature."""
    cand = suite.get("shrink")
    oracle = suite.get("oracle")
    if not cand or not oracle:
        return case
    cur = case
    for _ in range(200):
        for c in cand(cur):
            o = run_one(suite, c)
            if isinstance(o, dict) and "__harness_exception__" in o:
                continue
            if any(s == sig for _, s in oracle(c, o)):
                cur = c
                break
        else:
            return cur
    return cur


def first_failing_statement(err):
    """name of the Theorem / Lemma / Example in which coqc stopped, from its 'File "...", line N' message"""
    import re
    ms = list(re.finditer(r'File "\./?((?:theories|props|gen)/[\w.]+\.v)", line (\d+)', err))
    if not ms:
        return None
    m = ([x for x in ms if not x.group(1).startswith("props/")] or ms)[0]      # a failing dependency explains a failing import
    path, line = os.path.join(common.COQ_DIR if hasattr(common, "COQ_DIR") else "/verif/coq", m.group(1)), int(m.group(2))
    try:
        lines = open(path, encoding="utf-8").read().split("\n")[:line]
    except OSError:
        return "%s:%d" % (m.group(1), line)
    for l in reversed(lines):
        mm = re.match(r"\s*(?:Theorem|Lemma|Example|Corollary|Definition|Fixpoint)\s+(\w+)", l)
        if mm:
            return "%s (%s:%d)" % (mm.group(1), m.group(1), line)
    return "%s:%d" % (m.group(1), line)


def main(argv):
    cid = argv[0].upper()
    tier = os.environ.get("VERIF_TIER", "quick")
    if "--tier" in argv:
        tier = argv[argv.index("--tier") + 1]
    mod = load_prop(cid)
    if "--replay" in argv:
        path = argv[argv.index("--replay") + 1]
        data = json.load(open(path))
        suites = {s["name"]: s for s in mod.suites(tier, common.seed_from_env())}
        s = suites.get(data.get("suite"))
        if not s:
            print("replay names no known suite; stored payload:\n" + json.dumps(data, indent=1)[:4000])
            return 0
        o = run_one(s, data["case"])
        print("case:", json.dumps(data["case"]))
        print("implementation:", json.dumps(o, default=str))
        if s.get("oracle"):
            print("oracle:", s["oracle"](data["case"], o))
        if s.get("coq"):
            c = s["coq"]
            print("model:", common.coq_eval(c["header"], "(%s) %s" % (c["fn"], c["enc"](data["case"], o)[0])))
        return 0

    rep = Report(cid, tier)
    rep.coverage["trusted_base"] = list(getattr(mod, "TRUSTED", []))
    rep.assumptions = list(getattr(mod, "ASSUMPTIONS", []))
    known = common.load_known_findings()
    rep.say("== %s (%s tier, seed %d)" % (cid, tier, rep.seed))
    # 1. tables + build
    info = common.ensure_build()
    # a file that does not build matters for this property only if props/<cid>.v depends on it (make -k builds the rest)
    relevant_failed = [f for f in (info.get("failed") or []) if f in common.dependencies_of("props/%s.v" % cid)]
    build_ok = ((info["rc"] == 0 or (info.get("failed") and not relevant_failed)) and not info["gate"]
                and not info["tables"].get("errors"))
    if info["rc"] != 0 and not relevant_failed and info.get("failed"):
        rep.say("  (files outside this property's dependencies do not build: %s)" % info.get("failed"))
    rep.say("  build: rc=%s in %ss, tables changed: %s%s" % (
        info["rc"], info["make_s"], info["tables"].get("changed"),
        (" FAILED FILES: %s" % info["failed"]) if info["rc"] else ""))
    if info["gate"]:
        rep.obligation("no-forbidden-declarations", False, "; ".join(info["gate"]))
    # 2. theorem file
    props = common.check_props_file(cid)
    broken = []
    for t in props["theorems"]:
        rep.obligation("theorem:%s" % t["name"], t["ok"] and props["rc"] == 0,
                       "closed" if t["axioms"] == [] else "axioms=%s" % t["axioms"])
        if not (t["ok"] and props["rc"] == 0):
            broken.append(t["name"])
    if props["rc"] != 0 and not props["theorems"]:
        rep.obligation("theorem-file:props/%s.v" % cid, False, props["err"][-400:])
        broken.append("props/%s.v" % cid)
    if props.get("unreported"):
        rep.obligation("every-theorem-has-Print-Assumptions", False, str(props["unreported"]))
        broken.append("unreported:%s" % props["unreported"])
    rep.coverage["axiom_report"] = {t["name"]: t["axioms"] for t in props["theorems"]}
    rep.say("  theorems: %d stated, %d broken" % (len(props["theorems"]), len(broken)))
    # 3. suites
    total_viol = 0
    for suite in mod.suites(tier, rep.seed):
        v, m = run_suite(rep, mod, suite, known, props["rc"] == 0)
        total_viol += v
    # 4. broken proof obligations: the oracle has searched every case of every suite
    if broken or not build_ok:
        detail = {"obligations_no_longer_checked": broken,
                  "failed_files": info.get("failed"), "tables": info["tables"],
                  "coq_error": (props["err"] or info.get("log_tail", ""))[-3000:]}
        first = first_failing_statement((props["err"] or "") + "\n" + (info.get("log_tail") or ""))
        if first:
            detail["first_failing_statement"] = first
        rep.violation(detail, "proof obligations of %s no longer check%s: %s" % (
            cid, (" (first failing statement: %s)" % first) if first else "",
            ", ".join(broken[:6]) or info.get("failed")), no_input=(total_viol == 0))
    rep.coverage["rule"] = getattr(mod, "RULE", "")
    rep.coverage["exhaustive"] = bool(getattr(mod, "EXHAUSTIVE", False))
    return rep.finish()


if __name__ == "__main__":
    sys.exit(main(sys.argv[1:]))
