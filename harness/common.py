"""Shared machinery of the checks: build, proof-obligation scan, running the
model inside Coq on generated case files, running the implementation in worker
processes, evidence, known findings, violation reports."""
from __future__ import annotations
import os, sys, json, re, time, subprocess, random, hashlib, shutil, tempfile, traceback
import multiprocessing as mp
from concurrent.futures import ThreadPoolExecutor

VERIF = os.path.dirname(os.path.dirname(os.path.abspath(__file__)))
REPO = os.environ.get("VERIF_REPO", "/repo")
COQ = os.path.join(VERIF, "coq")
CASES = os.path.join(COQ, "cases")
REPLAYS = os.path.join(VERIF, "replays")
EVIDENCE = os.environ.get("VERIF_EVIDENCE_DIR") or os.path.join(VERIF, "evidence")
PY = "/venv/bin/python"
NPROC = min(16, os.cpu_count() or 4)

ALLOWED_AXIOMS = {
    # axioms declared by the standard library itself; each one that actually
    # shows up is reported in the evidence and in DESIGN.md section 7
    "functional_extensionality_dep", "Eqdep.Eq_rect_eq.eq_rect_eq", "eq_rect_eq",
    "Classical_Prop.classic", "classic", "proof_irrelevance", "JMeq_eq",
    "propositional_extensionality",
}

STATUS_NAMES = ["unknown", "untested", "executing", "skipped", "passed", "xfailed",
                "xpassed", "failed", "error", "hook_error", "cleanup_error",
                "undefined", "pending", "pending_warn", "untested_pending",
                "untested_undefined"]


def seed_from_env():
    try:
        return int(os.environ.get("VERIF_SEED", "0"))
    except ValueError:
        return 0


# ------------------------------------------------------------------ Coq terms
def cbool(b):
    return "true" if b else "false"


def cnat(n):
    return "%d%%nat" % n


def cN(n):
    return "%d%%N" % n


def cZ(n):
    return "(%d)%%Z" % n


def clist(items, ty=None):
    items = list(items)
    if not items:
        return "(@nil (%s))" % ty if ty else "[]"
    return "[" + "; ".join(items) + "]"


def cstr(s):
    if not s:
        return "(@nil N)"
    return "[" + "; ".join("%d%%N" % ord(c) for c in s) + "]"


def copt(x, ty=None):
    if x is None:
        return "(@None %s)" % ty if ty else "None"
    return "(Some %s)" % x


def cpair(a, b):
    return "(%s, %s)" % (a, b)


# ------------------------------------------------------------------ build
def ensure_build():
    """Regenerate tables from the working tree and run an incremental full
    build.  Returns the info dict of build.build()."""
    sys.path.insert(0, os.path.join(VERIF, "harness"))
    import build
    return build.build()


def dependencies_of(rel):
    """transitive .v dependencies of a file of the development, read from coq_makefile's dependency file"""
    deps = {}
    try:
        for line in open(os.path.join(COQ, ".Makefile.d"), encoding="utf-8"):
            if ":" not in line:
                continue
            left, right = line.split(":", 1)
            targets = [t for t in left.split() if t.endswith(".vo")]
            if not targets:
                continue
            src = [x for x in right.split() if x.endswith(".v")]
            reqs = [x[:-1] for x in right.split() if x.endswith(".vo")]
            for t in targets:
                deps[t[:-1]] = reqs
    except OSError:
        return set()
    seen, todo = set(), [rel]
    while todo:
        f = todo.pop()
        if f in seen:
            continue
        seen.add(f)
        todo.extend(deps.get(f, []))
    return seen


def coqc(path, timeout=600):
    cmd = ["timeout", str(timeout), "coqc", "-Q", "theories", "BV", "-Q", "gen", "BVGen",
           "-Q", "props", "BVProps", "-w", "-notation-overridden,-deprecated", path]
    p = subprocess.run(cmd, cwd=COQ, capture_output=True, text=True)
    return p.returncode, p.stdout, p.stderr


def check_props_file(cid):
    """Compile props/<cid>.v afresh and read the Print Assumptions reports.
    Returns dict(theorems=[{name, axioms, ok}], rc, err)."""
    rel = os.path.join("props", "%s.v" % cid)
    src = open(os.path.join(COQ, rel), encoding="utf-8").read()
    names = re.findall(r"^\s*Print Assumptions\s+([A-Za-z0-9_']+)\s*\.", src, re.M)
    declared = re.findall(r"^\s*(?:Theorem|Lemma|Corollary)\s+([A-Za-z0-9_']+)", src, re.M)
    rc, out, err = coqc(rel)
    theorems = []
    # coqc prints, per Print Assumptions, either "Closed under the global context"
    # or "Axioms:" followed by "name : type" lines.
    chunks = re.split(r"(?=Closed under the global context|Axioms:)", out)
    reports = [c for c in chunks if c.startswith("Closed under") or c.startswith("Axioms:")]
    for i, name in enumerate(names):
        rep = reports[i] if i < len(reports) else None
        if rep is None:
            theorems.append({"name": name, "axioms": None, "ok": False})
            continue
        if rep.startswith("Closed under"):
            theorems.append({"name": name, "axioms": [], "ok": True})
        else:
            axs = re.findall(r"^([A-Za-z0-9_.']+)\s*:", rep, re.M)
            ok = all(a in ALLOWED_AXIOMS or a.split(".")[-1] in ALLOWED_AXIOMS for a in axs)
            theorems.append({"name": name, "axioms": axs, "ok": ok})
    missing = [d for d in declared if d not in names]
    return {"theorems": theorems, "rc": rc, "err": (err or "")[-3000:], "unreported": missing}


# ------------------------------------------------------------------ model runs inside Coq
def _write_case_file(path, header, in_ty, out_ty, fn, eqb, pairs):
    with open(path, "w", encoding="utf-8") as f:
        f.write(header + "\n")
        f.write("Definition cases : list ((%s) * (%s)) :=\n  [" % (in_ty, out_ty))
        f.write(";\n   ".join("(%s, %s)" % (a, b) for a, b in pairs))
        f.write("].\n")
        f.write("Eval vm_compute in (mismatches (%s) (%s) cases).\n" % (fn, eqb))


def _parse_mismatches(out):
    m = re.search(r"=\s*(.*?):\s*list nat", out, re.S)
    if not m:
        return None
    return [int(x) for x in re.findall(r"\d+", m.group(1).replace("%nat", ""))]


def coq_run_cases(tag, header, in_ty, out_ty, fn, eqb, pairs, shard=300, keep=False):
    """pairs: list of (input_term, expected_term).  Returns (bad_indices, errors)
    where errors lists shards that did not evaluate."""
    os.makedirs(CASES, exist_ok=True)
    shards = [pairs[i:i + shard] for i in range(0, len(pairs), shard)]
    files = []
    for k, sh in enumerate(shards):
        path = os.path.join(CASES, "%s_%d.v" % (tag, k))
        _write_case_file(path, header, in_ty, out_ty, fn, eqb, sh)
        files.append(path)

    def run(path):
        return coqc(os.path.relpath(path, COQ), timeout=900)

    bad, errors = [], []
    with ThreadPoolExecutor(max_workers=NPROC) as ex:
        results = list(ex.map(run, files))
    for k, (rc, out, err) in enumerate(results):
        idx = _parse_mismatches(out) if rc == 0 else None
        if idx is None:
            errors.append({"shard": k, "rc": rc, "err": (err or out)[-1500:]})
            continue
        bad.extend(k * shard + i for i in idx)
    if not keep:
        for path in files:
            base = path[:-2]
            for ext in (".v", ".vo", ".vok", ".vos", ".glob"):
                try:
                    os.remove(base + ext)
                except OSError:
                    pass
            try:
                os.remove(os.path.join(os.path.dirname(path), "." + os.path.basename(base) + ".aux"))
            except OSError:
                pass
    return bad, errors


def coq_eval(header, term, timeout=300):
    """Evaluate one term with vm_compute and return Coq's printed text."""
    os.makedirs(CASES, exist_ok=True)
    fd, path = tempfile.mkstemp(prefix="eval_", suffix=".v", dir=CASES)
    with os.fdopen(fd, "w", encoding="utf-8") as f:
        f.write(header + "\nEval vm_compute in (%s).\n" % term)
    rc, out, err = coqc(os.path.relpath(path, COQ), timeout=timeout)
    base = path[:-2]
    for ext in (".v", ".vo", ".vok", ".vos", ".glob"):
        try:
            os.remove(base + ext)
        except OSError:
            pass
    try:
        os.remove(os.path.join(CASES, "." + os.path.basename(base) + ".aux"))
    except OSError:
        pass
    return (out if rc == 0 else "ERROR: " + (err or out))[-4000:]


# ------------------------------------------------------------------ implementation runs
def _worker_init(repo):
    sys.path.insert(0, repo)
    os.environ["PYTHONHASHSEED"] = "0"
    os.environ.setdefault("COLUMNS", "120")
    scratch = tempfile.mkdtemp(prefix="verif_home_")
    os.environ["HOME"] = scratch
    import atexit
    atexit.register(shutil.rmtree, scratch, True)


def _call(args):
    fn, case = args
    try:
        # plain data only: what crosses the process boundary is JSON
        return json.loads(json.dumps(fn(case), default=str))
    except BaseException as e:      # the harness itself must not die on a mutated tree
        return {"__harness_exception__": "%s: %s" % (type(e).__name__, e),
                "tb": traceback.format_exc()[-1500:]}


def impl_map(fn, cases, procs=None, chunksize=64):
    """Run fn(case) for every case in worker processes that import /repo."""
    procs = procs or NPROC
    if len(cases) < 40 or procs == 1:
        _worker_init(REPO)
        return [_call((fn, c)) for c in cases]
    ctx = mp.get_context("fork")
    with ctx.Pool(procs, initializer=_worker_init, initargs=(REPO,)) as pool:
        return pool.map(_call, [(fn, c) for c in cases], chunksize=chunksize)


# ------------------------------------------------------------------ findings / violations
def load_known_findings():
    path = os.path.join(VERIF, "known_findings.json")
    try:
        return json.load(open(path))
    except OSError:
        return {"findings": []}


def canonical(obj):
    return json.dumps(obj, sort_keys=True, ensure_ascii=True, default=str)


def write_replay(cid, kind, payload):
    os.makedirs(REPLAYS, exist_ok=True)
    h = hashlib.sha1(canonical(payload).encode()).hexdigest()[:10]
    path = os.path.join(REPLAYS, "%s_%s_%s.json" % (cid, kind, h))
    payload = dict(payload, property=cid, kind=kind)
    with open(path, "w") as f:
        json.dump(payload, f, indent=1, default=str)
    return path


class Report(object):
    """Collects the outcome of one check run and writes evidence + exit code."""

    def __init__(self, cid, tier, level="proof"):
        self.cid, self.tier, self.level = cid, tier, level
        self.seed = seed_from_env()
        self.t0 = time.time()
        self.violations = []          # (replay_path, text, no_input)
        self.known = []               # text lines
        self.coverage = {"samples": []}
        self.assumptions = []
        self.obligations = []         # (name, discharged, detail)
        self.lines = []

    def say(self, msg):
        print(msg, flush=True)

    def obligation(self, name, ok, detail=""):
        self.obligations.append((name, bool(ok), detail))

    def violation(self, payload, text, no_input=False):
        path = write_replay(self.cid, "violation", dict(payload, what=text))
        self.violations.append((path, text, no_input))

    def known_finding(self, text):
        if text not in self.known:
            self.known.append(text)

    def finish(self):
        wall = time.time() - self.t0
        cov = self.coverage
        cov["obligations"] = len(self.obligations)
        cov["discharged"] = sum(1 for _, ok, _ in self.obligations if ok)
        cov["obligation_list"] = [{"name": n, "discharged": ok, "detail": d} for n, ok, d in self.obligations]
        cov.setdefault("checker_cmd", "coqc (Coq 8.16.1) via harness/check.py %s --tier %s" % (self.cid, self.tier))
        cov.setdefault("trusted_base", [])
        ev = {"property_id": self.cid, "tier": self.tier, "seed": self.seed, "level": self.level,
              "coverage": cov, "assumptions": self.assumptions, "wall_s": round(wall, 2),
              "violations": len(self.violations), "known_findings": self.known}
        os.makedirs(EVIDENCE, exist_ok=True)
        with open(os.path.join(EVIDENCE, "%s.json" % self.cid), "w") as f:
            json.dump(ev, f, indent=1, default=str)
            f.write("\n")
        for k in self.known:
            print("KNOWN-FINDING: property=%s %s" % (self.cid, k))
        seen = set()
        for path, text, no_input in self.violations:
            if path in seen:
                continue
            seen.add(path)
            tail = " no-failing-input-found" if no_input else ""
            print("VIOLATION property=%s replay=%s %s%s" % (self.cid, path, text.replace("\n", " ")[:300], tail))
        print("%s %s: %d/%d obligations discharged, %d violation(s), %d known finding(s), %.1fs" % (
            self.cid, self.tier, cov["discharged"], cov["obligations"], len(seen), len(self.known), wall))
        return 1 if self.violations else 0
