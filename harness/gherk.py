"""Shared by C04 and C05: driving behave's Gherkin parser, canonical trees, Coq encoders, document rendering."""
from __future__ import annotations
import random, re
from common import clist, cbool, cstr, cnat

HEADER = "From BV Require Import Base UStr GherkinTypes Gherkin.\n"
ENTRIES = {"feature": "EFeature", "rule": "ERule", "scenario": "EScenario", "steps": "ESteps", "tags": "ETags"}


# ---------------------------------------------------------------- implementation
def c_tags(tags):
    return [[str(t), getattr(t, "line", None)] for t in tags]


def c_table(t):
    if t is None:
        return None
    return {"head": list(t.headings), "rows": [[list(r.cells), r.line] for r in t.rows], "line": t.line}


def c_step(s):
    return {"kw": s.keyword, "type": s.step_type, "name": s.name, "line": s.line,
            "text": ([str(s.text), s.text.line] if s.text is not None else None), "table": c_table(s.table)}


def c_scen(s):
    from behave.model import ScenarioOutline
    ol = isinstance(s, ScenarioOutline)
    return {"outline": ol, "kw": s.keyword, "name": s.name, "line": s.line, "tags": c_tags(s.tags), "descr": list(s.description),
            "steps": [c_step(x) for x in s.steps],
            "examples": [{"kw": e.keyword, "name": e.name, "line": e.line, "tags": c_tags(e.tags), "table": c_table(e.table)}
                         for e in (s.examples if ol else [])]}


def c_bg(b, owner_line=None):
    if b is None or (owner_line is not None and b.line == owner_line):
        return None
    return {"kw": b.keyword, "name": b.name, "line": b.line, "steps": [c_step(x) for x in b.steps], "descr": list(b.description)}


def c_rule(r):
    return {"kw": r.keyword, "name": r.name, "line": r.line, "tags": c_tags(r.tags), "descr": list(r.description),
            "bg": c_bg(r.background, r.line), "items": [c_scen(x) for x in r.run_items]}


def c_feature(f):
    from behave.model import Rule
    return {"kw": f.keyword, "name": f.name, "line": f.line, "tags": c_tags(f.tags), "descr": list(f.description),
            "bg": c_bg(f.background), "lang": f.language,
            "items": [({"rule": c_rule(x)} if isinstance(x, Rule) else {"scen": c_scen(x)}) for x in f.run_items]}


def impl_parse(case):
    import logging
    from behave import parser
    from behave.model import Rule, Scenario
    logging.getLogger("behave").disabled = True
    entry, text, lang = case["entry"], case["text"], case.get("lang")
    try:
        if entry == "feature":
            f = parser.parse_feature(text, language=lang, filename="t.feature")
            return {"ok": ["feature", c_feature(f) if f is not None else None]}
        if entry == "rule":
            r = parser.parse_rule(text, language=lang, filename="t.feature")
            return {"ok": ["rule", c_rule(r) if isinstance(r, Rule) else (None if r is None else {"unexpected": type(r).__name__})]}
        if entry == "scenario":
            s = parser.parse_scenario(text, language=lang, filename="t.feature")
            return {"ok": ["scenario", c_scen(s) if isinstance(s, Scenario) else (None if s is None else {"unexpected": type(s).__name__})]}
        if entry == "steps":
            st = parser.parse_steps(text, language=lang, filename="t.feature")
            return {"ok": ["steps", [c_step(x) for x in st]]}
        tags = parser.parse_tags(text)
        return {"ok": ["tags", c_tags(tags)]}
    except parser.ParserError as e:
        return {"error": e.line, "msg": str(e)[:200]}
    except Exception as e:          # noqa -- an internal exception is the observation C05 is about
        return {"crash": type(e).__name__, "msg": str(e)[:200]}


# ---------------------------------------------------------------- Coq encoding of trees
def q_strs(l):
    return clist([cstr(x) for x in l], "ustr")


def q_tags(tags):
    return clist(["(%s, %s)" % (cstr(n), cnat(l if l is not None else 0)) for n, l in tags], "tag")


def q_table(t):
    if t is None:
        return "None"
    return "(Some (mkPTable %s %s %s))" % (q_strs(t["head"]), clist(["(%s, %s)" % (q_strs(c), cnat(l)) for c, l in t["rows"]], "list ustr * nat"),
                                           cnat(t["line"]))


ST = {"given": "SGiven", "when": "SWhen", "then": "SThen"}


def q_step(s):
    if s["type"] not in ST:
        raise ValueError("step type %r" % s["type"])
    text = "None" if s["text"] is None else "(Some (%s, %s))" % (cstr(s["text"][0]), cnat(s["text"][1]))
    return "(mkPStep %s %s %s %s %s %s)" % (cstr(s["kw"]), ST[s["type"]], cstr(s["name"]), cnat(s["line"]), text, q_table(s["table"]))


def q_steps(l):
    return clist([q_step(s) for s in l], "pstep")


def q_scen(s):
    ex = clist(["(mkPEx %s %s %s %s %s)" % (cstr(e["kw"]), cstr(e["name"]), cnat(e["line"]), q_tags(e["tags"]), q_table(e["table"]))
                for e in s["examples"]], "pexamples")
    return "(mkPScen %s %s %s %s %s %s %s %s)" % (cbool(s["outline"]), cstr(s["kw"]), cstr(s["name"]), cnat(s["line"]), q_tags(s["tags"]),
                                                  q_strs(s["descr"]), q_steps(s["steps"]), ex)


def q_bg(b):
    if b is None:
        return "None"
    return "(Some (mkPBg %s %s %s %s %s))" % (cstr(b["kw"]), cstr(b["name"]), cnat(b["line"]), q_steps(b["steps"]), q_strs(b["descr"]))


def q_rule(r):
    return "(mkPRule %s %s %s %s %s %s %s)" % (cstr(r["kw"]), cstr(r["name"]), cnat(r["line"]), q_tags(r["tags"]), q_strs(r["descr"]),
                                               q_bg(r["bg"]), clist([q_scen(x) for x in r["items"]], "pscen"))


def q_feature(f):
    items = clist(["(FRule %s)" % q_rule(i["rule"]) if "rule" in i else "(FScen %s)" % q_scen(i["scen"]) for i in f["items"]], "fitem")
    return "(mkPFeat %s %s %s %s %s %s %s %s)" % (cstr(f["kw"]), cstr(f["name"]), cnat(f["line"]), q_tags(f["tags"]), q_strs(f["descr"]),
                                                  q_bg(f["bg"]), items, cstr(f["lang"]))


def q_outcome(obs):
    """Coq term of type option (res parsed)"""
    if "crash" in obs:
        return None
    if "error" in obs:
        if obs["error"] is None:
            return None
        return "(Some (RErr %s))" % cnat(obs["error"])
    kind, val = obs["ok"]
    if isinstance(val, dict) and "unexpected" in val:
        return None
    if kind == "feature":
        return "(Some (ROk (PFeature %s)))" % ("None" if val is None else "(Some %s)" % q_feature(val))
    if kind == "rule":
        return "(Some (ROk (PRule %s)))" % ("None" if val is None else "(Some %s)" % q_rule(val))
    if kind == "scenario":
        return "(Some (ROk (PScenario %s)))" % ("None" if val is None else "(Some %s)" % q_scen(val))
    if kind == "steps":
        return "(Some (ROk (PSteps %s)))" % q_steps(val)
    return "(Some (ROk (PTags %s)))" % q_tags(val)


def enc(case, obs):
    try:
        out = q_outcome(obs)
    except ValueError:
        return None
    if out is None:
        return None
    lang = "None" if case.get("lang") is None else "(Some %s)" % cstr(case["lang"])
    return "(%s, %s, %s)" % (ENTRIES[case["entry"]], lang, cstr(case["text"])), out


EQB = """
Definition opt_eqb {A} (e : A -> A -> bool) (a b : option A) : bool :=
  match a, b with Some x, Some y => e x y | None, None => true | _, _ => false end.
Definition strs_eqb := list_eqb ustr_eqb.
Definition tag_eqb (a b : tag) : bool := ustr_eqb (fst a) (fst b) && Nat.eqb (snd a) (snd b).
Definition tags_eqb := list_eqb tag_eqb.
Definition table_eqb (a b : ptable) : bool :=
  strs_eqb (pt_head a) (pt_head b) && list_eqb (fun x y => strs_eqb (fst x) (fst y) && Nat.eqb (snd x) (snd y)) (pt_rows a) (pt_rows b) &&
  Nat.eqb (pt_line a) (pt_line b).
Definition stept_eqb (a b : stept) : bool := match a, b with SGiven, SGiven | SWhen, SWhen | SThen, SThen => true | _, _ => false end.
Definition step_eqb (a b : pstep) : bool :=
  ustr_eqb (ps_kw a) (ps_kw b) && stept_eqb (ps_type a) (ps_type b) && ustr_eqb (ps_name a) (ps_name b) && Nat.eqb (ps_line a) (ps_line b) &&
  opt_eqb (fun x y => ustr_eqb (fst x) (fst y) && Nat.eqb (snd x) (snd y)) (ps_text a) (ps_text b) && opt_eqb table_eqb (ps_table a) (ps_table b).
Definition ex_eqb (a b : pexamples) : bool :=
  ustr_eqb (pe_kw a) (pe_kw b) && ustr_eqb (pe_name a) (pe_name b) && Nat.eqb (pe_line a) (pe_line b) && tags_eqb (pe_tags a) (pe_tags b) &&
  opt_eqb table_eqb (pe_table a) (pe_table b).
Definition scen_eqb (a b : pscen) : bool :=
  Bool.eqb (sc_outline a) (sc_outline b) && ustr_eqb (sc_kw a) (sc_kw b) && ustr_eqb (sc_name a) (sc_name b) && Nat.eqb (sc_line a) (sc_line b) &&
  tags_eqb (sc_tags a) (sc_tags b) && strs_eqb (sc_descr a) (sc_descr b) && list_eqb step_eqb (sc_steps a) (sc_steps b) &&
  list_eqb ex_eqb (sc_examples a) (sc_examples b).
Definition bg_eqb (a b : pbg) : bool :=
  ustr_eqb (bg_kw a) (bg_kw b) && ustr_eqb (bg_name a) (bg_name b) && Nat.eqb (bg_line a) (bg_line b) &&
  list_eqb step_eqb (bg_steps a) (bg_steps b) && strs_eqb (bg_descr a) (bg_descr b).
Definition rule_eqb (a b : prule) : bool :=
  ustr_eqb (r_kw a) (r_kw b) && ustr_eqb (r_name a) (r_name b) && Nat.eqb (r_line a) (r_line b) && tags_eqb (r_tags a) (r_tags b) &&
  strs_eqb (r_descr a) (r_descr b) && opt_eqb bg_eqb (r_bg a) (r_bg b) && list_eqb scen_eqb (r_items a) (r_items b).
Definition item_eqb (a b : fitem) : bool :=
  match a, b with FScen x, FScen y => scen_eqb x y | FRule x, FRule y => rule_eqb x y | _, _ => false end.
Definition feature_eqb (a b : pfeature) : bool :=
  ustr_eqb (f_kw a) (f_kw b) && ustr_eqb (f_name a) (f_name b) && Nat.eqb (f_line a) (f_line b) && tags_eqb (f_tags a) (f_tags b) &&
  strs_eqb (f_descr a) (f_descr b) && opt_eqb bg_eqb (f_bg a) (f_bg b) && list_eqb item_eqb (f_items a) (f_items b) && ustr_eqb (f_lang a) (f_lang b).
Definition parsed_eqb (a b : parsed) : bool :=
  match a, b with
  | PFeature x, PFeature y => opt_eqb feature_eqb x y
  | PRule x, PRule y => opt_eqb rule_eqb x y
  | PScenario x, PScenario y => opt_eqb scen_eqb x y
  | PSteps x, PSteps y => list_eqb step_eqb x y
  | PTags x, PTags y => tags_eqb x y
  | _, _ => false
  end.
Definition outcome_eqb (a b : option (res parsed)) : bool :=
  match a, b with
  | Some (ROk x), Some (ROk y) => parsed_eqb x y
  | Some (RErr x), Some (RErr y) => Nat.eqb x y
  | None, None => true
  | _, _ => false
  end.
"""

COQ = {"header": HEADER + EQB, "in_ty": "entry * option ustr * ustr", "out_ty": "option (res parsed)",
       "fn": "fun c => parse (fst (fst c)) (snd (fst c)) (snd c)", "eqb": "outcome_eqb", "enc": enc, "shard": 150}


# ---------------------------------------------------------------- keyword tables (read from the code for *rendering* only)
def load_languages():
    from behave import i18n
    return i18n.languages
