#!/usr/bin/env python3
"""mkseedround.py <dir> <hints.json>: one scratch worktree of /repo per property under <dir>, each with PROPERTY.json
(property text + where_to_make_the_change) and INSTRUCTIONS.md for a sub-agent.  Nothing from /verif except the property text."""
import json, subprocess, sys
top, hints = sys.argv[1], json.load(open(sys.argv[2]))
T = '''You are helping to evaluate a verification tool by mutation. Work ONLY inside the scratch git worktree TOP/CID (a checkout of the Python BDD framework "behave"). Do not touch /repo or /verif or any other directory, and do not read anything under /verif.

IMPORTANT: other agents work at the same time in sibling worktrees of the same repository. NEVER use `git stash` (the stash is shared between worktrees and you would swap changes with them). To test the unchanged code, save your change with `git diff -- behave > TOP/CID/patch.diff`, undo it with `git apply -R TOP/CID/patch.diff`, test, and re-apply it with `git apply TOP/CID/patch.diff`.

Read TOP/CID/PROPERTY.json: it describes one semantic property of behave (statement, quantifier, anchors into the code) and a field "where_to_make_the_change".

Task: make ONE small, subtle, realistic source change under TOP/CID/behave/ (the kind of slip a maintainer could make in a refactoring: a reordered statement, a wrong default, a cached value, an off-by-one, a dropped branch, a condition slightly too wide/narrow, a wrong variable of the same type, a changed comparison, a helper simplified a little too much) such that:
1. the code still byte-compiles (`cd TOP/CID && /venv/bin/python -m compileall -q behave`);
2. the repository's test suite gives exactly the same results as before the change. Run it before and after with: `cd TOP/CID && /venv/bin/python -m pytest -q -p no:cacheprovider --timeout=900 2>&1 | tail -5` (python -m puts the worktree first on sys.path so the worktree's behave is tested; a few tests already fail/skip before your change - the pass/fail counts and the set of failing tests must be identical afterwards);
3. the property in PROPERTY.json is genuinely violated by the changed code for some input. Follow "where_to_make_the_change": many mutations of the main mechanisms have been explored already, so the change must sit in the place named there (or, if that proves impossible without breaking the test suite, as close to it as you can get - say so in your report), and the violation should only show for some inputs (ideally an input shape or configuration that the property's quantifier covers but that a test generator could easily forget), not for every run.

Then write TOP/CID/demo.py: a self-contained script (run as `cd TOP/CID && PYTHONPATH=TOP/CID PYTHONHASHSEED=0 /venv/bin/python demo.py`) that drives behave in-process or via `python -m behave` on a small feature it writes to a temporary directory, checks the property's clause on that input, and exits 0 when the property holds and non-zero (printing what went wrong) when it is violated. It must locate behave through PYTHONPATH (no hard-coded paths other than via its own location / temp dirs). Verify yourself: demo exits non-zero with your change and 0 on the unchanged code; leave your change applied at the end.

Finally write the change as a patch: `cd TOP/CID && git diff -- behave > TOP/CID/patch.diff` (only files under behave/ in the patch; demo.py, PROPERTY.json, INSTRUCTIONS.md and patch.diff stay untracked and out of the patch).

Report back (short): which file/function you changed and how, which clause of the property it breaks, what input is needed for the violation to manifest, pytest summary lines before and after, and the demo's exit codes on unchanged and changed code.
'''
for l in open('/verif/properties.jsonl'):
    p = json.loads(l); cid = p['id']
    wt = '%s/%s' % (top, cid)
    subprocess.run("git -C /repo worktree remove --force %s" % wt, shell=True, capture_output=True)
    r = subprocess.run("git -C /repo worktree add --detach %s HEAD" % wt, shell=True, capture_output=True, text=True)
    assert r.returncode == 0, r.stderr
    p2 = {k: p[k] for k in ("id", "title", "statement", "quantifier", "why_tests_cant", "anchors")}
    p2["where_to_make_the_change"] = hints[cid]
    json.dump(p2, open(wt + '/PROPERTY.json', 'w'), indent=1)
    open(wt + '/INSTRUCTIONS.md', 'w').write(T.replace('TOP', top).replace('CID', cid))
print("worktrees:", subprocess.run("ls %s | wc -l" % top, shell=True, capture_output=True, text=True).stdout.strip())
