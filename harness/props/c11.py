"""C11 — step matching and dispatch: full-text match, right definition, right arguments."""
from __future__ import annotations
import os, random, re, itertools
from common import clist, cbool, cstr, cnat, cZ

TRUSTED = [
    "Coq 8.16.1 kernel (coqc, vm_compute); no axioms",
    "the translation of pattern texts into the model's flat form (literals and class+quantifier fields) is done by the harness: the "
    "`parse`, `parse_type.cfparse` and `re` libraries are modelled only for that shape (their pattern syntax and engines are trusted)",
    "harness/gen_more.py: \\w table of Python's re (code points < 0x250), str.isspace",
    "StepModules.v is a hand-written rendering of runner_util.load_step_modules (execution of module source, sys.path handling and "
    "per-module globals are not modelled); tied to the code by the step_modules suite",
]
ASSUMPTIONS = [
    "parse / cfparse patterns are sequences of literals and capturing fields (one character class with one quantifier each); cfparse cardinality "
    "fields are not generated; cucumber expressions: matching is modelled (Cuke.v: literal / optional / alternative text, {int} {word} {}), "
    "registration histories under that matcher and the {string} parameter are covered by the oracle only",
    "regular expressions (re, re0): alternation, greedy/lazy * + ?, named/unnamed/nested/optional groups, character classes are modelled "
    "(Regex.v, Python's backtracking priority); quantified bodies that can match the empty string, quantifiers nested in * or + bodies, "
    "look-around and back-references are not generated",
    "parse's d type is modelled for its decimal alternative (texts such as 0x1F / 0b1 / 0o7 are not generated); step texts are ASCII plus a few "
    "non-ASCII letters and contain no line breaks",
    "top-level alternatives of `re` patterns contain no capturing groups (non-participating groups are reported by RegexMatcher as None arguments)",
    "`re0` does what its documentation says: the pattern author writes the anchors; the property's full-match clause names parse, cfparse and re",
]
RULE = ("seeded random registration histories (1-8 registrations over 4 step types x patterns of 1-5 atoms: literal words, {name}, {}, {n:d}, {:w}, {x:f}, "
        "custom types with and without failing converter, their regex-group counterparts, top-level alternations for `re`; functions with distinct and with "
        "shared source locations; re-registrations of the same function), interleaved with use_step_matcher / use_default_step_matcher / "
        "use_current_step_matcher_as_default switches, followed by look-ups (every step type x texts derived from the registered patterns: exact "
        "instance, wrong case, extra prefix, extra suffix, changed literal, instances of other patterns, the pattern text itself)")
LEVEL_TEXT = ("Theorems over StepMatch.v: the flat matcher is sound - a match splits the complete step text into the pattern's literals and field pieces, "
              "each piece in its field's language, spans are the running offsets and delimit `original` (case-sensitive, no prefix/suffix left over when "
              "anchored); Match.run's positional/keyword split; find_match returns the first matching definition of type-list ++ generic-list in "
              "registration order and only definitions registered for that type or generically; the regular-expression matcher (alternation, quantifiers, "
              "groups) is sound: an end-anchored match implies the complete text is in the language, reported group spans delimit their text; "
              "loading the step modules of a run (StepModules.v: load_step_modules as an operation list over the registry model): every module "
              "starts under the matcher in force when loading began, whatever earlier modules left chosen; "
              "for all registration histories: lists only grow at the "
              "end, an ambiguous or repeated registration leaves the registry unchanged, every definition carries the matcher kind in force when it "
              "was registered.  Model compared with StepRegistry + the real matchers.")
LEVEL_NOTE = "Trusted: Coq kernel, generated tables, harness translation of pattern syntax."
EXHAUSTIVE = False

KINDS = ["parse", "cfparse", "re", "re0"]
TYPES = ["given", "when", "then", "step"]
WORDS = ["I", "have", "the", "user", "and", "is", "x", "items", "a.b", "done?", "Ünï"]
# abstract field kinds: (parse text, parse cls/greedy/min0/conv, regex text, regex cls/greedy/min0)
FIELDS = {
    "any": ("{%s}", ("CAny", False, False, "VText"), "(?P<%s>.+?)", ("CAny", False, False)),
    "int": ("{%s:d}", ("CSignedInt", True, False, "VInt"), "(?P<%s>[-+]?[0-9]+)", None),
    "word": ("{%s:w}", ("CWord", True, False, "VText"), "(?P<%s>\\w+)", ("CWord", True, False)),
    "float": ("{%s:f}", ("CFloat", True, False, "VFloatText"), None, None),
    "number": ("{%s:Number}", ("CDigit", True, False, "VInt"), "(?P<%s>\\d+)", ("CDigit", True, False)),
    "small": ("{%s:Small}", ("CDigit", True, False, "VSmallInt"), None, None),
    # {x:Number} in a definition registered after the type name Number was declared again with the Small converter (op "retype")
    "number2": ("{%s:Number}", ("CDigit", True, False, "VSmallInt"), None, None),
    "zeronone": ("{%s:ZeroNone}", ("CDigit", True, False, "VZeroNone"), None, None),
    "nonspace": ("{%s:S}", ("CNonSpace", True, False, "VText"), "(?P<%s>\\S+)", ("CNonSpace", True, False)),
    "alpha": ("{%s:l}", ("CAlpha", True, False, "VText"), "(?P<%s>[A-Za-z]+)", ("CAlpha", True, False)),
    "greedy": (None, None, "(?P<%s>.+)", ("CAny", True, False)),
    "star": (None, None, "(?P<%s>.*)", ("CAny", True, True)),
}
SAMPLE = {"any": ["Alice", "two words", "x and y", "7"], "int": ["12", "-5", "+3", "007"], "word": ["foo", "bar_1", "Ünï"],
          "float": ["1.5", "-.25", "3.0"], "number": ["4", "42", "100", "250"], "small": ["7", "99", "100", "1234"], "number2": ["7", "99", "100", "250"], "zeronone": ["0", "5", "00", "10"], "nonspace": ["a-b", "x/y"],
          "alpha": ["abc", "Zed"], "greedy": ["all of it", "z"], "star": ["", "rest"]}


def render_lit(kind, s):
    if kind in ("parse", "cfparse"):
        return s.replace("{", "{{").replace("}", "}}")
    return re.escape(s)


def make_pattern(rnd, allow_alt=True):
    """abstract pattern: {"alts": [[("lit", s) | ("field", kind, name|None)]...]}"""
    if allow_alt and rnd.random() < 0.12:
        alts = [[("lit", " ".join(rnd.sample(WORDS[:8], rnd.randint(1, 3))))] for _ in range(2)]
        return {"alts": alts}
    atoms = []
    names = iter(["a", "b", "c", "d"])
    n = rnd.randint(1, 5)
    last_field = False
    for i in range(n):
        if rnd.random() < 0.45 and not (last_field and rnd.random() < 0.8):
            kind = rnd.choice([k for k in FIELDS if k != "number2"])
            name = next(names) if rnd.random() < 0.75 else None
            if atoms and not last_field and not atoms[-1][1].endswith(" "):
                atoms[-1] = ("lit", atoms[-1][1] + " ")
            atoms.append(("field", kind, name))
            last_field = True
        else:
            w = rnd.choice(WORDS)
            atoms.append(("lit", (" " if atoms and rnd.random() < 0.9 else "") + w))
            last_field = False
    if not any(a[0] == "lit" for a in atoms):
        atoms.insert(0, ("lit", "say "))
    # merge adjacent literals
    merged = []
    for a in atoms:
        if a[0] == "lit" and merged and merged[-1][0] == "lit":
            merged[-1] = ("lit", merged[-1][1] + a[1])
        else:
            merged.append(a)
    return {"alts": [merged]}


def available(pat, kind):
    for alt in pat["alts"]:
        for a in alt:
            if a[0] == "field":
                spec = FIELDS[a[1]]
                if kind in ("parse", "cfparse") and spec[0] is None:
                    return False
                if kind in ("re", "re0") and (spec[2] is None or spec[3] is None):
                    return False
    if len(pat["alts"]) > 1 and kind != "re":
        return False
    return True


CUKE = "cucumber_expressions"
CUKE_FIELDS = {"int": ("{int}", r"-?\d+"), "word": ("{word}", r"[^\s]+"), "string": ("{string}", r'"(?:[^"\\]|\\.)*"|\'(?:[^\'\\]|\\.)*\''),
               "anon": ("{}", r".*")}
CUKE_SAMPLE = {"int": ["12", "-5", "007", "0"], "word": ["foo", "bar_1", "Ünï", "a-b"], "string": ['"a peel"', "'x y'", '""', '"7"'],
               "anon": ["Alice", "two words", "", "7"]}


def render_cuke(pat):
    parts = []
    for a in pat["alts"][0]:
        if a[0] == "lit":
            parts.append(a[1])
        elif a[0] == "opt":
            parts.append("%s(%s)" % (a[1], a[2]))
        elif a[0] == "alt":
            parts.append("/".join(a[1]))
        else:
            parts.append(CUKE_FIELDS[a[1]][0])
    return "".join(parts)


def cuke_regex(pat):
    parts = []
    for a in pat["alts"][0]:
        if a[0] == "lit":
            parts.append(re.escape(a[1]))
        elif a[0] == "opt":
            parts.append("%s(?:%s)?" % (re.escape(a[1]), re.escape(a[2])))
        elif a[0] == "alt":
            parts.append("(?:%s)" % "|".join(re.escape(x) for x in a[1]))
        else:
            parts.append("(%s)" % CUKE_FIELDS[a[1]][1])
    return "(?:%s)" % "".join(parts)


def render_pattern(pat, kind, end_anchor=True):
    if kind == CUKE:
        return render_cuke(pat)
    outs = []
    for alt in pat["alts"]:
        parts = []
        anon = 0
        for a in alt:
            if a[0] == "lit":
                parts.append(render_lit(kind, a[1]))
            else:
                spec = FIELDS[a[1]]
                if kind in ("parse", "cfparse"):
                    parts.append(spec[0] % (a[2] or ""))
                else:
                    t = spec[2] % (a[2] or "")
                    if a[2] is None:
                        t = t.replace("?P<>", "")
                    parts.append(t)
        outs.append("".join(parts))
    text = "|".join(outs)
    if kind == "re0":
        text = "^" + text + ("$" if end_anchor else "")
    return text


def instance(rnd, pat, mutate=None):
    alt = rnd.choice(pat["alts"])
    parts = []
    same = {} if rnd.random() < 0.4 else None        # sometimes all fields of one kind get the same text ("5 and 5")
    for a in alt:
        if a[0] == "lit":
            parts.append(a[1])
        elif same is not None:
            parts.append(same.setdefault(a[1], rnd.choice(SAMPLE[a[1]])))
        else:
            parts.append(rnd.choice(SAMPLE[a[1]]))
    text = "".join(parts)
    if mutate == "case":
        text = text.swapcase()
    elif mutate == "prefix":
        text = "so " + text
    elif mutate == "suffix":
        text = text + " and more"
    elif mutate == "literal":
        lits = [i for i, a in enumerate(alt) if a[0] == "lit" and a[1].strip()]
        if lits:
            i = rnd.choice(lits)
            parts[i] = parts[i].replace(parts[i].strip()[0], "Q", 1)
            text = "".join(parts)
    return text


# ---------------------------------------------------------------- implementation
MODULE_SRC = """
calls = []
def _rec(i):
    def rec(context, *args, **kwargs):
        calls.append((i, list(args), sorted(kwargs.items())))
    return rec
%s
def make(i):
    def impl(context, *args, **kwargs):
        calls.append((i, list(args), sorted(kwargs.items())))
    return impl
"""


class _Ctx(object):
    def use_with_user_mode(self):
        import contextlib
        return contextlib.nullcontext()


class _Step(object):
    def __init__(self, step_type, name):
        self.step_type = step_type
        self.name = name


def canon_value(v, original):
    if v is None:
        return ["none"]
    if isinstance(v, bool):
        return ["other", repr(v)]
    if isinstance(v, int):
        return ["int", v]
    if isinstance(v, float):
        try:
            return ["float", original] if float(original.replace(" ", "")) == v else ["other", repr(v)]
        except ValueError:
            return ["other", repr(v)]
    if isinstance(v, str):
        return ["text", v]
    return ["other", repr(v)]


def impl_history(case):
    import tempfile, shutil, io, contextlib, parse
    from behave import matchers
    from behave.step_registry import StepRegistry, AmbiguousStep
    from behave.matchers import MatchWithError
    factory = matchers.get_step_matcher_factory()
    factory.reset()

    @parse.with_pattern(r"\d+")
    def number(text):
        return int(text)

    @parse.with_pattern(r"\d+")
    def small(text):
        v = int(text)
        if v > 99:
            raise ValueError("too big: %s" % text)
        return v
    factory.use_step_matcher("parse")
    @parse.with_pattern(r"\d+")
    def zeronone(text):
        return int(text) or None            # a declared converter may return None
    factory.register_type(Number=number, Small=small, ZeroNone=zeronone)
    factory.use_default_step_matcher("parse")
    top = tempfile.mkdtemp(prefix="c11_")
    try:
        nfun = case["nfuncs"]
        src = MODULE_SRC % "\n".join("def f%d(context, *args, **kwargs):\n    calls.append((%d, list(args), sorted(kwargs.items())))" % (i, i)
                                    for i in range(nfun))
        path = os.path.join(top, "steps_mod.py")
        with open(path, "w") as fh:
            fh.write(src)
        glob = {}
        exec(compile(src, path, "exec"), glob)
        funcs = {}
        for i in range(nfun):
            funcs[i] = glob["f%d" % i]
        for i in case["factory_funcs"]:
            funcs[i] = glob["make"](i)
        loc_of = {}
        registry = StepRegistry()
        outs = []
        for op in case["ops"]:
            if op[0] == "register":
                _, stype, pidx, fid = op
                pat = case["patterns"][pidx]
                kind = factory.current_matcher.NAME
                text = render_pattern(pat, kind, pat.get("end", True))
                before = len(registry.steps[stype])
                try:
                    with contextlib.redirect_stderr(io.StringIO()):
                        registry.add_step_definition(stype, text, funcs[fid])
                    after = len(registry.steps[stype])
                    if after > before:
                        from behave.matchers import Match
                        loc_of[str(Match.make_location(funcs[fid]))] = case["locs"][str(fid)]
                    outs.append(["added" if after > before else "ignored", kind])
                except AmbiguousStep as e:
                    m = re.search(r"existing step .* at (\S+:\d+)\s*$", str(e), re.S)
                    outs.append(["ambiguous", kind, loc_of.get(m.group(1)) if m else None])
            elif op[0] == "use":
                if op[1] == CUKE:
                    from behave.cucumber_expression import use_step_matcher_for_cucumber_expressions
                    use_step_matcher_for_cucumber_expressions()
                else:
                    factory.use_step_matcher(op[1])
            elif op[0] == "retype":
                # the type name Number is declared again, now with another converter: definitions registered
                # from here on are converted by the converter declared last
                factory.register_type(Number=small)
            elif op[0] == "use_default":
                factory.use_default_step_matcher(op[1])
            elif op[0] == "current_as_default":
                factory.use_current_step_matcher_as_default()
            else:
                _, stype, text = op
                del glob["calls"][:]
                m = registry.find_match(_Step(stype, text))
                if m is None:
                    outs.append(["undefined"])
                    continue
                if isinstance(m, MatchWithError):
                    fid = [k for k, f in funcs.items() if f is m.func]
                    outs.append(["conv_error", fid[0] if fid else None])
                    continue
                args = [{"start": a.start, "end": a.end, "original": a.original, "value": canon_value(a.value, a.original or ""), "name": a.name}
                        for a in m.arguments]
                m.run(_Ctx())
                call = glob["calls"][-1] if glob["calls"] else None
                outs.append(["bound", call[0] if call else None, args,
                             [canon_value(v, "") if not isinstance(v, float) else ["float", None] for v in call[1]] if call else None,
                             [[k, canon_value(v, "") if not isinstance(v, float) else ["float", None]] for k, v in call[2]] if call else None])
        return {"outs": outs}
    finally:
        shutil.rmtree(top, ignore_errors=True)
        factory.reset()


# ---------------------------------------------------------------- oracle
def intended_regex(pat, kind):
    """the regular expression the pattern author means, built independently of behave: full match"""
    if kind == CUKE:
        return cuke_regex(pat)
    outs = []
    for alt in pat["alts"]:
        parts = []
        for a in alt:
            if a[0] == "lit":
                parts.append(re.escape(a[1]))
            else:
                k = a[1]
                body = {"any": ".+?", "int": "[-+ ]?[-+ ]?[0-9]+" if kind in ("parse", "cfparse") else "[-+]?[0-9]+", "word": r"\w+",
                        "float": r"[-+ ]?\d*\.\d+", "number": r"\d+", "small": r"\d+", "number2": r"\d+", "zeronone": r"\d+", "nonspace": r"\S+", "alpha": "[A-Za-z]+",
                        "greedy": ".+", "star": ".*"}[k]
                parts.append("(%s)" % body)
        outs.append("".join(parts))
    return "(?:%s)" % "|".join(outs)


def oracle(case, obs):
    out = []
    kind_state = {"current": "parse", "default": "parse"}
    regs = {t: [] for t in TYPES}          # per type: list of (pattern idx, kind, fid, end)
    k = 0
    for op in case["ops"]:
        if op[0] == "use":
            kind_state["current"] = op[1]
            continue
        if op[0] == "use_default":
            if op[1]:
                kind_state["default"] = op[1]
            kind_state["current"] = kind_state["default"]
            continue
        if op[0] == "current_as_default":
            kind_state["default"] = kind_state["current"]
            continue
        if op[0] == "retype":
            continue            # its effect is carried by the "number2" fields of the patterns registered afterwards
        o = obs["outs"][k]
        k += 1
        if op[0] == "register":
            _, stype, pidx, fid = op
            kind = kind_state["current"]
            if o[1] != kind:
                out.append(("registration after matcher switches used matcher %r, expected %r (ops %r)" % (o[1], kind, case["ops"]), "matcher-switch"))
                continue
            pat = case["patterns"][pidx]
            text = render_pattern(pat, kind, pat.get("end", True))
            same = [r for r in regs[stype] if r[2] == fid and render_pattern(case["patterns"][r[0]], r[1], case["patterns"][r[0]].get("end", True)) == text and r[1] == kind]
            if same:
                if o[0] != "ignored":
                    out.append(("re-registering the very same function and pattern gives %r, expected it to be ignored" % o[0], "same-definition-not-ignored"))
                continue
            # does an existing definition of that type match the new pattern text (as a step text)?
            hit = None
            identical = None
            for r in regs[stype]:
                rp = case["patterns"][r[0]]
                if render_pattern(rp, r[1], rp.get("end", True)) == text and identical is None:
                    identical = r
                if r[1] == "re0" and not rp.get("end", True):
                    ok = re.match(intended_regex(rp, r[1]), text, re.S)
                else:
                    ok = re.fullmatch(intended_regex(rp, r[1]), text, re.S)
                if ok and not (r[1] in ("parse", "cfparse") and conv_fails(rp, r[1], text)):
                    hit = r
                    break
            if hit is not None:
                if o[0] == "ignored" and case["locs"][str(hit[2])] == case["locs"][str(fid)]:
                    out.append(("a different function created at the same source location with the same pattern is silently ignored instead of "
                                "rejected as ambiguous (pattern %r)" % text, "same-location-different-function-ignored"))
                elif o[0] != "ambiguous":
                    out.append(("registering %r for %s although an existing definition %r matches it gives %r, expected AmbiguousStep" % (
                        text, stype, render_pattern(case["patterns"][hit[0]], hit[1]), o[0]), "ambiguous-not-rejected"))
                continue
            if identical is not None and o[0] in ("ambiguous", "ignored"):
                # an identical pattern text that does not match itself as a step text: the property does not decide; both
                # rejecting and (see the model) adding are accepted.  'ignored' only for the same source location.
                if o[0] == "ignored" and case["locs"][str(identical[2])] != case["locs"][str(fid)]:
                    out.append(("registration of %r silently ignored although it is a different definition" % text, "registration-dropped"))
                continue
            if o[0] != "added":
                out.append(("registering %r for %s gives %r although no existing definition of that type matches it" % (text, stype, o[0]),
                            "registration-rejected"))
                continue
            regs[stype].append((pidx, kind, fid, pat.get("end", True)))
        else:
            _, stype, text = op
            cands = regs[stype] + (regs["step"] if stype != "step" else [])
            want = None
            for r in cands:
                rp = case["patterns"][r[0]]
                rx = intended_regex(rp, r[1])
                m = re.match(rx, text, re.S) if (r[1] == "re0" and not r[3]) else re.fullmatch(rx, text, re.S)
                if m:
                    want = r
                    break
            if want is None:
                if o[0] != "undefined":
                    out.append(("step %r (%s) is bound (%r) although no definition registered for its type or generically matches the complete "
                                "text; registered: %r" % (text, stype, o[:2], [(t, render_pattern(case["patterns"][r[0]], r[1], r[3])) for t in TYPES for r in regs[t]]),
                                "bound-without-full-match"))
                continue
            if o[0] == "undefined":
                out.append(("step %r (%s) is undefined although %r matches it" % (text, stype, render_pattern(case["patterns"][want[0]], want[1], want[3])),
                            "matching-definition-not-found"))
                continue
            if o[1] != want[2]:
                out.append(("step %r (%s) is bound to function %r, expected %r (type-specific before generic, earlier before later)" % (
                    text, stype, o[1], want[2]), "wrong-definition"))
                continue
            pat_w = case["patterns"][want[0]]
            if want[1] in ("parse", "cfparse") and len(pat_w["alts"]) == 1:
                kinds_w = [x[1] for x in pat_w["alts"][0] if x[0] == "field"]
                rejects = conv_fails(pat_w, want[1], text)
                if o[0] == "bound" and rejects:
                    out.append(("step %r is bound to %r and runs although the converter declared for its field (%s, which rejects values above 99) "
                                "rejects the matched text" % (text, render_pattern(pat_w, want[1]), "/".join(k for k in kinds_w if k in ("small", "number2"))),
                                "argument-not-converted-as-declared"))
                    continue
                if o[0] == "conv_error" and not rejects and all(k in ("any", "word", "nonspace", "alpha", "number", "zeronone") for k in kinds_w):
                    out.append(("step %r matched by %r reports a conversion error although none of its declared converters (%s) rejects the matched text"
                                % (text, render_pattern(pat_w, want[1]), "/".join(kinds_w)), "argument-not-converted-as-declared"))
                    continue
            if o[0] != "bound":
                continue
            args = o[2]
            for a in args:
                if a["start"] is None or a["start"] < 0:
                    continue
                if text[a["start"]:a["end"]] != a["original"]:
                    out.append(("argument %r: text[%d:%d] = %r is not its original text %r" % (a["name"], a["start"], a["end"], text[a["start"]:a["end"]],
                                                                                                 a["original"]), "span-does-not-delimit-original"))
            if [a["start"] for a in args] != sorted(a["start"] for a in args):
                out.append(("arguments are not in text order: %r" % [a["start"] for a in args], "argument-order"))
            # the spans of different arguments do not overlap, and for a flat parse pattern the literal words and the
            # arguments' original texts, in pattern order, spell the step text
            sp = [(a["start"], a["end"]) for a in args if a["start"] is not None and a["start"] >= 0]
            if any(x[1] > y[0] for x, y in zip(sp, sp[1:])):
                out.append(("argument spans overlap: %r in %r" % (sp, text), "span-does-not-delimit-original"))
            pw = case["patterns"][want[0]]
            if want[1] in ("parse", "cfparse") and len(pw["alts"]) == 1 and pw.get("end", True):
                flds = [x for x in pw["alts"][0] if x[0] == "field"]
                if len(flds) == len(args):
                    it = iter(args)
                    spelled = "".join(x[1] if x[0] == "lit" else (next(it)["original"] or "") for x in pw["alts"][0])
                    if spelled != text:
                        out.append(("step %r: literals and argument originals in pattern order spell %r (arguments %r)" % (
                            text, spelled, [(a["start"], a["end"], a["original"]) for a in args]), "span-does-not-delimit-original"))
            pat_w = case["patterns"][want[0]]
            if want[1] in ("parse", "cfparse") and len(pat_w["alts"]) == 1:
                flds = [x for x in pat_w["alts"][0] if x[0] == "field"]
                if len(flds) == len(args):
                    for fld, a in zip(flds, args):
                        orig = a["original"] or ""
                        exp = None
                        if fld[1] in ("number", "small", "number2") and orig.isdigit():
                            exp = ["int", int(orig)]
                        elif fld[1] == "zeronone" and orig.isdigit():
                            exp = ["int", int(orig)] if int(orig) else ["none"]
                        elif fld[1] in ("any", "word", "nonspace", "alpha"):
                            exp = ["text", orig]
                        if exp is not None and a["value"] != exp:
                            out.append(("argument %r of %r: matched text %r, the declared converter (%s) yields %r, the argument carries %r" % (
                                a["name"], text, orig, fld[1], exp, a["value"]), "argument-not-converted-as-declared"))
            if want[1] == CUKE:
                flds = [x for x in pat_w["alts"][0] if x[0] == "field"]
                if len(flds) != len(args):
                    out.append(("step %r matched by %r has %d arguments for %d parameters" % (text, render_cuke(pat_w), len(args), len(flds)),
                                "arguments-not-passed-as-matched"))
                else:
                    for fld, a in zip(flds, args):
                        orig = a["original"] if a["original"] is not None else ""
                        exp = {"int": lambda t: ["int", int(t)], "word": lambda t: ["text", t], "anon": lambda t: ["text", t],
                               "string": lambda t: ["text", re.sub(r"\\(.)", r"\1", t[1:-1])]}[fld[1]](orig)
                        if a["value"] != exp:
                            out.append(("parameter %s of %r: matched text %r, its parameter type yields %r, the argument carries %r" % (
                                CUKE_FIELDS[fld[1]][0], text, orig, exp, a["value"]), "argument-not-converted-as-declared"))
            pos = [a["value"] for a in args if a["name"] is None]
            kw = sorted([a["name"], a["value"]] for a in args if a["name"] is not None)

            def strip_float(v):
                return ["float", None] if v[0] == "float" else v
            if o[3] != [strip_float(v) for v in pos] or o[4] != [[n, strip_float(v)] for n, v in kw]:
                out.append(("step function received positional %r keyword %r, the match has positional %r keyword %r" % (o[3], o[4], pos, kw),
                            "arguments-not-passed-as-matched"))
    return out


def conv_fails(pat, kind, text):
    m = re.fullmatch(intended_regex(pat, kind), text, re.S)
    if not m:
        return False
    i = 0
    for a in pat["alts"][0]:
        if a[0] == "field":
            i += 1
            if a[1] in ("small", "number2") and int(m.group(i)) > 99:
                return True
    return False


# ---------------------------------------------------------------- Coq encoding
HEADER = "From BV Require Import Base UStr StepMatch.\n"
CK = {"parse": "KParse", "cfparse": "KCfparse", "re": "KRe", "re0": "KRe0"}
CT = {"given": "TGiven", "when": "TWhen", "then": "TThen", "step": "TStep"}


def c_atoms(pat, kind):
    alts = []
    for alt in pat["alts"]:
        items = []
        for a in alt:
            if a[0] == "lit":
                items.append("(ALit %s)" % cstr(a[1]))
            else:
                spec = FIELDS[a[1]]
                name = "None" if a[2] is None else "(Some %s)" % cstr(a[2])
                if kind in ("parse", "cfparse"):
                    c, g, m0, cv = spec[1]
                else:
                    c, g, m0 = spec[3]
                    cv = "VText"
                items.append("(AField %s %s %s %s %s)" % (name, c, cbool(g), cbool(m0), cv))
        alts.append(clist(items, "atom"))
    return clist(alts, "list atom")


def c_pattern(pat):
    texts, alts = [], []
    for kind in KINDS:
        if available(pat, kind):
            texts.append("%s => %s" % (CK[kind], cstr(render_pattern(pat, kind, pat.get("end", True)))))
            alts.append("%s => %s" % (CK[kind], c_atoms(pat, kind)))
        else:
            texts.append("%s => (@nil N)" % CK[kind])
            alts.append("%s => (@nil (list atom))" % CK[kind])
    return "(mkPattern (fun k => match k with %s end) (fun k => match k with %s end) %s)" % (
        " | ".join(texts), " | ".join(alts), cbool(pat.get("end", True)))


def c_value(v):
    if v[0] == "int":
        return "(XInt %s)" % cZ(v[1])
    if v[0] == "text":
        return "(XText %s)" % cstr(v[1])
    if v[0] == "float":
        return "(XFloatOf %s)" % cstr(v[1])
    if v[0] == "none":
        return "XNone"
    return None


def enc(case, obs):
    ops, outs = [], []
    k = 0
    for op in case["ops"]:
        if op[0] == "register":
            ops.append("(Register %s %s %s %s)" % (CT[op[1]], c_pattern(case["patterns"][op[2]]), cnat(op[3]), cnat(case["locs"][str(op[3])])))
        elif op[0] == "use":
            ops.append("(UseMatcher %s)" % CK[op[1]])
        elif op[0] == "use_default":
            ops.append("(UseDefault %s)" % ("None" if not op[1] else "(Some %s)" % CK[op[1]]))
        elif op[0] == "current_as_default":
            ops.append("CurrentAsDefault")
        elif op[0] == "retype":
            pass                # model side: the later patterns carry the Small conversion in their Number fields
        else:
            ops.append("(Lookup %s %s)" % (CT[op[1]], cstr(op[2])))
        if op[0] in ("register", "lookup"):
            o = obs["outs"][k]
            k += 1
            if o[0] == "added":
                outs.append("(OAdd Added)")
            elif o[0] == "ignored":
                outs.append("(OAdd Ignored)")
            elif o[0] == "ambiguous":
                if o[2] is None:
                    return None
                outs.append("(OAdd (Ambiguous %s))" % cnat(o[2]))
            elif o[0] == "undefined":
                outs.append("(OLookup Undefined)")
            elif o[0] == "conv_error":
                if o[1] is None:
                    return None
                outs.append("(OLookup (Bound %s ConvError))" % cnat(o[1]))
            else:
                args = []
                for a in o[2]:
                    v = c_value(a["value"])
                    if v is None or a["start"] is None or a["start"] < 0:
                        return None
                    args.append("(mkArg %s %s %s %s %s)" % (cnat(a["start"]), cnat(a["end"]), cstr(a["original"]), v,
                                                            "None" if a["name"] is None else "(Some %s)" % cstr(a["name"])))
                outs.append("(OLookup (Bound %s (Matched %s)))" % (cnat(o[1]), clist(args, "argument")))
    return clist(ops, "rop"), clist(outs, "rout")


EQB = """
Definition value_eqb (a b : value) : bool :=
  match a, b with
  | XText x, XText y => ustr_eqb x y | XInt x, XInt y => Z.eqb x y | XFloatOf x, XFloatOf y => ustr_eqb x y | XNone, XNone => true | _, _ => false
  end.
Definition arg_eqb (a b : argument) : bool :=
  Nat.eqb (a_start a) (a_start b) && Nat.eqb (a_end a) (a_end b) && ustr_eqb (a_original a) (a_original b) &&
  value_eqb (a_value a) (a_value b) && option_eqb ustr_eqb (a_name a) (a_name b).
Definition res_eqb (a b : match_result) : bool :=
  match a, b with NoMatch, NoMatch | ConvError, ConvError => true | Matched x, Matched y => list_eqb arg_eqb x y | _, _ => false end.
Definition rout_eqb (a b : rout) : bool :=
  match a, b with
  | OAdd Added, OAdd Added | OAdd Ignored, OAdd Ignored => true
  | OAdd (Ambiguous x), OAdd (Ambiguous y) => Nat.eqb x y
  | OLookup Undefined, OLookup Undefined => true
  | OLookup (Bound f r), OLookup (Bound g s) => Nat.eqb f g && res_eqb r s
  | _, _ => false
  end.
"""


# ---------------------------------------------------------------- regular expressions beyond flat patterns (re / re0 matchers)
RX_CHARS = list("abx1 _-")
RX_CLASSES = {"d": (r"\d", "CDigit", "0123456789"), "w": (r"\w", "CWord", "abz_09"), "any": (".", "CAny", "ab 1-_x"),
              "S": (r"\S", "CNonSpace", "ab1-_x"), "l": ("[A-Za-z]", "CAlpha", "abxZ")}


def gen_rx(rnd, depth, names, nullable_ok=True, in_quant=False):
    """AST: ["eps"] | ["chr", c] | ["cls", k] | ["seq", a, b] | ["alt", a, b] | ["star"|"plus"|"opt", greedy, a] | ["grp", name|None, a]
    Quantifiers are not nested inside * or + bodies (catastrophic backtracking is the engine's business, not the property's)."""
    r = rnd.random()
    if depth <= 0 or r < 0.25:
        return ["chr", rnd.choice(RX_CHARS)] if rnd.random() < 0.6 else ["cls", rnd.choice(list(RX_CLASSES))]
    if r < 0.45:
        return ["seq", gen_rx(rnd, depth - 1, names, nullable_ok, in_quant), gen_rx(rnd, depth - 1, names, True, in_quant)]
    if r < 0.6:
        return ["alt", gen_rx(rnd, depth - 1, names, nullable_ok, in_quant), gen_rx(rnd, depth - 1, names, nullable_ok, in_quant)]
    if r < 0.8 and not in_quant:
        kind = rnd.choice(["star", "plus", "opt"]) if nullable_ok else "plus"
        return [kind, rnd.random() < 0.6, gen_rx(rnd, depth - 1, names, False, kind != "opt")]
    if r < 0.8:
        return ["chr", rnd.choice(RX_CHARS)]
    name = None
    if rnd.random() < 0.5:
        name = "g%d" % (len(names) + 1)
        names.append(name)
    return ["grp", name, gen_rx(rnd, depth - 1, names, nullable_ok, in_quant)]


def rx_atomic(a):
    return a[0] in ("chr", "cls", "grp")


def render_rx(a, top=True):
    k = a[0]
    if k == "eps":
        return ""
    if k == "chr":
        return re.escape(a[1])
    if k == "cls":
        return RX_CLASSES[a[1]][0]
    if k == "seq":
        return "".join(("(?:%s)" % render_rx(x, False)) if x[0] == "alt" else render_rx(x, False) for x in a[1:])
    if k == "alt":
        return "%s|%s" % (render_rx(a[1], False), render_rx(a[2], False))
    if k in ("star", "plus", "opt"):
        body = render_rx(a[2], False)
        if not rx_atomic(a[2]):
            body = "(?:%s)" % body
        return body + {"star": "*", "plus": "+", "opt": "?"}[k] + ("" if a[1] else "?")
    if k == "grp":
        return ("(?P<%s>%s)" % (a[1], render_rx(a[2], False))) if a[1] else "(%s)" % render_rx(a[2], False)
    raise ValueError(a)


def sample_rx(rnd, a):
    k = a[0]
    if k == "eps":
        return ""
    if k == "chr":
        return a[1]
    if k == "cls":
        return rnd.choice(RX_CLASSES[a[1]][2])
    if k == "seq":
        return sample_rx(rnd, a[1]) + sample_rx(rnd, a[2])
    if k == "alt":
        return sample_rx(rnd, rnd.choice(a[1:]))
    if k == "star":
        return "".join(sample_rx(rnd, a[2]) for _ in range(rnd.randint(0, 3)))
    if k == "plus":
        return "".join(sample_rx(rnd, a[2]) for _ in range(rnd.randint(1, 3)))
    if k == "opt":
        return sample_rx(rnd, a[2]) if rnd.random() < 0.5 else ""
    return sample_rx(rnd, a[2])


def c_rx(a):
    k = a[0]
    if k == "eps":
        return "REps"
    if k == "chr":
        return "(RChar %d%%N)" % ord(a[1])
    if k == "cls":
        return "(RClass %s)" % RX_CLASSES[a[1]][1]
    if k == "seq":
        return "(RSeq %s %s)" % (c_rx(a[1]), c_rx(a[2]))
    if k == "alt":
        return "(RAlt %s %s)" % (c_rx(a[1]), c_rx(a[2]))
    if k in ("star", "plus", "opt"):
        return "(%s %s %s)" % ({"star": "RStar", "plus": "RPlus", "opt": "ROpt"}[k], cbool(a[1]), c_rx(a[2]))
    return "(RGroup %s %s)" % ("None" if a[1] is None else "(Some %s)" % cstr(a[1]), c_rx(a[2]))


def impl_regex(case):
    from behave.matchers import SimplifiedRegexMatcher, CucumberRegexMatcher

    got = []

    def func(context, *a, **kw):
        got.append([list(a), sorted(kw.items())])
    pattern = render_rx(case["rx"])
    try:
        if case["kind"] == "re":
            m = SimplifiedRegexMatcher(func, pattern)
        else:
            body = "(?:%s)" % pattern if case["rx"][0] == "alt" else pattern       # the author of a re0 pattern writes the anchors
            m = CucumberRegexMatcher(func, "^" + body + ("$" if case["end"] else ""))
        args = m.check_match(case["text"])
    except Exception as e:      # noqa
        return {"EXC": "%s: %s" % (type(e).__name__, e), "pattern": pattern}
    if args is None:
        return {"match": None, "pattern": pattern}
    # what the step function receives when the match is run
    call = None
    try:
        from behave.matchers import Match
        Match(func, args).run(_Ctx())
        call = got[-1] if got else None
    except Exception as e:      # noqa
        call = ["EXC", "%s: %s" % (type(e).__name__, e)]
    return {"match": [[a.start, a.end, a.original, a.name] for a in args], "pattern": pattern,
            "values": [[a.name, a.value] for a in args], "call": call}


def oracle_regex(case, obs):
    if "EXC" in obs:
        return [("pattern %r raised %s" % (obs["pattern"], obs["EXC"]), "regex-exception")]
    pat = "(?:%s)" % obs["pattern"] if case["kind"] == "re" else obs["pattern"].lstrip("^").rstrip("$") if False else None
    out = []
    text = case["text"]
    if case["kind"] == "re":
        full = re.fullmatch("(?:%s)" % render_rx(case["rx"]), text)
        if obs["match"] is not None and not full:
            out.append(("re pattern %r binds the step %r although it does not match the complete text" % (render_rx(case["rx"]), text),
                        "bound-without-full-match"))
        if obs["match"] is None and full:
            out.append(("re pattern %r does not bind %r although it matches the complete text" % (render_rx(case["rx"]), text),
                        "matching-definition-not-found"))
    # one argument per group, in group order (= text order of the opening parentheses), with the span Python's re reports
    if obs.get("match") is not None:
        if case["kind"] == "re":
            ref = re.fullmatch("(?:%s)" % render_rx(case["rx"]), text)
        else:
            body = "(?:%s)" % render_rx(case["rx"]) if case["rx"][0] == "alt" else render_rx(case["rx"])
            ref = re.match("^" + body + ("$" if case["end"] else ""), text)
        if ref is not None:
            names = {i: n for n, i in ref.re.groupindex.items()}
            want = [[(ref.span(i) if ref.span(i)[0] >= 0 else None), names.get(i)] for i in range(1, ref.re.groups + 1)]
            got = [[((a[0], a[1]) if (a[0] is not None and a[0] >= 0) else None), a[3]] for a in obs["match"]]
            if got != want:
                out.append(("pattern %r on %r: arguments (span, name) %r, the groups in group order are %r" % (obs["pattern"], text, got, want),
                            "arguments-not-in-group-order"))
    for a in obs["match"] or []:
        if a[0] is not None and a[0] >= 0 and text[a[0]:a[1]] != a[2]:
            out.append(("argument %r: text[%d:%d] is %r, original %r" % (a[3], a[0], a[1], text[a[0]:a[1]], a[2]), "span-does-not-delimit-original"))
    if obs.get("match") is not None and "call" in obs:
        want_pos = [v for n, v in obs["values"] if n is None]
        want_kw = sorted([n, v] for n, v in obs["values"] if n is not None)
        call = obs["call"]
        if call is None or call[0] == "EXC" or call[0] != want_pos or [list(x) for x in call[1]] != want_kw:
            out.append(("pattern %r on %r: the step function is called with %r, the match has positional %r (in group order) and named %r" % (
                obs["pattern"], text, call, want_pos, want_kw), "call-arguments"))
    return out


def enc_regex(case, obs):
    if "EXC" in obs:
        return None
    cin = "(%s, %s, %s)" % (cbool(case["kind"] == "re" or case["end"]), c_rx(case["rx"]), cstr(case["text"]))
    if obs["match"] is None:
        return cin, "(@None (list rarg))"
    items = []
    for a in obs["match"]:
        name = "None" if a[3] is None else "(Some %s)" % cstr(a[3])
        if a[0] is None or a[0] < 0:
            items.append("(mkRArg None None %s)" % name)
        else:
            items.append("(mkRArg (Some (%s, %s)) (Some %s) %s)" % (cnat(a[0]), cnat(a[1]), cstr(a[2]), name))
    return cin, "(Some %s)" % clist(items, "rarg")


RX_HEADER = "From BV Require Import Base UStr StepMatch Regex.\n" + """
Definition span_eqb (a b : nat * nat) : bool := Nat.eqb (fst a) (fst b) && Nat.eqb (snd a) (snd b).
Definition rarg_eqb (a b : rarg) : bool :=
  option_eqb span_eqb (ra_span a) (ra_span b) && option_eqb ustr_eqb (ra_text a) (ra_text b) && option_eqb ustr_eqb (ra_name a) (ra_name b).
"""


def gen_regex_cases(rnd, n):
    cases = []
    for _ in range(n):
        names = []
        rx = gen_rx(rnd, rnd.randint(1, 4), names)
        kind = rnd.choice(["re", "re", "re0"])
        end = rnd.random() < 0.6
        texts = set()
        for _ in range(4):
            t = sample_rx(rnd, rx)
            texts.add(t)
            if t:
                i = rnd.randrange(len(t))
                texts.add(t[:i] + t[i + 1:])
                texts.add(t[:i] + rnd.choice("abx1 _-Q") + t[i:])
                texts.add(t + rnd.choice(["", " more", "x"]))
                texts.add(t.swapcase())
        texts.add("".join(rnd.choice("abx1 _-") for _ in range(rnd.randint(0, 5))))
        for t in sorted(texts):
            if len(t) <= 16:
                cases.append({"rx": rx, "kind": kind, "end": end, "text": t})
    return cases


# ---------------------------------------------------------------- generators
def gen_case(rnd, factory_rate=0.04):
    npat = rnd.randint(1, 5)
    patterns = []
    for _ in range(npat):
        p = make_pattern(rnd)
        p["end"] = rnd.random() < 0.7
        patterns.append(p)
    nfuncs = rnd.randint(1, 5)
    factory_funcs = []
    locs = {str(i): i for i in range(nfuncs)}
    if rnd.random() < factory_rate * 4:
        for j in range(2):
            fid = nfuncs + j
            factory_funcs.append(fid)
            locs[str(fid)] = 1000
    allf = list(range(nfuncs)) + factory_funcs
    texts = set()
    for p in patterns:
        for mut in (None, None, "case", "prefix", "suffix", "literal"):
            texts.add(instance(rnd, p, mut))
        for kname in KINDS:
            if available(p, kname):
                texts.add(render_pattern(p, kname, p["end"]))
    texts = sorted(texts)
    rnd.shuffle(texts)
    ops = []
    current = "parse"
    default = "parse"
    regs = []
    interleave = rnd.random() < 0.5
    for _ in range(rnd.randint(1, 9)):
        r = rnd.random()
        if interleave and r > 0.8:
            # look-ups between registrations (a first feature run, context.execute_steps(), ... before more step modules are loaded)
            for stype in rnd.sample(TYPES, rnd.randint(1, 3)):
                ops.append(["lookup", stype, rnd.choice(texts)])
            continue
        if r < 0.07:
            # the run's default matcher chosen like environment.py does (use_step_matcher + "make the current one the default"),
            # another matcher used for a while, then back to the default without naming it
            x, y = rnd.choice(KINDS), rnd.choice(KINDS)
            ops += [["use", x], ["current_as_default"], ["use", y], ["use_default", None]]
            current = default = x
        elif r < 0.22:
            kname = rnd.choice(KINDS)
            ops.append(["use", kname])
            current = kname
        elif r < 0.27:
            arg = rnd.choice([None, None] + KINDS)
            ops.append(["use_default", arg])
            if arg:
                default = arg
            current = default
        elif r < 0.30:
            ops.append(["current_as_default"])
            default = current
        else:
            cands = [i for i, p in enumerate(patterns) if available(p, current)]
            if not cands:
                continue
            if regs and rnd.random() < 0.15:
                stype, pidx, fid = rnd.choice(regs)       # re-register something (same function or another one)
                if rnd.random() < 0.5:
                    fid = rnd.choice(allf)
                if pidx not in cands:
                    continue
            else:
                stype, pidx, fid = rnd.choice(TYPES), rnd.choice(cands), rnd.choice(allf)
            ops.append(["register", stype, pidx, fid])
            regs.append((stype, pidx, fid))
    for t in texts[:rnd.randint(3, 10)]:
        for stype in rnd.sample(TYPES, rnd.randint(1, 2)):
            ops.append(["lookup", stype, t])
    if rnd.random() < 0.3:
        ops = with_retype(rnd, patterns, ops)
    if rnd.random() < 0.2:
        # two unnamed fields of one kind whose texts convert to equal values ("7 and 07"): each argument keeps its own span
        word = rnd.choice(["add", "swap", "pair"])
        kind = rnd.choice(["int", "number", "word"])
        q = {"alts": [[("lit", word + " "), ["field", kind, None], ("lit", " and "), ["field", kind, None]]], "end": True}
        patterns.append(q)
        t = rnd.choice(TYPES)
        ops.append(["use", rnd.choice(["parse", "cfparse"])])
        ops.append(["register", t, len(patterns) - 1, 0])
        a, b = {"int": ("7", "07"), "number": ("42", "42"), "word": ("foo", "foo")}[kind]
        for x, y in ((a, b), (a, a)):
            ops.append(["lookup", t if t != "step" else rnd.choice(TYPES), "%s %s and %s" % (word, x, y)])
    if rnd.random() < 0.25:
        # a type-specific definition whose converter rejects some texts, and a generic definition that matches the same texts:
        # the type-specific one stays the one bound (a conversion error does not send the look-up on to later definitions)
        word = rnd.choice(["pick", "load", "grade"])
        a = {"alts": [[("lit", word + " "), ["field", "small", rnd.choice(["n", None])]]], "end": True}
        b = {"alts": [[("lit", word + " "), ["field", "any", rnd.choice(["x", None])]]], "end": True}
        patterns += [a, b]
        t = rnd.choice(["given", "when", "then"])
        ops.append(["use", rnd.choice(["parse", "cfparse"])])
        first, second = ([t, len(patterns) - 2, 0], ["step", len(patterns) - 1, allf[-1]])
        ops.append(["register"] + first)
        ops.append(["register"] + second)
        for v in rnd.sample(["7", "99", "100", "250", "1234"], 3):
            ops.append(["lookup", t, word + " " + v])
    return {"patterns": patterns, "nfuncs": nfuncs, "factory_funcs": factory_funcs, "locs": locs, "ops": ops}


def make_cuke_pattern(rnd):
    atoms = []
    n = rnd.randint(1, 5)
    fields = rnd.random() < 0.6           # parameterless expressions are a stratum of their own
    for i in range(n):
        sp = " " if atoms else ""
        r = rnd.random()
        if fields and r < 0.4:
            atoms.append(("lit", sp)) if sp else None
            atoms.append(("field", rnd.choice(list(CUKE_FIELDS)), None))
        elif r < 0.55:
            w = rnd.choice(["cucumber", "item", "user", "slice"])
            atoms.append(("lit", sp)) if sp else None
            atoms.append(("opt", w, rnd.choice(["s", "es", "s"])))
        elif r < 0.7:
            atoms.append(("lit", sp)) if sp else None
            atoms.append(("alt", rnd.sample(["peel", "slice", "bowl", "plate", "is", "the"], rnd.randint(2, 3))))
        else:
            atoms.append(("lit", sp + rnd.choice(WORDS)))
    merged = []
    for a in atoms:
        if a[0] == "lit" and merged and merged[-1][0] == "lit":
            merged[-1] = ("lit", merged[-1][1] + a[1])
        else:
            merged.append(a)
    if not any(a[0] in ("lit", "opt", "alt") and (a[0] != "lit" or a[1].strip()) for a in merged):
        merged.insert(0, ("lit", "say "))
    return {"alts": [merged], "end": True}


def cuke_instance(rnd, pat, mutate=None):
    parts = []
    for a in pat["alts"][0]:
        if a[0] == "lit":
            parts.append(a[1])
        elif a[0] == "opt":
            parts.append(a[1] + (a[2] if rnd.random() < 0.5 else ""))
        elif a[0] == "alt":
            parts.append(rnd.choice(a[1]))
        else:
            parts.append(rnd.choice(CUKE_SAMPLE[a[1]]))
    text = "".join(parts)
    if mutate == "case":
        text = text.swapcase()
    elif mutate == "prefix":
        text = "so " + text
    elif mutate == "suffix":
        text = text + " and more"
    elif mutate == "literal":
        i = rnd.randrange(len(text)) if text else 0
        text = text[:i] + "Q" + text[i + 1:]
    return text


def gen_cuke_case(rnd):
    """registration histories under the cucumber-expressions step matcher (oracle only)"""
    patterns = [make_cuke_pattern(rnd) for _ in range(rnd.randint(1, 5))]
    if rnd.random() < 0.5:
        # a parameterless expression and a more general one that matches the same texts
        w = rnd.choice(["cucumber", "item"])
        patterns.append({"alts": [[("lit", "I have "), ("opt", w, "s")]], "end": True})
        patterns.append({"alts": [[("lit", "I have "), ("field", rnd.choice(["word", "anon"]), None)]], "end": True})
    nfuncs = rnd.randint(2, 5)
    locs = {str(i): i for i in range(nfuncs)}
    texts = set()
    for p in patterns:
        for mut in (None, None, None, "case", "prefix", "suffix", "literal"):
            texts.add(cuke_instance(rnd, p, mut))
    texts = sorted(texts)
    rnd.shuffle(texts)
    ops = [["use", CUKE]]
    regs = []
    for _ in range(rnd.randint(1, 8)):
        if regs and rnd.random() < 0.15:
            stype, pidx, fid = rnd.choice(regs)
            if rnd.random() < 0.5:
                fid = rnd.randrange(nfuncs)
        else:
            stype, pidx, fid = rnd.choice(TYPES), rnd.randrange(len(patterns)), rnd.randrange(nfuncs)
        ops.append(["register", stype, pidx, fid])
        regs.append((stype, pidx, fid))
        if rnd.random() < 0.15:
            ops.append(["lookup", rnd.choice(TYPES), rnd.choice(texts)])
    for t in texts[:rnd.randint(4, 12)]:
        for stype in rnd.sample(TYPES, rnd.randint(1, 2)):
            ops.append(["lookup", stype, t])
    return {"patterns": patterns, "nfuncs": nfuncs, "factory_funcs": [], "locs": locs, "ops": ops}


# ---------------------------------------------------------------- cucumber expressions through the model (Cuke.v)
def c_catoms(pat):
    out = []
    for a in pat["alts"][0]:
        if a[0] == "lit":
            out.append("(CLit %s)" % cstr(a[1]))
        elif a[0] == "opt":
            out.append("(CLit %s)" % cstr(a[1]))
            out.append("(COptional %s)" % cstr(a[2]))
        elif a[0] == "alt":
            out.append("(CAlternative %s)" % clist([cstr(w) for w in a[1]], "ustr"))
        else:
            k = {"int": "CPInt", "word": "CPWord", "anon": "CPAnon"}.get(a[1])
            if k is None:
                return None
            out.append(k)
    return clist(out, "catom")


def impl_cuke_match(case):
    from behave.cucumber_expression import StepMatcher4CucumberExpressions

    def func(context, *a):
        pass
    try:
        args = StepMatcher4CucumberExpressions(func, render_cuke(case["pat"])).check_match(case["text"])
    except Exception as e:      # noqa
        return {"EXC": "%s: %s" % (type(e).__name__, e)}
    if args is None:
        return {"match": None}
    return {"match": [[a.start, a.end, a.original, a.name] for a in args]}


def oracle_cuke_match(case, obs):
    if "EXC" in obs:
        return [("expression %r raised %s" % (render_cuke(case["pat"]), obs["EXC"]), "regex-exception")]
    full = re.fullmatch(cuke_regex(case["pat"]), case["text"], re.S)
    out = []
    if (obs["match"] is not None) != bool(full):
        out.append(("expression %r %s the step %r although its regular expression %s the complete text" % (
            render_cuke(case["pat"]), "binds" if obs["match"] is not None else "does not bind", case["text"],
            "does not match" if not full else "matches"), "bound-without-full-match" if not full else "matching-definition-not-found"))
    elif full:
        nparams = sum(1 for a in case["pat"]["alts"][0] if a[0] == "field")
        if len(obs["match"]) != nparams:
            out.append(("expression %r on %r: %d arguments for %d parameters" % (render_cuke(case["pat"]), case["text"], len(obs["match"]), nparams),
                        "arguments-not-passed-as-matched"))
        for a in obs["match"]:
            if case["text"][a[0]:a[1]] != a[2]:
                out.append(("argument: text[%d:%d] is %r, original %r" % (a[0], a[1], case["text"][a[0]:a[1]], a[2]), "span-does-not-delimit-original"))
    return out


def enc_cuke_match(case, obs):
    atoms = c_catoms(case["pat"])
    if atoms is None or "EXC" in obs:
        return None
    cin = "(%s, %s)" % (atoms, cstr(case["text"]))
    if obs["match"] is None:
        return cin, "(@None (list rarg))"
    items = ["(mkRArg (Some (%s, %s)) (Some %s) None)" % (cnat(a[0]), cnat(a[1]), cstr(a[2])) for a in obs["match"]]
    return cin, "(Some %s)" % clist(items, "rarg")


def gen_cuke_match_cases(rnd, n):
    cases = []
    while len(cases) < n:
        pat = make_cuke_pattern(rnd)
        if any(a[0] == "field" and a[1] == "string" for a in pat["alts"][0]):
            continue
        for mut in (None, None, "case", "prefix", "suffix", "literal"):
            cases.append({"pat": pat, "text": cuke_instance(rnd, pat, mut)})
    return cases


def with_retype(rnd, patterns, ops):
    """Insert one ["retype"] op (Number declared again with the Small converter) while a parse-style matcher is current.
    Later registrations of a pattern with a Number field use a copy of the pattern whose fields are "number2"; a pattern
    text that was already registered before the op is not registered again afterwards (whether that counts as the very
    same definition is not something the property speaks about)."""
    current, default, spots = "parse", "parse", []
    for i, op in enumerate(ops + [None]):
        if current in ("parse", "cfparse"):
            spots.append(i)             # the op is inserted before ops[i]
        if op is None:
            break
        if op[0] == "use":
            current = op[1]
        elif op[0] == "use_default":
            default = op[1] or default
            current = default
        elif op[0] == "current_as_default":
            default = current
    if not spots:
        return ops
    k = rnd.choice(spots)
    def has_number(p):
        return any(a[0] == "field" and a[1] == "number" for alt in p["alts"] for a in alt)
    def ptext(p):
        return render_pattern(p, "parse") if available(p, "parse") else None
    seen = set(ptext(patterns[op[2]]) for op in ops[:k] if op[0] == "register")
    out = list(ops[:k]) + [["retype"]]
    copies = {}
    # matcher that is current at position k, then followed through the remaining ops
    current, default = "parse", "parse"
    def follow(op):
        nonlocal current, default
        if op[0] == "use":
            current = op[1]
        elif op[0] == "use_default":
            default = op[1] or default
            current = default
        elif op[0] == "current_as_default":
            default = current
    for op in ops[:k]:
        follow(op)
    for op in ops[k:]:
        follow(op)
        if op[0] == "register" and has_number(patterns[op[2]]) and current in ("parse", "cfparse"):
            if ptext(patterns[op[2]]) in seen or not available(patterns[op[2]], "parse"):
                continue
            if op[2] not in copies:
                q = dict(patterns[op[2]])
                q["alts"] = [[(["field", "number2", a[2]] if a[0] == "field" and a[1] == "number" else a) for a in alt] for alt in q["alts"]]
                patterns.append(q)
                copies[op[2]] = len(patterns) - 1
            op = ["register", op[1], copies[op[2]], op[3]]
        out.append(op)
    # and one definition that certainly uses the name after it was declared again, with instances on both sides of the Small limit
    word = rnd.choice(["count", "take", "level"])
    q = {"alts": [[("lit", word + " "), ["field", "number2", rnd.choice(["n", None])]] + ([("lit", " units")] if rnd.random() < 0.5 else [])], "end": True}
    patterns.append(q)
    stype = rnd.choice(TYPES)
    out.append(["use", rnd.choice(["parse", "cfparse"])])
    out.append(["register", stype, len(patterns) - 1, 0])
    for v in rnd.sample(["7", "99", "100", "250", "42"], 3):
        out.append(["lookup", stype if stype != "step" else rnd.choice(TYPES), word + " " + v + (" units" if len(q["alts"][0]) == 3 else "")])
    return out


def histogram(cases, obs=None):
    h = {"registrations": {}, "matcher_kinds_registered": {}, "outcomes": {}, "with_alternation": 0, "with_factory_functions": 0}
    for c in cases:
        n = len([o for o in c["ops"] if o[0] == "register"])
        h["registrations"][n] = h["registrations"].get(n, 0) + 1
        h["with_alternation"] += any(len(p["alts"]) > 1 for p in c["patterns"])
        h["with_factory_functions"] += bool(c["factory_funcs"])
    for o in obs or []:
        if isinstance(o, dict) and "outs" in o:
            for x in o["outs"]:
                h["outcomes"][x[0]] = h["outcomes"].get(x[0], 0) + 1
                if x[0] in ("added",):
                    h["matcher_kinds_registered"][x[1]] = h["matcher_kinds_registered"].get(x[1], 0) + 1
    return h


def shrink(case):
    ops = case["ops"]
    for i in range(len(ops)):
        yield dict(case, ops=ops[:i] + ops[i + 1:])


# ------------------------------------------------------------------ step modules of one directory, loaded by load_step_modules
MOD_PATTERNS = {"parse": "m%d eats {n:d} apples", "cfparse": "m%d eats {n:d} apples", "re": r"m%d eats (?P<n>\d+) apples"}


def impl_modules(case):
    """A steps directory with several modules; some choose a matcher with use_step_matcher() and leave it chosen. Each module
    registers one definition written for the matcher in force for it: its own choice, otherwise the run's default."""
    import tempfile, shutil, io, contextlib
    from behave import matchers
    factory = matchers.get_step_matcher_factory()
    from behave.runner_util import load_step_modules
    from behave.step_registry import registry
    from behave.model_core import Status
    saved = {k: list(v) for k, v in registry.steps.items()}
    top = tempfile.mkdtemp(prefix="c11m_")
    outs = []
    try:
        for k in registry.steps:
            registry.steps[k] = []
        factory.reset()
        if case["default"] != "parse":
            factory.use_step_matcher(case["default"])           # like environment.py at module level
        for i, (fname, own) in enumerate(case["modules"]):
            kind = own or case["default"]
            src = "from behave import given\n"
            if own:
                src += "use_step_matcher(%r)\n" % own
            src += "@given(%r)\ndef f%d(context, n):\n    context.calls.append([%d, n])\n" % (MOD_PATTERNS[kind] % i, i, i)
            with open(os.path.join(top, fname), "w") as fh:
                fh.write(src)
        with open(os.path.join(top, "notes.txt"), "w") as fh:
            fh.write("not a module\n")
        try:
            with contextlib.redirect_stderr(io.StringIO()), contextlib.redirect_stdout(io.StringIO()):
                load_step_modules([top])
        except BaseException as e:      # noqa
            return {"load_error": "%s: %s" % (type(e).__name__, e)}
        after = factory.current_matcher.NAME

        class _C(_Ctx):
            calls = []
        for i, _m in enumerate(case["modules"]):
            for text in ("m%d eats 7 apples" % i, "m%d eats 7 apples." % i):
                m = registry.find_match(_Step("given", text))
                if m is None:
                    outs.append([i, text, "undefined"])
                    continue
                ctx = _C()
                ctx.calls = []
                try:
                    m.run(ctx)
                    outs.append([i, text, "bound", ctx.calls])
                except Exception as e:      # noqa
                    outs.append([i, text, "raised", type(e).__name__])
        kinds = []
        for d in registry.steps["given"]:
            fn = getattr(d.func, "__name__", "")
            kinds.append([int(fn[1:]) if fn[:1] == "f" and fn[1:].isdigit() else -1, getattr(type(d), "NAME", type(d).__name__)])
        return {"outs": outs, "matcher_after": after, "kinds": kinds}
    finally:
        shutil.rmtree(top, ignore_errors=True)
        for k in registry.steps:
            registry.steps[k] = saved.get(k, [])
        factory.reset()


def oracle_modules(case, obs):
    out = []
    if "load_error" in obs:
        return [("loading the step modules %s (default %s) raised %s" % (case["modules"], case["default"], obs["load_error"]), "modules-load-error")]
    for i, text, what, *rest in obs["outs"]:
        own = case["modules"][i][1]
        kind = own or case["default"]
        if text.endswith("."):
            if what != "undefined":
                out.append(("step %r is bound although the pattern of module %s does not match the complete text" % (text, case["modules"][i][0]),
                            "modules-partial-match"))
            continue
        want = [[i, "7" if kind == "re" else 7]]
        if what != "bound" or rest[0] != want:
            out.append(("step %r (module %s, written for the %s matcher: %s) is %s %s; expected its function called with %s. Modules in load "
                        "order: %s, run default %s" % (text, case["modules"][i][0], kind, "its own choice" if own else "the default",
                                                       what, rest[0] if rest else "", want, sorted(case["modules"]), case["default"]),
                        "modules-matcher-leaks"))
    return out


MOD_HEADER = "From BV Require Import Base UStr StepMatch StepModules.\n" + """
Definition nk_eqb (a b : nat * mkind) : bool := Nat.eqb (fst a) (fst b) && mkind_eqb (snd a) (snd b).
"""


def enc_modules(case, obs):
    if "kinds" not in obs or any(k not in CK for _i, k in obs["kinds"]) or any(i < 0 for i, _k in obs["kinds"]):
        return None
    order = sorted(range(len(case["modules"])), key=lambda i: case["modules"][i][0])        # load order: sorted file names
    mods = clist(["(%s, %s)" % (cnat(i), "None" if case["modules"][i][1] is None else "(Some %s)" % CK[case["modules"][i][1]])
                  for i in order], "nat * option mkind")
    return "(%s, %s)" % (CK[case["default"]], mods), clist(["(%s, %s)" % (cnat(i), CK[k]) for i, k in obs["kinds"]], "nat * mkind")


def gen_module_cases(rnd, n):
    cases = []
    for _ in range(n):
        k = rnd.randint(2, 4)
        names = rnd.sample(["a_steps.py", "b_steps.py", "c_more.py", "z_last.py", "m_mid.py", "B_upper.py"], k)
        mods = [[nm, rnd.choice([None, None, "re", "cfparse", "parse"])] for nm in names]
        # module index i is by position in this list, the load order is by sorted file name
        cases.append({"modules": mods, "default": rnd.choice(["parse", "parse", "re", "cfparse"])})
    return cases


def suites(tier, seed):
    rnd = random.Random(seed * 313 + 11)
    thorough = tier == "thorough"
    cases = [gen_case(rnd) for _ in range(5000 if thorough else 900)]
    main = {"name": "registries", "cases": cases, "impl": impl_history, "oracle": oracle, "shrink": shrink, "histogram": histogram,
            "nontrivial": lambda c, o: any(x[0] == "bound" for x in o["outs"]),
            "bound": "%d registration histories with look-ups" % len(cases),
            "coq": {"header": HEADER + EQB, "in_ty": "list rop", "out_ty": "list rout", "fn": "fun ops => snd (run_ops ops)",
                    "eqb": "list_eqb rout_eqb", "enc": enc, "shard": 60}}
    rcases = gen_regex_cases(rnd, 1500 if thorough else 300)
    regexes = {"name": "regexes", "cases": rcases, "impl": impl_regex, "oracle": oracle_regex,
               "nontrivial": lambda c, o: bool(o.get("match")),
               "bound": "%d (pattern, text) pairs: random regular expressions of depth <= 4 (alternation, greedy/lazy * + ?, named/unnamed/nested/"
                        "optional groups, classes) x sampled members of their language and one-character mutations, re and re0" % len(rcases),
               "coq": {"header": RX_HEADER, "in_ty": "bool * rx * ustr", "out_ty": "option (list rarg)",
                       "fn": "fun c => rx_check_match (fst (fst c)) (snd (fst c)) (snd c)",
                       "eqb": "option_eqb (list_eqb rarg_eqb)", "enc": enc_regex, "shard": 300}}
    ccases = [gen_cuke_case(rnd) for _ in range(1500 if thorough else 300)]
    cukes = {"name": "cucumber_expressions", "cases": ccases, "impl": impl_history, "oracle": oracle,
             "nontrivial": lambda c, o: any(x[0] == "bound" for x in o["outs"]),
             "bound": "%d registration histories with look-ups under the cucumber-expressions matcher: literal words, optional text, alternative "
                      "words, {int} {word} {string} {} parameters, parameterless expressions (oracle only: full-text match, precedence, "
                      "ambiguity, parameter values and spans)" % len(ccases)}
    mcases = gen_cuke_match_cases(rnd, 1800 if thorough else 420)
    cmatch = {"name": "cucumber_matches", "cases": mcases, "impl": impl_cuke_match, "oracle": oracle_cuke_match,
              "nontrivial": lambda c, o: bool(o.get("match") is not None),
              "bound": "%d (cucumber expression, text) pairs: literal text, optional text, alternative words, {int} {word} {} parameters x "
                       "instances and one-character / case / prefix / suffix mutations, through StepMatcher4CucumberExpressions and Cuke.v" % len(mcases),
              "coq": {"header": RX_HEADER.replace("StepMatch Regex.", "StepMatch Regex Cuke."), "in_ty": "list catom * ustr",
                      "out_ty": "option (list rarg)", "fn": "fun c => cuke_check_match (fst c) (snd c)",
                      "eqb": "option_eqb (list_eqb rarg_eqb)", "enc": enc_cuke_match, "shard": 300}}
    modcases = gen_module_cases(random.Random(seed * 17 + 1111), 240 if thorough else 60)
    modules = {"name": "step_modules", "cases": modcases, "impl": impl_modules, "oracle": oracle_modules,
               "nontrivial": lambda c, o: any(m[1] for m in c["modules"]),
               "bound": "%d steps directories of 2-4 modules (each with or without its own use_step_matcher choice, which it leaves "
                        "chosen) x run default parse / re / cfparse, loaded by load_step_modules: every module's definition is "
                        "compiled by the matcher in force for that module (oracle: bound / undefined / converted value; model: "
                        "the matcher each registered definition was compiled by, StepModules.v)" % len(modcases),
               "coq": {"header": MOD_HEADER, "in_ty": "mkind * list (nat * option mkind)", "out_ty": "list (nat * mkind)",
                       "fn": "kinds_after_loading", "eqb": "list_eqb nk_eqb", "enc": enc_modules, "shard": 200}}
    return [main, regexes, cukes, cmatch, modules]
