"""C15 — formatter event protocol well formed; JSON/plain/progress reports mirror the model."""
from __future__ import annotations
import random, re, io, json, copy
import runcluster as rc
import runprog
from common import clist, cnat, cbool, copt

TRUSTED = [
    "Coq 8.16.1 kernel (coqc, vm_compute); no axioms",
    "harness/runprog.py (renderer) and harness/props/c15.py (decoding of JSON / plain / progress text)",
    "json.dumps / json.loads of the standard library; the text layout of plain/pretty is not modelled",
]
ASSUMPTIONS = ["formatters are fed by ModelRunner only (no user code calls formatter methods)"]
RULE = ("seeded random runs (backgrounds at both levels, outlines, skipped/failing scenarios, hook faults, dry-run, --stop) with a "
        "recording formatter at the first and last position and json, plain, progress, progress2, progress3 in a random order "
        "in between, show_skipped on/off; non-trivial = a scenario with an unprocessed step or a rule background is present")
LEVEL_TEXT = ("Theorems over Runner.v + Formatters.v: the formatter events of every scenario run are its announcement followed by one "
              "(match, result) pair per processed step, for a prefix of its steps, each result carrying the step's final status; over "
              "any such stream the JSON fold attaches result i to step i without index error and the step queue of plain/progress shows "
              "each processed step once with that status; the stream of every whole run is a word of the protocol automaton (Protocol.v: "
              "features bracketed by uri/eof, rules, scenarios announcing their steps before reporting them, results naming the announced "
              "steps in order, exactly one close at the end).  The folds are compared with the real JSONFormatter / PlainFormatter on "
              "real runs; the oracle checks protocol grammar, agreement between formatter positions, JSON vs model, read-back, progress counts.")
LEVEL_NOTE = "Trusted: Coq kernel, renderer, text decoders, stdlib json. Tables and doc-strings in the JSON document and its read-back are checked by the oracle on real runs (suite tables_and_docstrings); the Coq fold models steps, matches, results and statuses. The whole-run grammar is a theorem and is also checked by the oracle on real streams."


def impl_formatters(case):
    from behave.formatter.base import Formatter, StreamOpener
    from behave.formatter.json import JSONFormatter
    from behave.formatter.plain import PlainFormatter
    from behave.formatter.progress import (ScenarioProgressFormatter, StepProgressFormatter,
                                           ScenarioStepProgressFormatter)
    prog = case["prog"]
    streams = {}
    marks_of = {}
    rec2 = []

    class Rec2(Formatter):
        def uri(self, uri): rec2.append(["uri", uri.split("/")[-1]])
        def feature(self, feature): rec2.append(["feature", feature.name])
        def rule(self, rule): rec2.append(["rule", rule.name])
        def background(self, background): rec2.append(["background", background.name, [s.name for s in background.steps]])
        def scenario(self, scenario): rec2.append(["scenario", scenario.name])
        def step(self, step): rec2.append(["step", step.name])
        def match(self, match): rec2.append(["match", bool(match.location)])
        def result(self, step): rec2.append(["result", step.name, step.status.name])
        def eof(self): rec2.append(["eof"])
        def close(self): rec2.append(["close"])
    classes = {"json": JSONFormatter, "plain": PlainFormatter, "progress": ScenarioProgressFormatter,
               "progress2": StepProgressFormatter, "progress3": ScenarioStepProgressFormatter}

    def extra(config):
        config.show_timings = False
        config.show_multiline = bool(case.get("multiline"))
        out = []
        class RecStream(io.StringIO):
            def __init__(self):
                io.StringIO.__init__(self)
                self.writes = []

            def write(self, text):
                self.writes.append(text)
                return io.StringIO.write(self, text)
        for name in case["order"]:
            streams[name] = RecStream()
            out.append(classes[name](StreamOpener(stream=streams[name]), config))
            if name.startswith("progress"):
                marks_of[name] = dict((v, k.name) for k, v in out[-1].dot_status.items())
        out.append(Rec2(StreamOpener(stream=io.StringIO()), config))
        return out
    obs = runprog.run_program(prog, extra_formatters=extra, want_model=True)
    features = obs.pop("_features"); obs.pop("_runner"); obs.pop("_config")
    out = {k: obs[k] for k in ("failed", "crashed", "log", "fmt", "tree", "aborted")}
    out["rec2"] = rec2
    out["text"] = {k: v.getvalue() for k, v in streams.items()}
    # progress formatters write one status character per reported item
    out["marks"] = {k: [marks_of[k].get(w, "?" + w) for w in streams[k].writes if len(w) == 1 and w != "\n"]
                    for k in streams if k in marks_of}
    # read the JSON report back with behave's own reader
    out["readback"] = None
    if "json" in streams and not obs["crashed"]:
        try:
            from behave import json_parser
            data = json.loads(streams["json"].getvalue())
            p = json_parser.JsonParser()
            feats = [p.parse_feature(d) for d in data]
            rb = []
            for f in feats:
                rb.append({"name": f.name, "status": f.status.name,
                           "scenarios": [{"name": s.name, "status": s.status.name,
                                          "steps": [[st.name, st.status.name] for st in s.steps]} for s in f.scenarios]})
            out["readback"] = rb
        except Exception as e:      # noqa
            out["readback"] = {"EXC": "%s: %s" % (type(e).__name__, e)}
    return out


def protocol_errors(events):
    """feature, optional background, per shown scenario its steps then (match result)* in step order, eof, one close"""
    errs = []
    state = "start"
    announced, idx = [], 0
    closes = 0
    in_feature = False
    for i, e in enumerate(events):
        k = e[0]
        if closes:
            errs.append("event %s after close" % (e,))
            break
        if k == "uri":
            if in_feature:
                errs.append("uri inside a feature")
        elif k == "feature":
            if in_feature:
                errs.append("feature without eof of the previous one")
            in_feature, announced, idx = True, [], 0
        elif k in ("rule", "background"):
            if not in_feature:
                errs.append("%s outside a feature" % k)
            announced, idx = [], 0
        elif k == "scenario":
            if not in_feature:
                errs.append("scenario outside a feature")
            announced, idx = [], 0
        elif k == "step":
            if idx:
                errs.append("step announced after results started")
            announced.append(e[1])
        elif k == "match":
            if i + 1 >= len(events) or events[i + 1][0] != "result":
                errs.append("match not followed by its result")
        elif k == "result":
            if i == 0 or events[i - 1][0] != "match":
                errs.append("result without a preceding match")
            if idx >= len(announced):
                errs.append("result for %s but only %d steps announced" % (e[1], len(announced)))
            elif announced[idx] != e[1]:
                errs.append("result for %s, next announced step is %s" % (e[1], announced[idx]))
            idx += 1
        elif k == "eof":
            if not in_feature:
                errs.append("eof outside a feature")
            in_feature = False
        elif k == "close":
            closes += 1
    if closes != 1:
        errs.append("%d close events" % closes)
    if in_feature:
        errs.append("feature without eof")
    return errs


def model_scenarios(tree):
    out = {}
    for t in tree:
        for it in t["items"]:
            for x in (it["items"] if it["kind"] == "rule" else [it]):
                for r in (x["rows"] if x["kind"] == "outline" else [x]):
                    out[r["name"]] = r
    return out


def step_names(prog):
    from props.c02 import scenarios_of
    return {n: [runprog.step_name(s) for s in steps] for n, steps, _t in scenarios_of(prog)}


def oracle(case, obs):
    out = []
    if obs.get("crashed"):
        return [("run crashed (a formatter raised?): %s" % obs["crashed"], "formatter-exception")]
    if obs["fmt"] != obs["rec2"]:
        out.append(("formatters at the first and the last position saw different event streams", "formatters-disagree"))
    for e in protocol_errors(obs["fmt"])[:2]:
        out.append(("event protocol: %s" % e, "protocol"))
    scen = model_scenarios(obs["tree"])
    names = step_names(case["prog"])
    fstatus = {t["name"]: t["status"] for t in obs["tree"]}
    if "json" in obs["text"]:
        try:
            data = json.loads(obs["text"]["json"])
        except ValueError as e:
            return out + [("JSON report is not valid JSON: %s" % e, "json-invalid")]
        shown_features = [e[1] for e in obs["fmt"] if e[0] == "feature"]
        if [d["name"] for d in data] != shown_features:
            out.append(("JSON features %s, shown features %s" % ([d["name"] for d in data], shown_features), "json-features"))
        # the background elements of a feature: one per announced background, listing that background's own steps
        bgs, cur = {}, None
        for e in obs["fmt"]:
            if e[0] == "feature":
                cur = e[1]
                bgs[cur] = []
            elif e[0] == "background" and cur is not None:
                bgs[cur].append(list(e[2]))
        for d in data:
            got = [[st["name"] for st in el["steps"]] for el in d.get("elements", []) if el["type"] == "background"]
            if d["name"] in bgs and got != bgs[d["name"]]:
                out.append(("JSON feature %s: background elements list steps %s, the backgrounds of the model have %s" % (
                    d["name"], got, bgs[d["name"]]), "json-background-steps"))
        for d in data:
            if d.get("status") != fstatus.get(d["name"]):
                out.append(("JSON feature %s status %s, model %s" % (d["name"], d.get("status"), fstatus.get(d["name"])), "json-feature-status"))
            for el in d.get("elements", []):
                if el["type"] == "background":
                    if "status" in el:
                        out.append(("JSON: a background element of %s carries status %s" % (d["name"], el["status"]), "json-status-on-wrong-element"))
                    continue
                m = scen.get(el["name"])
                if m is None:
                    out.append(("JSON scenario %s is not in the model" % el["name"], "json-structure"))
                    continue
                if el.get("status") != m["status"]:
                    sig = "json-status-on-wrong-element" if el.get("status") is None else "json-scenario-status"
                    out.append(("JSON scenario %s has status %s, model %s" % (el["name"], el.get("status"), m["status"]), sig))
                if [s["name"] for s in el["steps"]] != names.get(el["name"]):
                    out.append(("JSON scenario %s steps %s, model %s" % (el["name"], [s["name"] for s in el["steps"]], names.get(el["name"])), "json-structure"))
                    continue
                for s, ms in zip(el["steps"], m["steps"]):
                    if "result" in s:
                        if s["result"]["status"] != ms:
                            out.append(("JSON step %s of %s has status %s, model %s" % (s["name"], el["name"], s["result"]["status"], ms), "json-step-status"))
                    elif ms not in ("untested", "skipped", "undefined"):
                        out.append(("JSON step %s of %s has no result but the model says %s" % (s["name"], el["name"], ms), "json-step-missing-result"))
        rb = obs.get("readback")
        if isinstance(rb, dict):
            out.append(("reading the JSON report back raised %s" % rb["EXC"], "json-readback"))
        elif rb is not None:
            for f in rb:
                # a feature read back without any element is an empty container: its status cannot be pinned; neither can
                # "untested" (an aborted run): the model recomputes every non-final cached status from the children.  The
                # JSON *document* carries the right status in both cases (compared above).
                if f["scenarios"] and fstatus.get(f["name"]) != "untested" and f["status"] != fstatus.get(f["name"]):
                    out.append(("read-back feature %s status %s, model %s" % (f["name"], f["status"], fstatus.get(f["name"])), "json-readback"))
                for s in f["scenarios"]:
                    m = scen.get(s["name"])
                    if m is None or s["status"] != m["status"]:
                        out.append(("read-back scenario %s status %s, model %s" % (s["name"], s["status"], m and m["status"]), "json-readback"))
    # plain / progress: each processed step exactly once with its final status
    processed = [(e[1], e[2]) for e in obs["fmt"] if e[0] == "result"]
    if "plain" in obs["text"]:
        shown = re.findall(r"^\s+(?:Given|And|When|Then|But) (\w+(?: x)? \d+) \.\.\. (\w+)", obs["text"]["plain"], re.M)
        if shown != processed:
            out.append(("plain report shows %s, processed steps are %s" % (shown[:6], processed[:6]), "plain-steps"))
    for name in ("progress2", "progress3"):
        if name in obs.get("marks", {}):
            got = obs["marks"][name]
            want = [st for _n, st in processed]
            if got != want:
                out.append(("%s shows step marks %s, processed steps have statuses %s" % (name, got[:8], want[:8]), "progress-steps"))
    # the problem lists of the step-progress formatters: every processed step that failed or ended in an error-class status is
    # listed exactly once (FAILURE / ERROR), and nothing else is
    want_list = sorted((("FAILURE" if st == "failed" else "ERROR"), n) for n, st in processed
                       if st in ("failed", "error", "hook_error", "cleanup_error", "undefined", "pending"))
    for name in ("progress2", "progress3"):
        if name in obs["text"]:
            listed = sorted(re.findall(r"^(FAILURE|ERROR) in step '(\w+(?: x)? \d+)'", obs["text"][name], re.M))
            if listed != want_list:
                out.append(("%s lists problem steps %s, the processed steps that did not pass are %s" % (name, listed[:8], want_list[:8]),
                            "progress-problem-list"))
    if "progress" in obs.get("marks", {}):
        shown_scen = [e[1] for e in obs["fmt"] if e[0] == "scenario"]
        want = [scen[n]["status"] for n in shown_scen if n in scen]
        if obs["marks"]["progress"] != want:
            out.append(("progress shows scenario marks %s, shown scenarios have statuses %s" % (obs["marks"]["progress"][:8], want[:8]), "progress-scenarios"))
    return out


def nontrivial(case, obs):
    res = [e for e in obs.get("fmt", []) if e[0] == "result"]
    ann = [e for e in obs.get("fmt", []) if e[0] == "step"]
    return len(res) < len(ann) or any(e[0] == "rule" for e in obs.get("fmt", []))


# ------------------------------------------------------------------ Coq side
HEADER = rc.HEADER + """From BV Require Import Formatters.
Definition jstep_eqb (a b : jstep) : bool :=
  Nat.eqb (js_id a) (js_id b) && option_eqb Bool.eqb (js_match a) (js_match b) && option_eqb status_eqb (js_result a) (js_result b).
Definition jkind_eqb (a b : jkind) : bool :=
  match a, b with JBackground, JBackground => true | JScenario x, JScenario y => Nat.eqb x y | _, _ => false end.
Definition jelem_eqb (a b : jelem) : bool :=
  jkind_eqb (je_kind a) (je_kind b) && list_eqb jstep_eqb (je_steps a) (je_steps b) && option_eqb status_eqb (je_status a) (je_status b).
Definition rep_eqb (a b : option (list (list jelem)) * option (list (nat * status))) : bool :=
  option_eqb (list_eqb (list_eqb jelem_eqb)) (fst a) (fst b)
  && option_eqb (list_eqb (pair_eqb Nat.eqb status_eqb)) (snd a) (snd b).
Definition reports_of (c : cfgdata * list feature) := run_reports (run_case c).
"""


def enc(case, obs):
    if obs.get("crashed") or "json" not in obs["text"] or "plain" not in obs["text"]:
        return None
    try:
        data = json.loads(obs["text"]["json"])
    except ValueError:
        return None
    docs = []
    for d in data:
        els = []
        for el in d.get("elements", []):
            steps = clist(["(mkJStep %s %s %s)" % (cnat(rc.step_id_of(s["name"])),
                                                  "(Some true)" if "match" in s else "(@None bool)",
                                                  "(Some %s)" % s["result"]["status"] if "result" in s else "(@None status)")
                           for s in el["steps"]], "jstep")
            if el["type"] == "background":
                kind = "JBackground"
            else:
                try:
                    kind = "(JScenario %s)" % cnat(rc.name_id(el["name"]))
                except ValueError:
                    return None
            st = el.get("status")
            els.append("(mkJElem %s %s %s)" % (kind, steps, "(Some %s)" % st if st else "(@None status)"))
        docs.append(clist(els, "jelem"))
    shown = re.findall(r"^\s+(?:Given|And|When|Then|But) (\w+(?: x)? \d+) \.\.\. (\w+)", obs["text"]["plain"], re.M)
    plain = clist(["(%s, %s)" % (cnat(rc.step_id_of(n)), s) for n, s in shown], "nat * status")
    return rc.c_program(case["prog"]), "(Some %s, Some %s)" % (clist(docs, "list jelem"), plain)


# ------------------------------------------------------------------ JSON: tables and doc-strings, and the read-back
def render_rich(case):
    lines = ["Feature: F"]
    if case.get("bg"):
        lines.append("  Background: B")
        lines += step_lines(case["bg"], "    ")
    for si, sc in enumerate(case["scenarios"]):
        if sc.get("outline"):
            lines.append("  Scenario Outline: O%d <c>" % si)
            lines += step_lines(sc["steps"], "    ")
            lines.append("    Examples: E")
            lines.append("      | c |")
            lines += ["      | %s |" % v for v in sc["outline"]]
        else:
            lines.append("  Scenario: S%d" % si)
            lines += step_lines(sc["steps"], "    ")
    return "\n".join(lines) + "\n"


def step_lines(steps, ind):
    out = []
    for i, st in enumerate(steps):
        kind = st["kind"] if st["kind"] != "greets" else "greets " + ["ALICE", "Bob", "carol", "DaVe"][st["id"] % 4]
        out.append("%s%s it %s %d" % (ind, "Given" if i == 0 else "And", kind, st["id"]))
        if st.get("doc") is not None:
            out.append(ind + '  """')
            out += [ind + "  " + l for l in st["doc"]]
            out.append(ind + '  """')
        if st.get("table") is not None:
            out.append(ind + "  | " + " | ".join(st["table"][0]) + " |")
            out += [ind + "  | " + " | ".join(r) + " |" for r in st["table"][1]]
    return out


def impl_rich(case):
    import contextlib
    from behave.configuration import Configuration
    from behave.runner import ModelRunner
    from behave.step_registry import StepRegistry
    from behave.parser import parse_feature
    from behave.formatter.base import StreamOpener
    from behave.formatter.json import JSONFormatter
    from behave.json_parser import JsonParser
    registry = StepRegistry()

    def impl(context, kind, n):
        if kind == "fail":
            assert False, "no"
        if kind == "error":
            raise RuntimeError("boom")
    # a typed argument whose declared converter rejects the matched text (even numbers): the step ends in an error
    # without its function being called (type-conversion error)
    import parse
    from behave import matchers
    from behave.formatter.plain import PlainFormatter
    from behave.formatter.pretty import PrettyFormatter
    from behave.formatter.progress import StepProgressFormatter

    @parse.with_pattern(r"\d+")
    def odd(text):
        if int(text) % 2 == 0:
            raise ValueError("not odd: %s" % text)
        return int(text)
    factory = matchers.get_step_matcher_factory()
    factory.reset()
    factory.register_type(Odd=odd)
    @parse.with_pattern(r"[A-Za-z]+")
    def lower(text):
        return text.lower()             # a converter whose value is a string that differs from the matched text
    factory.register_type(Lower=lower)
    called = []
    registry.add_step_definition("step", "it greets {who:Lower} {n:d}", lambda context, who, n: None)
    registry.add_step_definition("step", "it converts {n:Odd}", lambda context, n: called.append(n))
    registry.add_step_definition("step", "it {kind} {n:d}", impl)
    feature = parse_feature(render_rich(case), filename="r.feature")
    config = Configuration(["--no-color"], load_config=False)
    config.reporters = []
    runner = ModelRunner(config, [feature], step_registry=registry)
    stream = io.StringIO()
    from behave.formatter.base import Formatter
    model_args = []

    class RecArgs(Formatter):
        def match(self, match):
            if match.location:
                model_args.append([[a.name, a.value if isinstance(a.value, (str, int, float, bool)) else None, a.original]
                                   for a in match.arguments])
    runner.formatters = [JSONFormatter(StreamOpener(stream=stream), config), RecArgs(StreamOpener(stream=io.StringIO()), config)]
    for cls in (PlainFormatter, StepProgressFormatter, PrettyFormatter)[:case.get("others", 0)]:
        runner.formatters.append(cls(StreamOpener(stream=io.StringIO()), config))
    crashed = None
    with contextlib.redirect_stdout(io.StringIO()):
        try:
            runner.run()
        except Exception as e:      # noqa -- a formatter raised: no report at all
            import traceback
            crashed = "%s: %s (%s)" % (type(e).__name__, e, traceback.extract_tb(e.__traceback__)[-1].filename.split("/")[-1])
        finally:
            factory.reset()

    def describe(sc):
        return {"name": sc.name, "status": sc.status.name,
                "steps": [{"name": st.name, "status": st.status.name, "text": st.text if st.text is None else str(st.text),
                           "table": [list(st.table.headings), [list(r.cells) for r in st.table.rows]] if st.table is not None else None}
                          for st in sc.steps]}
    model = [describe(sc) for sc in feature.walk_scenarios()]
    obs = {"model": model, "text": stream.getvalue(), "crashed": crashed, "called": called, "model_args": model_args}
    try:
        data = json.loads(stream.getvalue())
        back = JsonParser().parse_features(data)
        obs["readback"] = [describe(sc) for f in back for sc in f.walk_scenarios()]
    except Exception as e:      # noqa
        obs["readback"] = {"EXC": "%s: %s" % (type(e).__name__, e)}
    return obs


def oracle_rich(case, obs):
    out = []
    if obs.get("crashed"):
        return [("the run crashed inside a formatter, no report was written: %s" % obs["crashed"], "run-crashed-in-formatter")]
    for m in obs["model"]:
        for st in m["steps"]:
            w = st["name"].split()
            if w[1] == "converts" and int(w[2]) % 2 == 0 and st["status"] not in ("error", "skipped", "untested"):
                out.append(("step %r: the declared converter rejects the text but the step is %s" % (st["name"], st["status"]), "conversion-error-status"))
    if any(n % 2 == 0 for n in obs.get("called", [])):
        out.append(("a step function was called with an argument its converter rejects: %s" % obs["called"], "conversion-error-called"))
    try:
        data = json.loads(obs["text"])
    except ValueError as e:
        return [("JSON report is not valid JSON: %s" % e, "json-invalid")]
    # the arguments of every matched step: value, name and the matched text as the model's match has them
    jargs = [[[a.get("name"), a["value"], a.get("original", a["value"])] for a in st["match"]["arguments"]]
             for d in data for el in d.get("elements", []) if el["type"] != "background" for st in el["steps"] if "match" in st]
    margs = [[[n, v if v is not None else o, o] for n, v, o in args] for args in obs.get("model_args", [])]
    if jargs != margs:
        k = [i for i, (a, b) in enumerate(zip(jargs, margs)) if a != b]
        where = k[0] if k else min(len(jargs), len(margs))
        out.append(("JSON match arguments [name, value, matched text] of matched step #%d are %r, the model's match has %r" % (
            where, jargs[where] if where < len(jargs) else None, margs[where] if where < len(margs) else None), "json-match-arguments"))
    els = [el for d in data for el in d.get("elements", []) if el["type"] != "background"]
    if [el["name"] for el in els] != [m["name"] for m in obs["model"]]:
        out.append(("JSON scenarios %s, model %s" % ([el["name"] for el in els], [m["name"] for m in obs["model"]]), "json-structure"))
        return out
    for el, m in zip(els, obs["model"]):
        own = m["steps"]
        js = el["steps"][-len(own):] if own else []
        for s, ms in zip(js, own):
            jt = [s["table"]["headings"], s["table"]["rows"]] if "table" in s else None
            jx = s["text"] if "text" in s else None
            if isinstance(jx, list):
                jx = "\n".join(jx)
            if s["name"] != ms["name"] or jt != ms["table"] or (jx or None) != (ms["text"] or None):
                out.append(("JSON step %r of %s carries table %r / text %r, the model has %r / %r" % (
                    s["name"], el["name"], jt, jx, ms["table"], ms["text"]), "json-step-table-or-text"))
    rb = obs["readback"]
    if isinstance(rb, dict):
        out.append(("reading the JSON report back raised %s" % rb["EXC"], "json-readback-exception"))
    else:
        want = [{"name": m["name"], "status": m["status"],
                 "steps": [dict(st, status=st["status"]) for st in m["steps"]]} for m in obs["model"]]
        for r, m in zip(rb, want):
            rsteps = r["steps"][-len(m["steps"]):] if m["steps"] else []
            for rs, ms in zip(rsteps, m["steps"]):
                if rs["name"] != ms["name"] or rs["table"] != ms["table"] or (rs["text"] or None) != (ms["text"] or None):
                    out.append(("read-back step %r of %s has table %r / text %r, the model has %r / %r" % (
                        rs["name"], r["name"], rs["table"], rs["text"], ms["table"], ms["text"]), "json-readback-table-or-text"))
                    break
            if r["name"] != m["name"] or r["status"] != m["status"]:
                out.append(("read-back scenario %s status %s, model %s %s" % (r["name"], r["status"], m["name"], m["status"]), "json-readback"))
        if len(rb) != len(want):
            out.append(("read-back has %d scenarios, the model %d" % (len(rb), len(want)), "json-readback"))
    return out


def gen_rich(rnd):
    sid = iter(range(1, 1000))

    def step():
        st = {"kind": rnd.choice(["pass", "pass", "pass", "fail", "error", "converts", "converts", "greets", "greets"]), "id": next(sid)}
        r = rnd.random()
        if r < 0.3 or r > 0.9:
            st["doc"] = [rnd.choice(["hello", "two words", "  indented", "x <c> y", "Ünï"]) for _ in range(rnd.randint(1, 3))]
        if 0.3 <= r < 0.6 or r > 0.9:
            w = rnd.randint(1, 3)
            # (sometimes a heading is written twice: the cells of such a table are still the cells)
            st["table"] = [["h%d" % (0 if (i and rnd.random() < 0.2) else i) for i in range(w)],
                           [[rnd.choice(["1", "a b", "<c>", "ü", "x"]) for _ in range(w)] for _ in range(rnd.randint(0, 3))]]
        return st
    scens = []
    for _ in range(rnd.randint(1, 3)):
        sc = {"steps": [step() for _ in range(rnd.randint(1, 3))]}
        if rnd.random() < 0.3:
            sc["outline"] = [rnd.choice(["v1", "v2", "7"]) for _ in range(rnd.randint(1, 2))]
        scens.append(sc)
    case = {"scenarios": scens, "others": rnd.choice([0, 0, 1, 2, 3])}
    if rnd.random() < 0.3:
        case["bg"] = [step()]
    return case


def suites(tier, seed):
    rnd = random.Random(seed * 7127 + 15)
    rich = [gen_rich(rnd) for _ in range(600 if tier == "thorough" else 120)]
    rich_suite = {"name": "tables_and_docstrings", "cases": rich, "impl": impl_rich, "oracle": oracle_rich,
                  "nontrivial": lambda c, o: any(st.get("table") or st.get("doc") for sc in c["scenarios"] for st in sc["steps"]),
                  "bound": "%d runs of features whose steps carry tables and doc-strings (scenarios, outlines, background): JSON "
                           "document vs model, and the JsonParser read-back" % len(rich)}
    n = 3500 if tier == "thorough" else 650
    cases = []
    fmts = ["json", "plain", "progress", "progress2", "progress3"]
    for i in range(n):
        p = rc.gen_program(rnd)
        if i % 3 == 0:
            p = rc.with_random_faults(rnd, p, p_fault=0.6)
        if i % 4 == 1:
            # the same step (same keyword type and text) written more than once in a scenario or its background
            for f in p["features"]:
                for it in f["items"]:
                    for x in (it["items"] if it["kind"] == "rule" else [it]):
                        if x["steps"] and rnd.random() < 0.6:
                            k = rnd.randrange(len(x["steps"]))
                            src = rnd.choice(x["steps"] + (f["bg"] or []))
                            x["steps"].insert(k + 1, dict(src))
        order = list(fmts)
        rnd.shuffle(order)
        if rnd.random() < 0.3:
            order = order[:rnd.randint(2, 4)]
            for must in ("json", "plain"):
                if must not in order:
                    order.append(must)
        cases.append({"prog": p, "order": order, "multiline": rnd.random() < 0.5})
    return [rich_suite, {"name": "reports", "cases": cases, "impl": impl_formatters, "oracle": oracle, "nontrivial": nontrivial,
             "histogram": lambda cs, os_: rc.histogram([c["prog"] for c in cs], os_),
             "shrink": lambda c: (dict(c, prog=q) for q in rc.shrink_program(c["prog"])),
             "bound": "%d seeded random runs with 7 formatters active" % n,
             "coq": {"header": HEADER, "in_ty": "cfgdata * list feature",
                     "out_ty": "option (list (list jelem)) * option (list (nat * status))",
                     "fn": "reports_of", "eqb": "rep_eqb", "enc": enc, "shard": 120}}]
