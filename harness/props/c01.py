"""C01 — run verdict: no false green, no false red."""
from __future__ import annotations
import random, copy, os, sys
import common
import runcluster as rc
import runprog

TRUSTED = [
    "Coq 8.16.1 kernel (coqc, vm_compute); no axioms",
    "harness/runprog.py + harness/runcluster.py: rendering of abstract programs to Gherkin / hooks / step registry, and decoding of the observation into the model's output type",
]
ASSUMPTIONS = [
    "user code is data: step behaviour is one of 10 kinds, hooks raise / register cleanups at chosen sites; exceptions other than Exception/KeyboardInterrupt subclasses and KeyboardInterrupt inside hooks are not modelled",
]
RULE = ("seeded random programs (1-2 features, rules, backgrounds at both levels, outlines with several examples "
        "blocks, 10 step kinds, tag expressions, --stop/--dry-run/show-skipped, every hook kind, hook faults and "
        "hook-registered cleanups) plus the stratum of single-cause programs; non-trivial = the run has at least one "
        "bad event or a de-selected scenario; distinct = distinct canonical program")
LEVEL_TEXT = ("Theorem verdict_iff_bad_event over the Runner.v model: for every configuration, program, hook table and "
              "fault set the verdict is true iff the event trace contains a failing step call, an undefined step, a raising "
              "hook or cleanup, or an abort; the model is compared event-by-event with the real ModelRunner on thousands "
              "of rendered programs, and the oracle re-derives 'something went wrong' from the implementation's own log.")
LEVEL_NOTE = ("Trusted: Coq kernel; program renderer/decoder; the model is hand-written (correspondence, not translation). "
              "SystemExit/GeneratorExit from user code and KeyboardInterrupt inside hooks are outside the model.")


def bad_events(obs):
    """'something went wrong' computed from what the hooks/steps/cleanups themselves logged."""
    bad = []
    results = {}
    for e in obs["log"]:
        if e[0] == "hook" and e[3]:
            bad.append(e)
        elif e[0] == "cleanup" and e[2]:
            bad.append(e)
        elif e[0] == "undef" or e[0] == "hookabort":
            bad.append(e)
        elif e[0] == "step":
            if e[1] in ("fail", "error", "kbd", "abort"):
                bad.append(e)
            elif e[1] == "pending":
                bad.append(("pending?", e))
    return bad


def scen_index(prog):
    """scenario name -> (effective tags, is_wip)"""
    idx = {}
    for f in prog["features"]:
        for it in f["items"]:
            if it["kind"] == "rule":
                for x in it["items"]:
                    _idx_item(idx, x, f["tags"] + it["tags"])
            else:
                _idx_item(idx, it, f["tags"])
    return idx


def _idx_item(idx, it, anc):
    if it["kind"] == "scenario":
        idx["S%d" % it["id"]] = set(it["tags"]) | set(anc)
    else:
        for ei, ex in enumerate(it["examples"]):
            for r in range(ex["rows"]):
                idx["O%d -- @%d.%d E%d" % (it["id"], ei + 1, r + 1, ex["id"])] = set(it["tags"]) | set(ex["tags"]) | set(anc)


def oracle(prog, obs):
    out = []
    if obs.get("crashed"):
        return [("runner.run() let an exception escape: %s" % obs["crashed"], "run-crashed")]
    idx = scen_index(prog)
    from props.c02 import scenarios_of, eval_expr
    expr = prog["cfg"].get("expr")
    expr = expr[2] if (expr is not None and expr[0] == "raw") else expr
    selected_steps = set()
    for _name, steps, tags in scenarios_of(prog):
        if eval_expr(expr, tags):
            selected_steps.update(s["id"] for s in steps)
    wrong = []
    for b in bad_events(obs):
        if b[0] == "pending?":
            e = b[1]
            if "wip" not in idx.get(e[3], set()):      # tags from the abstract program, not from behave
                wrong.append(e)
        elif b[0] == "undef":
            # an undefined step only counts when a *selected* scenario contains it
            if b[1] in selected_steps:
                wrong.append(b)
        else:
            wrong.append(b)
    # the same clause read forwards, from the abstract program and not from what behave chose to run: a selected scenario (or
    # outline row) whose steps pass up to a step that fails / raises / is undefined / is pending outside @wip makes the run red,
    # whatever else happens in the run (--stop, aborts and raising hooks only add reasons to be red)
    cfg = prog["cfg"]
    if not obs["failed"] and not wrong and not cfg.get("dry_run") and not cfg.get("exclude_tag") and not cfg.get("wip_mode"):
        for name, steps, tags in scenarios_of(prog):
            if not eval_expr(expr, tags):
                continue
            for st in steps:
                k = st["kind"]
                if k in ("pass", "cleanupok"):
                    continue
                if k in ("fail", "error", "undefined", "cleanupraise", "abort", "kbd") or (k == "pending" and "wip" not in tags):
                    out.append(("run reports success although the selected scenario %s has the step %d (%s) behind passing steps only"
                                % (name, st["id"], k), "false-green"))
                break
            if out:
                break
    if obs["failed"] and not wrong:
        out.append(("run reports failure but nothing went wrong (log has no failing step, undefined step, raising hook/cleanup or abort)", "false-red"))
    if wrong and not obs["failed"]:
        out.append(("run reports success although %s happened" % (wrong[0],), "false-green"))
    return out


def nontrivial(prog, obs):
    return bool(bad_events(obs)) or any(r.get("status") == "skipped" for t in obs.get("tree", []) for r in _scens(t))


def _scens(t):
    for it in t["items"]:
        if it["kind"] == "rule":
            for x in it["items"]:
                yield from (x["rows"] if x["kind"] == "outline" else [x])
        elif it["kind"] == "outline":
            yield from it["rows"]
        else:
            yield it


def single_cause_programs():
    """Programs in which exactly one disjunct of the verdict fires."""
    out = []
    base = lambda steps, **cfg: {"features": [{"id": 1, "tags": [], "bg": None, "items": [
        {"kind": "scenario", "id": 2, "tags": [], "steps": [{"kind": k, "id": i + 1} for i, k in enumerate(steps)]}]}],
        "cfg": dict({"dry_run": False, "stop": False, "show_skipped": True, "expr": None, "hooks": list(runprog.HOOKS),
                     "faults": [], "hook_cleanups": [], "continue_after_failed": False}, **cfg)}
    out.append(base(["pass", "undefined"], dry_run=True))                 # only undefined_steps grows
    out.append(base(["pass"], faults=[["after_all", 0]]))                 # only hook_failures
    out.append(base(["pass"], faults=[["before_all", 0]]))
    out.append(base(["abort", "pass"]))                                    # only aborted
    out.append(base(["pass"], hook_cleanups=[["before_all", 0, 501, True]]))   # only root cleanups
    out.append(base(["pass"], hook_cleanups=[["before_feature", "F1", 502, True]]))
    out.append(base(["pass"], hook_cleanups=[["before_scenario", "S2", 503, True]]))
    out.append(base(["cleanupraise"]))
    out.append(base(["pass", "pass"]))
    out.append(base(["pending"]))
    p = base(["pending"]); p["features"][0]["items"][0]["tags"] = ["wip"]; out.append(p)
    p = base(["fail"], expr=["has", "t1"]); out.append(p)                  # de-selected failing scenario
    out.append(base(["kbd", "pass"]))
    for h in runprog.HOOKS:
        for key in ({"before_all": [0], "after_all": [0]}.get(h) or
                    (["F1"] if "feature" in h else ["S2"] if "scenario" in h else ["1"] if "step" in h else [])):
            out.append(base(["pass"], faults=[[h, key]]))
    return out


def wip_boundary_programs(rnd, n):
    """otherwise all-passing runs with ONE pending step, the @wip tag placed on the feature / rule / scenario /
    outline / one examples block - inside or outside the scope the pending step belongs to: green iff inside"""
    out = []
    for _ in range(n):
        ids = iter(range(1, 100))
        sid = iter(range(1, 100))

        def steps(pending):
            st = [{"kind": "pass", "id": next(sid)} for _ in range(rnd.randint(0, 2))]
            if pending:
                st.append({"kind": "pending", "id": next(sid)})
            st += [{"kind": "pass", "id": next(sid)} for _ in range(rnd.randint(0, 1))]
            return st or [{"kind": "pass", "id": next(sid)}]
        wip_at = rnd.choice(["feature", "rule", "scenario", "outline", "examples0", "examples1", "none"])
        pending_in = rnd.choice(["scenario", "outline", "rule_scenario"])

        def tags(place):
            t = ["t1"] if rnd.random() < 0.2 else []
            return t + (["wip"] if wip_at == place else [])
        fid = next(ids)
        scen = {"kind": "scenario", "id": next(ids), "tags": tags("scenario"), "steps": steps(pending_in == "scenario")}
        outline = {"kind": "outline", "id": next(ids), "tags": tags("outline"), "steps": steps(pending_in == "outline"),
                   "examples": [{"id": next(ids), "tags": tags("examples0"), "rows": rnd.randint(1, 2)},
                                {"id": next(ids), "tags": tags("examples1"), "rows": rnd.randint(1, 2)}]}
        rid = next(ids)
        rscen = {"kind": "scenario", "id": next(ids), "tags": [], "steps": steps(pending_in == "rule_scenario")}
        rule = {"kind": "rule", "id": rid, "tags": tags("rule"), "bg": None, "items": [rscen]}
        items = [scen, outline]
        rnd.shuffle(items)
        items.append(rule)              # a Rule captures every scenario after it: rules come last
        feat = {"id": fid, "tags": tags("feature"), "bg": None, "items": items}
        cfg = {"dry_run": False, "stop": False, "show_skipped": rnd.random() < 0.5, "expr": None, "hooks": list(runprog.HOOKS),
               "faults": [], "hook_cleanups": [], "continue_after_failed": False, "async_steps": False}
        out.append({"features": [feat], "cfg": cfg})
    return out


# ------------------------------------------------------------------ whole projects on disk, run by `python -m behave`
PROJECT_ENVS = {
    "none": None,
    "plain": "def before_all(context):\n    context.ready = True\n",
    "re": "from behave import use_step_matcher\nuse_step_matcher('re')\n",
    "type": "import parse\nfrom behave import register_type\n@parse.with_pattern(r'\\d+')\ndef number(text):\n    return int(text)\nregister_type(Number=number)\n",
    "raise": "def before_all(context):\n    raise RuntimeError('no database')\n",
    # the run is aborted (context.abort(), nothing raises) at its very end / after a scenario / by a cleanup of the test-run layer
    "abort_after_all": "def after_all(context):\n    context.abort()\n",
    "abort_after_scenario": "def after_scenario(context, scenario):\n    context.abort()\n",
    "abort_root_cleanup": "def before_all(context):\n    context.add_cleanup(context.abort)\n",
    "raise_after_all": "def after_all(context):\n    raise RuntimeError('teardown')\n",
    "raise_root_cleanup": "def boom():\n    raise RuntimeError('cleanup')\ndef before_all(context):\n    context.add_cleanup(boom)\n",
}
FAILING_ENVS = ("raise", "abort_after_all", "abort_after_scenario", "abort_root_cleanup", "raise_after_all", "raise_root_cleanup")
PROJECT_STEPS = {
    "none": "from behave import given, then\n@given('a counter at {start:d}')\ndef g(context, start):\n    context.n = start\n"
            "@then('it shows {n:d}')\ndef t(context, n):\n    assert context.n == n\n",
    "re": "from behave import given, then\n@given(r'a counter at (?P<start>\\d+)')\ndef g(context, start):\n    context.n = int(start)\n"
          "@then(r'it shows (?P<n>\\d+)')\ndef t(context, n):\n    assert context.n == int(n)\n",
    "type": "from behave import given, then\n@given('a counter at {start:Number}')\ndef g(context, start):\n    context.n = start\n"
            "@then('it shows {n:Number}')\ndef t(context, n):\n    assert context.n == n\n",
}
for _e in PROJECT_ENVS:
    PROJECT_STEPS.setdefault(_e, PROJECT_STEPS["none"])


def impl_project(case):
    import subprocess, tempfile, shutil
    top = tempfile.mkdtemp(prefix="c01_project_")
    try:
        os.makedirs(os.path.join(top, "features", "steps"))
        shown = 5 if case["outcome"] != "fail" else 6
        lines = ["Feature: F", "  @bad", "  Scenario: S", "    Given a counter at 5", "    Then it shows %d" % shown]
        if case["outcome"] == "undefined":
            lines.append("    Then nobody defined this")
        lines += ["  @good", "  Scenario: T", "    Given a counter at 7", "    Then it shows 7"]
        with open(os.path.join(top, "features", "f.feature"), "w") as fh:
            fh.write("\n".join(lines) + "\n")
        with open(os.path.join(top, "features", "steps", "steps.py"), "w") as fh:
            fh.write(PROJECT_STEPS[case["env"]])
        if PROJECT_ENVS[case["env"]] is not None:
            with open(os.path.join(top, "features", "environment.py"), "w") as fh:
                fh.write(PROJECT_ENVS[case["env"]])
        env = dict(os.environ, PYTHONPATH=common.REPO, HOME=top)
        p = subprocess.run([sys.executable, "-m", "behave", "--no-color", "-f", "plain"] + case.get("args", []), cwd=top, env=env,
                           capture_output=True, text=True, timeout=120)
        return {"exit": p.returncode, "tail": (p.stdout + p.stderr)[-600:]}
    finally:
        shutil.rmtree(top, ignore_errors=True)


PROJECT_TAGS = {   # --tags arguments -> (well-formed, selects the scenario tagged @bad)
    "good": (["--tags=@good"], True, False), "bad": (["--tags=@bad"], True, True), "not-bad": (["--tags=not @bad"], True, False),
    "either": (["--tags=@good or @bad"], True, True), "v1-not-bad": (["--tags=-@bad"], True, False),
    "dangling": (["--tags=@bad and"], False, None), "open": (["--tags=(@good or @bad"], False, None),
    "mixed": (["--tags=not @good or -@other"], False, None), "open-good": (["--tags=(@good"], False, None),
}


def oracle_project(case, obs):
    want_success = case["outcome"] == "pass" and case["env"] not in FAILING_ENVS
    if case.get("tags"):
        _args, well_formed, selects_bad = PROJECT_TAGS[case["tags"]]
        if not well_formed:
            if obs["exit"] == 0:
                return [("project run with the malformed tag expression %r (nothing can be selected, the run is given up): exit code 0\n%s"
                         % (_args, obs["tail"][-300:]), "false-green")]
            return []
        want_success = case["env"] not in FAILING_ENVS and (case["outcome"] == "pass" or not selects_bad)
    if want_success and obs["exit"] != 0:
        return [("project (environment.py: %s) whose steps all pass and where nothing raises: exit code %d\n%s" % (case["env"], obs["exit"], obs["tail"][-300:]),
                 "false-red")]
    if not want_success and obs["exit"] == 0:
        return [("project (environment.py: %s, outcome %s): exit code 0 although something went wrong" % (case["env"], case["outcome"]), "false-green")]
    return []


def suites(tier, seed):
    rnd = random.Random(seed * 1000003 + 1)
    n = 6000 if tier == "thorough" else 1200
    cases = single_cause_programs()
    for i in range(n):
        p = rc.gen_program(rnd)
        if i % 2:
            p = rc.with_random_faults(rnd, p)
        if i % 5 == 0:
            p = rc.with_random_aborts(rnd, p)       # some hook calls context.abort() and returns
        if i % 3 == 1 and any(x["kind"] == "outline" for f in p["features"] for it in f["items"]
                              for x in (it["items"] if it["kind"] == "rule" else [it])):
            # every outline also gets an 'Examples:' block without a table, before / between / behind its real blocks
            p["cfg"]["noise"] = dict(p["cfg"].get("noise") or {}, tableless=rnd.randint(0, 5))
        cases.append(p)
    cases += wip_boundary_programs(rnd, 400 if tier == "thorough" else 90)
    projects = [{"env": e, "outcome": o, "args": a} for e in PROJECT_ENVS for o in ("pass", "fail", "undefined")
                for a in ([], ["--stop"]) if not (a and (o == "pass" and e in ("none", "plain") or e.startswith(("abort_", "raise_"))))]
    projects += [{"env": e, "outcome": o, "tags": t, "args": PROJECT_TAGS[t][0]} for e in ("none", "re") for o in ("pass", "fail", "undefined")
                 for t in PROJECT_TAGS if not (e == "re" and o == "pass")]
    proj = {"name": "projects", "cases": projects, "impl": impl_project, "oracle": oracle_project, "exhaustive": True,
            "nontrivial": lambda c, o: True,
            "bound": "%d projects on disk (environment.py: none / hooks / step matcher chosen at module level / type registered at "
                     "module level / raising before_all / raising after_all / context.abort() in after_all, after_scenario or a test-run cleanup / raising test-run cleanup) x outcome x --stop x --tags (well-formed selecting / de-selecting the failing scenario, "
                     "malformed), run by python -m behave: exit code" % len(projects)}
    return [proj, {"name": "programs", "cases": cases, "impl": rc.impl_run, "oracle": oracle,
             "nontrivial": nontrivial, "histogram": rc.histogram, "shrink": rc.shrink_program,
             "bound": "%d seeded random programs + %d single-cause programs + @wip-boundary programs (one pending step, the wip tag "
                      "on feature / rule / scenario / outline / one examples block); in a third of the programs with outlines every outline "
                      "also has an Examples block without a table" % (n, len(single_cause_programs())),
             "coq": rc.COQ}]
