"""C09 — tag selection with inheritance selects exactly the matching scenarios."""
from __future__ import annotations
import re, random, itertools, copy
import runcluster as rc
import runprog
from props.c02 import scenarios_of, results_of, eval_expr

TRUSTED = [
    "Coq 8.16.1 kernel (coqc, vm_compute); no axioms",
    "harness/runprog.py + harness/runcluster.py (renderer, decoder)",
    "tag expressions are abstract in the theorems (any list nat -> bool); the concrete dialects are C07/C08's subject — here raw --tags arguments in both dialects are paired with their intended formula",
]
ASSUMPTIONS = ["parametrised outline tags (<placeholder> in a tag) are covered by C06, not here"]
RULE = ("seeded random feature trees with tags at feature, rule, scenario, outline and examples level x a pool of 22 tag "
        "expressions in both dialects (negations, and/or, wildcards, v1 comma/AND lists) x show_skipped x dry-run; programs "
        "without abort/--stop so that every scenario is reached; non-trivial = at least one scenario selected and one de-selected")
LEVEL_TEXT = ("Theorems over Runner.v with an abstract tag expression: a de-selected scenario emits no hook and no step call and ends "
              "skipped with all steps skipped; every step call and scenario hook of a run belongs to a selected scenario; a selected "
              "scenario calls its hooks; a rule / a feature (rules included) none of whose scenarios is selected is skipped and calls nothing; a rule or feature that "
              "ends skipped contains only skipped elements (one containing a scenario that passed or failed does not).  Model compared with real runs; "
              "oracle evaluates the intended formula on effective tags computed from the abstract program.")
LEVEL_NOTE = "Trusted: Coq kernel, renderer/decoder. The mapping raw --tags text -> formula is fixed per pool entry (C07/C08 verify the parsers)."

T = lambda t: ["has", t]
N = lambda t: ["not", t]
POOL = [
    None,
    T("t1"), N("t1"), T("t2"), N("t3"), T("wip"), N("wip"),
    ["and", T("t1"), T("t2")], ["or", T("t1"), T("t3")], ["and", T("t1"), N("t2")],
    ["not", ["or", T("t1"), T("t2")]], ["or", ["and", T("t1"), T("t2")], T("t3")],
    # raw forms: (arguments as written, intended formula)
    ["raw", ["@t1,@t2"], ["or", T("t1"), T("t2")]],                               # v1 OR
    ["raw", ["@t1", "@t2"], ["and", T("t1"), T("t2")]],                           # v1 AND (two arguments)
    ["raw", ["-@t1"], N("t1")], ["raw", ["~t2"], N("t2")],                         # v1 negation
    ["raw", ["t1,-t2", "t3"], ["and", ["or", T("t1"), N("t2")], T("t3")]],
    ["raw", ["not t1 and (t2 or t3)"], ["and", N("t1"), ["or", T("t2"), T("t3")]]],
    ["raw", ["t*"], ["or", T("t1"), ["or", T("t2"), T("t3")]]],                    # wildcard: some tag matches t*
    ["raw", ["not t*"], ["not", ["or", T("t1"), ["or", T("t2"), T("t3")]]]],
    ["raw", ["t[12]"], ["or", T("t1"), T("t2")]],
    ["raw", ["w?p or t3"], ["or", T("wip"), T("t3")]],
    # several new-style --tags options are AND-ed as wholes, whatever their own top-level operator and parentheses
    ["raw", ["(t1 and not t2) or (t3)", "wip"], ["and", ["or", ["and", T("t1"), N("t2")], T("t3")], T("wip")]],
    ["raw", ["(t1) or (t2)", "(t3)"], ["and", ["or", T("t1"), T("t2")], T("t3")]],
    ["raw", ["t1 or t2", "not t3"], ["and", ["or", T("t1"), T("t2")], N("t3")]],
    ["raw", ["(not t1) or (t2 and t3)", "(t1) or (t3)"], ["and", ["or", N("t1"), ["and", T("t2"), T("t3")]], ["or", T("t1"), T("t3")]]],
]


def sem(e):
    return e[2] if (e is not None and e[0] == "raw") else e


def eff(cfg):
    """the expression in force: the --tags expression, AND-ed with @wip under --wip"""
    e = sem(cfg.get("expr"))
    if cfg.get("wip_mode"):
        return ["has", "wip"] if e is None else ["and", e, ["has", "wip"]]
    return e


WIP_POOL = [None, T("t1"), ["or", T("wip"), T("t1")], N("wip"), ["and", T("wip"), T("t2")],
            ["raw", ["@t1,@wip"], ["or", T("t1"), T("wip")]], ["raw", ["not @wip"], N("wip")], ["raw", ["@wip or @t2"], ["or", T("wip"), T("t2")]],
            ["raw", ["@t1", "not @wip"], ["and", T("t1"), N("wip")]], ["raw", ["~@wip"], N("wip")]]


def containers_of(prog):
    """(name, kind, list of scenario names inside) for every feature and rule whose
    sub-elements are all non-empty (an outline without rows / a rule without items is out of scope)"""
    out = []
    for f in prog["features"]:
        fn, f_ok = [], True
        for it in f["items"]:
            if it["kind"] == "rule":
                rn, r_ok = [], True
                for x in it["items"]:
                    rn += _names(x)
                    r_ok &= bool(_names(x))
                if r_ok and rn:
                    out.append(("R%d" % it["id"], "rule", rn))
                f_ok &= r_ok           # (a rule without scenarios does not take the feature out of scope: it is skipped itself)
                fn += rn
            else:
                fn += _names(it)
                f_ok &= bool(_names(it))
        if f_ok:
            out.append(("F%d" % f["id"], "feature", fn))
    return out


def _names(it):
    if it["kind"] == "scenario":
        return ["S%d" % it["id"]]
    return ["O%d -- @%d.%d E%d" % (it["id"], ei + 1, r + 1, ex["id"])
            for ei, ex in enumerate(it["examples"]) for r in range(ex["rows"])]


def container_status(obs):
    res = {}
    for t in obs["tree"]:
        res[t["name"]] = t["status"]
        for it in t["items"]:
            if it["kind"] == "rule":
                res[it["name"]] = it["status"]
    return res


def excluded_scenarios(prog, obs):
    """names of the scenarios (rows) inside the elements on which a hook called .skip() (runprog: cfg["exclude_tag"])"""
    keys = set(e[1] for e in obs["log"] if e[0] == "excluded")
    if not keys:
        return set()
    out = set()
    for f in prog["features"]:
        for it in f["items"]:
            if it["kind"] == "rule":
                for x in it["items"]:
                    for n in _names(x):
                        if keys & {"F%d" % f["id"], "R%d" % it["id"], "%s%d" % ("S" if x["kind"] == "scenario" else "O", x["id"]), n}:
                            out.add(n)
            else:
                for n in _names(it):
                    if keys & {"F%d" % f["id"], "%s%d" % ("S" if it["kind"] == "scenario" else "O", it["id"]), n}:
                        out.add(n)
    return out


def oracle(prog, obs):
    out = []
    if obs.get("crashed"):
        return [("runner.run() let an exception escape: %s" % obs["crashed"], "run-crashed")]
    cfg = prog["cfg"]
    e = eff(cfg)
    res = results_of(obs)
    touched = {}
    for ev in obs["log"]:
        if ev[0] == "step":
            touched.setdefault(ev[3], []).append(ev)
        elif ev[0] == "hook" and ev[1] in ("before_scenario", "after_scenario"):
            touched.setdefault(ev[2], []).append(ev)
    reached_all = not cfg.get("stop") and not cfg.get("faults") and not obs.get("aborted")
    written = set(t for _n, _s, tags in scenarios_of(prog) for t in tags)
    for f in prog["features"]:
        written |= set(f["tags"])
        for it in f["items"]:
            written |= set(it["tags"])
    for ev in obs["log"]:
        if ev[0] == "hook" and ev[1] in ("before_tag", "after_tag") and ev[2] not in written:
            out.append(("%s hook called for the tag %r, which no element carries (tags written: %s)" % (ev[1], ev[2], sorted(written)),
                        "tag-nobody-wrote"))
            break
    selected = {}
    excluded = excluded_scenarios(prog, obs)
    for name, steps, tags in scenarios_of(prog):
        # (an element a hook excluded with .skip() before it started is treated like a de-selected one)
        sel = eval_expr(e, tags) and name not in excluded
        selected[name] = sel
        r = res.get(name)
        if r is None:
            continue
        if not sel:
            if name in touched:
                out.append(("%s scenario %s (tags %s) had %s" % ("excluded (element.skip() in before_feature)" if name in excluded else "de-selected", name, sorted(tags), touched[name][0]), "deselected-executed"))
            if reached_all and (r["status"] != "skipped" or any(s != "skipped" for s in r["steps"])):
                out.append(("de-selected scenario %s has status %s, steps %s" % (name, r["status"], r["steps"]), "deselected-not-skipped"))
        elif reached_all:
            if not cfg["dry_run"]:
                if "before_scenario" in cfg["hooks"] and not any(x[0] == "hook" and x[1] == "before_scenario" for x in touched.get(name, [])):
                    out.append(("selected scenario %s (tags %s) did not run its before_scenario hook" % (name, sorted(tags)), "selected-not-executed"))
                first = steps[0] if steps else None
                if first is not None and first["kind"] != "undefined" and not any(x[0] == "step" and x[2] == first["id"] for x in touched.get(name, [])):
                    out.append(("selected scenario %s did not call its first step" % name, "selected-not-executed"))
            if r["status"] == "skipped" and not any(s["kind"] == "skip" for s in steps):
                out.append(("selected scenario %s is reported skipped" % name, "selected-skipped"))
    if reached_all:
        cst = container_status(obs)
        for cname, kind, names in containers_of(prog):
            if not names:
                continue
            if not any(selected[n] for n in names):
                if cst.get(cname) != "skipped":
                    out.append(("%s %s has no selected scenario but status %s" % (kind, cname, cst.get(cname)), "container-not-skipped"))
            elif any(selected[n] and res[n]["status"] in ("passed", "failed") for n in names):
                if cst.get(cname) == "skipped":
                    out.append(("%s %s contains a selected scenario that passed/failed but is skipped" % (kind, cname), "container-skipped"))
    return out


def nontrivial(prog, obs):
    e = eff(prog["cfg"])
    sels = [eval_expr(e, tags) for _n, _s, tags in scenarios_of(prog)]
    return any(sels) and not all(sels)


KINDS = [("pass", 10), ("fail", 3), ("error", 1), ("pending", 1), ("undefined", 1), ("skip", 1), ("cleanupok", 1)]


# ------------------------------------------------------------------ file name patterns (--include / --exclude) with tags
FP_FILES = {
    "checkout.feature": (["shop"], [("S1", ["smoke"]), ("S2", ["wip"])]),
    "checkout_legacy.feature": (["smoke"], [("S3", []), ("S4", ["wip"])]),
    "search.feature": ([], [("S5", ["smoke", "wip"]), ("S6", [])]),
    "legacy_search.feature": (["wip"], [("S7", ["smoke"])]),
}
FP_TAGS = {None: lambda t: True, "@smoke": lambda t: "smoke" in t, "not @wip": lambda t: "wip" not in t,
           "@smoke and not @wip": lambda t: "smoke" in t and "wip" not in t}


def impl_file_patterns(case):
    import subprocess, tempfile, shutil, json, sys, os
    import common
    top = tempfile.mkdtemp(prefix="c09_files_")
    try:
        os.makedirs(os.path.join(top, "features", "steps"))
        for fname, (ftags, scens) in FP_FILES.items():
            lines = ["".join("@%s " % t for t in ftags).strip(), "Feature: %s" % fname]
            for name, tags in scens:
                lines += ["  " + "".join("@%s " % t for t in tags).strip(), "  Scenario: %s" % name, "    Given a step"]
            with open(os.path.join(top, "features", fname), "w") as fh:
                fh.write("\n".join(l for l in lines if l.strip()) + "\n")
        with open(os.path.join(top, "features", "steps", "steps.py"), "w") as fh:
            fh.write("from behave import given\n@given('a step')\ndef s(context):\n    pass\n")
        args = ["-f", "json", "-o", "report.json", "--show-skipped" if case["show_skipped"] else "--no-skipped"]
        if case["include"]:
            args += ["--include", case["include"]]
        if case["exclude"]:
            args += ["--exclude", case["exclude"]]
        if case["tags"]:
            args += ["--tags", case["tags"]]
        env = dict(os.environ, PYTHONPATH=common.REPO, HOME=top)
        p = subprocess.run([sys.executable, "-m", "behave", "--no-color"] + args, cwd=top, env=env, capture_output=True, text=True, timeout=120)
        try:
            rep = json.load(open(os.path.join(top, "report.json")))
        except Exception as e:      # noqa
            return {"exit": p.returncode, "error": "%s: %s" % (type(e).__name__, (p.stdout + p.stderr)[-300:])}
        ran, seen = [], []
        for f in rep:
            for el in f.get("elements", []):
                if el.get("type") == "scenario":
                    seen.append(el["name"])
                    if el.get("status") == "passed":
                        ran.append(el["name"])
        return {"exit": p.returncode, "ran": sorted(ran), "features": sorted(os.path.basename(f["location"].split(":")[0]) for f in rep)}
    finally:
        shutil.rmtree(top, ignore_errors=True)


def oracle_file_patterns(case, obs):
    if "error" in obs:
        return [("run with %r gave no report: %s" % (case, obs["error"]), "file-pattern-run-failed")]
    files = [f for f in FP_FILES if (not case["include"] or re.search(case["include"], "features/" + f))
             and not (case["exclude"] and re.search(case["exclude"], "features/" + f))]
    want = sorted(name for f in files for name, tags in FP_FILES[f][1] if FP_TAGS[case["tags"]](set(tags) | set(FP_FILES[f][0])))
    out = []
    if obs["ran"] != want:
        out.append(("--include %r --exclude %r --tags %r: executed %s, the scenarios of the selected files %s whose effective tags satisfy the "
                    "expression are %s" % (case["include"], case["exclude"], case["tags"], obs["ran"], sorted(files), want), "file-pattern-selection"))
    extra = [f for f in obs["features"] if f not in files]
    if extra:
        out.append(("--include %r --exclude %r: feature files %s were loaded although the patterns leave them out" % (
            case["include"], case["exclude"], extra), "file-pattern-selection"))
    return out


def suites(tier, seed):
    rnd = random.Random(seed * 31337 + 9)
    n = 6000 if tier == "thorough" else 1300
    cases = []
    for i in range(n):
        p = rc.gen_program(rnd, kinds=KINDS)
        p["cfg"]["expr"] = POOL[i % len(POOL)] if i < 4 * len(POOL) else rnd.choice(POOL)
        p["cfg"]["stop"] = False
        p["cfg"]["faults"] = []
        if i % 3 == 0:
            # every outline also carries a parametrised tag whose placeholder is no column of its Examples tables: such a tag
            # is dropped from the rows, it never becomes a tag of its own (t<nosuch> would read tnosuch and match t*)
            p["cfg"]["noise"] = dict(p["cfg"].get("noise") or {}, phantom_tag=rnd.choice(["t<nosuch>", "t<nosuch>", "<kind>", "t1<y>"]))
        cases.append(p)
    # a stratum where cuts do happen (stop / abort): only the unconditional clauses apply
    for i in range(n // 4):
        p = rc.gen_program(rnd)
        p["cfg"]["expr"] = rnd.choice(POOL)
        cases.append(p)
    # --wip: only scenarios that are @wip (own or inherited) run, whatever the --tags options say about @wip themselves
    for i in range(n // 8):
        p = rc.gen_program(rnd, kinds=KINDS)
        p["cfg"].update(expr=WIP_POOL[i % len(WIP_POOL)], wip_mode=True, stop=True, faults=[])
        cases.append(p)
    # explicit exclusion: the before_feature hook calls .skip() on every element carrying the tag x9
    xcases = []
    for i in range(n // 4):
        p = rc.gen_program(rnd, kinds=KINDS)
        p["cfg"].update(expr=(None if i % 3 == 0 else rnd.choice(POOL)), stop=False, faults=[], exclude_tag="x9")
        if "before_feature" not in p["cfg"]["hooks"] and i % 10:
            p["cfg"]["hooks"] = list(p["cfg"]["hooks"]) + ["before_feature"]
        for f in p["features"]:
            if rnd.random() < 0.05:
                f["tags"] = f["tags"] + ["x9"]
            for it in f["items"]:
                for x in [it] + (it["items"] if it["kind"] == "rule" else []):
                    if rnd.random() < 0.3:
                        x["tags"] = x["tags"] + ["x9"]
                    for ex in x.get("examples", []):
                        if rnd.random() < 0.2:
                            ex["tags"] = ex["tags"] + ["x9"]
        xcases.append(p)
    excl = {"name": "explicit_exclusion", "cases": xcases, "impl": rc.impl_run, "oracle": oracle,
            "nontrivial": lambda c, o: any(e[0] == "excluded" for e in o["log"]),
            "histogram": rc.histogram, "shrink": rc.shrink_program,
            "bound": "%d seeded random tagged programs whose before_feature hook excludes (element.skip()) every feature / rule / scenario / "
                     "outline / outline row carrying the tag x9: excluded elements are treated like de-selected ones (oracle), "
                     "and every run goes through the Coq model (Runner.v: c_excl / items_cfg / sel)" % len(xcases),
            "coq": rc.COQ}
    fcases = [{"include": i, "exclude": e, "tags": t, "show_skipped": (k % 2 == 0)}
              for k, (i, e, t) in enumerate(itertools.product([None, "checkout", "search", "legacy"], [None, "legacy", "checkout"],
                                                              list(FP_TAGS)))]
    if tier != "thorough":
        fcases = [c for k, c in enumerate(fcases) if (c["include"] and c["exclude"]) or k % 4 == (seed % 4)]
    fpat = {"name": "file_patterns", "cases": fcases, "impl": impl_file_patterns, "oracle": oracle_file_patterns, "exhaustive": True,
            "nontrivial": lambda c, o: bool(c["include"] or c["exclude"]),
            "bound": "%d projects on disk run by python -m behave: --include x --exclude file name patterns x tag expression over 4 "
                     "feature files (oracle only)" % len(fcases)}
    return [fpat, excl, {"name": "selection", "cases": cases, "impl": rc.impl_run, "oracle": oracle, "nontrivial": nontrivial,
             "histogram": rc.histogram, "shrink": rc.shrink_program,
             "bound": "%d seeded random tagged programs over a pool of %d expressions" % (len(cases), len(POOL)),
             "coq": rc.COQ}]
