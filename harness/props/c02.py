"""C02 — step execution: order, outcome-to-status mapping, stop after first non-pass."""
from __future__ import annotations
import random, itertools, copy
import runcluster as rc
import runprog

TRUSTED = [
    "Coq 8.16.1 kernel (coqc, vm_compute); no axioms",
    "harness/runprog.py + harness/runcluster.py (renderer, decoder)",
]
ASSUMPTIONS = [
    "step functions are the 10 behaviour kinds of harness/runprog.py, as plain functions and (a quarter of the runs) as coroutines run by "
    "behave.api.async_step; type-conversion errors (a registered type whose converter raises) are exercised by the oracle-only suite `flavours`",
]
RULE = ("single-scenario programs: ALL outcome sequences over {pass, fail, error, pending, undefined, skip, kbd, abort} up to the "
        "stated length x {plain, outline row} x {0,1,2} background levels x wip x dry-run x continue_after_failed_step, plus seeded "
        "random longer sequences and two-run histories on the same Scenario object; non-trivial = at least one step does not pass")
LEVEL_TEXT = ("Theorems over Runner.v's step loop for every step list and every loop state: calls are a subsequence (a prefix with the "
              "default class switch) of background ++ own steps, the status is the documented function of the outcome, nothing is "
              "called after the first non-pass / after a scenario skip / in dry-run; for a whole run (RunnerOrder.v) the calls are, in run "
              "order, one block per scenario / outline row, each on behalf of that scenario and a subsequence (prefix) of feature "
              "background ++ rule background ++ own steps.  The model is compared with real runs "
              "on all outcome sequences up to a bound; an independent oracle replays the property text on the implementation's call log.")
LEVEL_NOTE = "Trusted: Coq kernel, renderer/decoder."
EXHAUSTIVE = True

ALPHA = ["pass", "fail", "error", "pending", "undefined", "skip", "kbd", "abort"]
MAP = {"pass": "passed", "fail": "failed", "error": "error", "pending": "pending", "undefined": "undefined",
       "skip": "skipped", "kbd": "error", "abort": "passed", "cleanupok": "passed", "cleanupraise": "passed"}
FAILING = {"failed", "error", "pending", "undefined", "hook_error"}


def mk_program(seq, shape, bg_levels, wip, dry, cont):
    sid = rc.Ids()
    steps = lambda ks: [{"kind": k, "id": sid.next()} for k in ks]
    n_bg = min(bg_levels, max(0, len(seq) - 1))
    fbg = steps(seq[:1]) if n_bg >= 1 else None
    rbg = steps(seq[1:2]) if n_bg >= 2 else None
    own = steps(seq[n_bg:])
    tags = ["wip"] if wip else []
    if shape == "outline":
        item = {"kind": "outline", "id": 3, "tags": tags, "steps": own, "examples": [{"id": 4, "tags": [], "rows": 1}]}
    else:
        item = {"kind": "scenario", "id": 3, "tags": tags, "steps": own}
    items = [{"kind": "rule", "id": 2, "tags": [], "bg": rbg, "items": [item]}] if n_bg >= 2 else [item]
    return {"features": [{"id": 1, "tags": [], "bg": fbg, "items": items}],
            "cfg": {"dry_run": dry, "stop": False, "show_skipped": True, "expr": None, "hooks": list(runprog.HOOKS),
                    "faults": [], "hook_cleanups": [], "continue_after_failed": cont}}


def scenarios_of(prog):
    """(name, step list incl. backgrounds, effective tags) for every scenario / row in run order"""
    out = []

    def item(it, bg, anc):
        if it["kind"] == "scenario":
            out.append(("S%d" % it["id"], bg + it["steps"], set(it["tags"]) | anc))
        else:
            for ei, ex in enumerate(it["examples"]):
                for r in range(ex["rows"]):
                    out.append(("O%d -- @%d.%d E%d" % (it["id"], ei + 1, r + 1, ex["id"]), bg + it["steps"],
                                set(it["tags"]) | set(ex["tags"]) | anc))
    for f in prog["features"]:
        for it in f["items"]:
            if it["kind"] == "rule":
                for x in it["items"]:
                    item(x, (f["bg"] or []) + (it["bg"] or []), set(f["tags"]) | set(it["tags"]))
            else:
                item(it, f["bg"] or [], set(f["tags"]))
    return out


def results_of(obs):
    res = {}
    for t in obs["tree"]:
        for it in t["items"]:
            for x in (it["items"] if it["kind"] == "rule" else [it]):
                for r in (x["rows"] if x["kind"] == "outline" else [x]):
                    res[r["name"]] = r
    return res


def eval_expr(e, tags):
    if e is None:
        return True
    k = e[0]
    if k == "has":
        return e[1] in tags
    if k == "not":
        return not (e[1] in tags if isinstance(e[1], str) else eval_expr(e[1], tags))
    if k == "and":
        return eval_expr(e[1], tags) and eval_expr(e[2], tags)
    return eval_expr(e[1], tags) or eval_expr(e[2], tags)


def oracle(prog, obs):
    """The property text, replayed on the implementation's own call log (programs without hook faults)."""
    out = []
    if obs.get("crashed"):
        return [("runner.run() let an exception escape: %s" % obs["crashed"], "run-crashed")]
    cfg = prog["cfg"]
    step_faults = set((h, str(k)) for h, k in cfg.get("faults", []))
    if any(h not in ("before_step", "after_step") for h, _k in step_faults) or (step_faults and not all(
            h in cfg.get("hooks", []) for h, _k in step_faults)):
        return out          # faults in other hooks: C12
    res = results_of(obs)
    calls = {}
    for e in obs["log"]:
        if e[0] == "step":
            calls.setdefault(e[3], []).append((e[1], e[2]))
    if cfg["dry_run"] and calls:
        out.append(("dry-run called step functions: %s" % calls, "dry-run-calls"))
    for name, steps, tags in scenarios_of(prog):
        r = res.get(name)
        if r is None:
            out.append(("scenario %s missing from the model after the run" % name, "scenario-missing"))
            continue
        got = calls.get(name, [])
        ids = [s["id"] for s in steps]
        # document order: calls are a subsequence of background ++ own steps
        pos = -1
        for (_k, i) in got:
            if i not in ids[pos + 1:]:
                out.append(("%s: step %d called out of document order (calls %s, steps %s)" % (name, i, got, ids), "call-order"))
                break
            pos = ids.index(i, pos + 1)
        sts = r["steps"]
        if len(sts) != len(steps):
            out.append(("%s: %d statuses for %d steps" % (name, len(sts), len(steps)), "step-count"))
            continue
        if all(s == "untested" for s in sts) and not got:
            continue            # never reached (run cut short) -- C01/C03 territory
        selected = eval_expr(cfg.get("expr"), tags)
        if not selected or cfg["dry_run"]:
            if got:
                out.append(("%s: step functions called although the scenario is %s" % (
                    name, "not selected" if not selected else "a dry-run"), "calls-in-unselected"))
            continue
        wip = "wip" in tags
        running, failed, skipped = True, False, False
        exp_calls, exp = [], []
        for s in steps:
            k = s["kind"]
            if running:
                st = MAP[k]
                if k == "pending" and wip:
                    st = "pending_warn"
                # a raising before_step hook keeps the step function from being called, a raising after_step hook comes after
                # it; either way the step did not pass (hook_error) - the steps behind it are not run
                if k != "undefined" and ("before_step", str(s["id"])) in step_faults:
                    st = "hook_error"
                elif k != "undefined":
                    exp_calls.append((k, s["id"]))
                    if ("after_step", str(s["id"])) in step_faults:
                        st = "hook_error"
                exp.append(st)
                if st in FAILING:
                    failed = True
                    running = bool(cfg.get("continue_after_failed"))
                    if k == "skip" and ("before_step", str(s["id"])) not in step_faults:
                        skipped = True      # (the step function did skip the scenario before its after_step hook raised)
                elif k == "skip":
                    running = False
                    skipped = True
                elif skipped:
                    running = False
            elif failed:
                exp.append("undefined" if k == "undefined" else "skipped")
            else:
                exp.append("skipped")
        if got != exp_calls:
            sig = "call-after-first-non-pass" if len(got) > len(exp_calls) else "call-missing"
            out.append(("%s: calls %s, expected %s" % (name, got, exp_calls), sig))
        if sts != exp:
            out.append(("%s: step statuses %s, expected %s for outcomes %s" % (name, sts, exp, [s["kind"] for s in steps]),
                        "status-mapping"))
    return out


def nontrivial(prog, obs):
    return any(s["kind"] != "pass" for _n, steps, _t in scenarios_of(prog) for s in steps)


# ------------------------------------------------------------------ repeated runs of the same Scenario object
def impl_rerun(case):
    """Two runs of the same model objects with different behaviours per attempt; third: fresh run of attempt 2."""
    import io, contextlib
    from behave.configuration import Configuration
    from behave.runner import ModelRunner
    from behave.step_registry import StepRegistry
    from behave.parser import parse_feature
    from behave.exception import StepNotImplementedError
    n = len(case["first"])
    text = "Feature: F\n  Scenario: S\n" + "".join("    Given step %d\n" % i for i in range(n))
    table = {}

    def impl(context, i):
        k = table[i]
        if k == "fail":
            assert False
        if k == "error":
            raise RuntimeError("x")
        if k == "pending":
            raise StepNotImplementedError("x")
        if k == "skip":
            context.scenario.skip()
        if k == "abort":
            context.abort()
        if k == "kbd":
            raise KeyboardInterrupt()
    registry = StepRegistry()
    registry.add_step_definition("step", "step {i:d}", impl)

    def run(features, kinds, hook_raises):
        table.clear()
        table.update({i: k for i, k in enumerate(kinds)})
        config = Configuration(["--no-color"], load_config=False)
        config.reporters = []
        runner = ModelRunner(config, features, step_registry=registry)

        which = "before_scenario" if hook_raises is True else hook_raises      # True: the historical spelling

        def raising_hook(context, element):
            if which in ("before_step", "after_step") and element.name != "step 0":
                return
            raise RuntimeError("hook")
        runner.hooks = {which: raising_hook} if which else {}
        with contextlib.redirect_stdout(io.StringIO()):
            runner.run()
        sc = features[0].scenarios[0]
        return {"scenario": sc.status.name, "steps": [s.status.name for s in sc.steps], "feature": features[0].status.name}
    shared = [parse_feature(text, filename="x.feature")]
    first = run(shared, case["first"], case.get("hook1", False))
    second = run(shared, case["second"], case.get("hook2", False))
    fresh = run([parse_feature(text, filename="x.feature")], case["second"], case.get("hook2", False))
    return {"first": first, "second": second, "fresh": fresh}


def oracle_rerun(case, obs):
    if obs["second"] != obs["fresh"]:
        first_skipped = "skipped" in obs["first"]["steps"] and "skip" in case["first"]
        if first_skipped:
            sig = "rerun-skip-by-step-persists"
        elif case.get("hook2") and obs["second"]["scenario"] == obs["fresh"]["scenario"]:
            sig = "rerun-stale-step-status-when-steps-not-run"
        else:
            sig = "rerun-depends-on-earlier-run"
        return [("second run of the same objects gives %s, a fresh run of the same attempt gives %s (first run was %s)" % (
            obs["second"], obs["fresh"], obs["first"]), sig)]
    return []


def rerun_suite(tier, rnd):
    """two runs of the same Scenario object (used by C03: statuses depend only on the latest run)"""
    thorough = tier == "thorough"
    rer = []
    K = ["pass", "fail", "error", "pending", "skip", "abort"]
    for a in itertools.product(K, repeat=2):
        for b in itertools.product(K, repeat=2):
            rer.append({"first": list(a), "second": list(b), "hook2": False})
    for a in itertools.product(K, repeat=2):
        rer.append({"first": list(a), "second": ["pass", "pass"], "hook2": True})
    if not thorough:
        rer = rnd.sample(rer, 250)
    hooked = []
    for h in ("before_scenario", "after_scenario", "before_step", "after_step"):
        for b in itertools.product(K, repeat=2):
            hooked.append({"first": ["pass", "pass"], "second": list(b), "hook1": h, "hook2": False})
        for a in (("fail", "pass"), ("pass", "error"), ("skip", "pass")):
            hooked.append({"first": list(a), "second": ["pass", "pass"], "hook1": h, "hook2": False})
            hooked.append({"first": list(a), "second": ["pass", "fail"], "hook1": h, "hook2": h})
    if not thorough:
        hooked = rnd.sample(hooked, 100)
    rer += hooked
    return {"name": "rerun", "cases": rer, "impl": impl_rerun, "oracle": oracle_rerun,
            "nontrivial": lambda c, o: c["first"] != c["second"] or bool(c.get("hook1")),
            "bound": "two-step scenarios, all pairs of attempts over 6 outcomes; a raising before/after scenario or step hook in "
                     "the first and/or the second attempt"}


def impl_flavours(case):
    """type-conversion errors (a registered type whose converter raises) and async step functions, driven directly"""
    import io, contextlib, parse
    from behave.configuration import Configuration
    from behave.runner import ModelRunner
    from behave.step_registry import StepRegistry
    from behave.parser import parse_feature
    from behave import matchers
    from behave.model import Scenario
    from behave.api.async_step import async_run_until_complete
    factory = matchers.get_step_matcher_factory()
    factory.reset()

    @parse.with_pattern(r"\d+")
    def small(text):
        v = int(text)
        if v > 99:
            raise ValueError("too big: %s" % text)
        return v
    factory.register_type(Small=small)
    calls = []
    registry = StepRegistry()

    def mk(kind):
        def impl(context, n):
            calls.append([kind, n])
            if kind == "fail":
                assert False, "fails"
            if kind == "error":
                raise RuntimeError("raises")
        if not case["async"]:
            return impl

        decorate = {"bare": async_run_until_complete, "called": async_run_until_complete(),
                    "timeout": async_run_until_complete(timeout=30)}[case["async"] if isinstance(case["async"], str) else "bare"]

        @decorate
        async def aimpl(context, n):
            return impl(context, n)
        return aimpl
    for kind in ("pass", "fail", "error"):
        registry.add_step_definition("step", "%s {n:d}" % kind, mk(kind))
    registry.add_step_definition("step", "conv {n:Small}", mk("conv"))
    lines = ["Feature: F", "  Scenario: S"]
    for i, k in enumerate(case["seq"]):
        text = {"convbad": "conv %d" % (100 + i), "convok": "conv %d" % i}.get(k, "%s %d" % (k, i))
        lines.append("    %s %s" % ("Given" if i == 0 else "And", text))
    sink = io.StringIO()
    old = Scenario.continue_after_failed_step
    try:
        with contextlib.redirect_stdout(sink), contextlib.redirect_stderr(sink):
            config = Configuration(["--no-color", "--show-skipped"], load_config=False)
            feature = parse_feature("\n".join(lines) + "\n", filename="f.feature")
            Scenario.continue_after_failed_step = bool(case["cont"])
            runner = ModelRunner(config, [feature], step_registry=registry)
            runner.formatters = []
            failed = runner.run()
        sc = feature.scenarios[0]
        return {"failed": bool(failed), "scenario": sc.status.name, "steps": [s.status.name for s in sc.steps], "calls": calls}
    finally:
        Scenario.continue_after_failed_step = old
        factory.reset()


def oracle_flavours(case, obs):
    want, calls, stopped = [], [], False
    for i, k in enumerate(case["seq"]):
        if stopped and not case["cont"]:
            want.append("skipped")
            continue
        st = {"pass": "passed", "convok": "passed", "fail": "failed", "error": "error", "convbad": "error"}[k]
        want.append(st)
        if k != "convbad":
            calls.append([{"convok": "conv"}.get(k, k), i])
        if st != "passed":
            stopped = True
    out = []
    if obs["steps"] != want:
        out.append(("%s steps %s%s: statuses %s, expected %s" % ("async" if case["async"] else "sync", case["seq"],
                                                                   " (continue after failed)" if case["cont"] else "", obs["steps"], want), "flavour-status"))
    if obs["calls"] != calls:
        out.append(("%s steps %s: step functions called %s, expected %s (a parameter that cannot be converted is an error of the step, "
                    "its function is not called; nothing is called after the first non-pass)" % (
                        "async" if case["async"] else "sync", case["seq"], obs["calls"], calls), "flavour-calls"))
    if obs["failed"] != any(w in ("failed", "error") for w in want):
        out.append(("run verdict %s for statuses %s" % (obs["failed"], want), "flavour-verdict"))
    return out


def suites(tier, seed):
    rnd = random.Random(seed * 65537 + 2)
    thorough = tier == "thorough"
    L = 4 if thorough else 3
    cases = []
    for n in range(1, L + 1):
        for seq in itertools.product(ALPHA, repeat=n):
            if thorough:
                variants = [(sh, bg, w, d, c) for sh in ("scenario", "outline") for bg in (0, 1, 2)
                            for w in (False, True) for d in (False, True) for c in (False, True)]
                if n == L:
                    variants = rnd.sample(variants, 3)
            else:
                variants = [("scenario", 0, False, False, False)]
                variants += [(rnd.choice(["scenario", "outline"]), rnd.choice([0, 1, 2]), rnd.random() < 0.5,
                              rnd.random() < 0.3, rnd.random() < 0.4) for _ in range(2 if n == L else 4)]
            for (sh, bg, w, d, c) in variants:
                cases.append(mk_program(list(seq), sh, bg, w, d, c))
                if rnd.random() < 0.25:          # the same sequence with async step functions
                    p2 = mk_program(list(seq), sh, bg, w, d, c)
                    p2["cfg"]["async_steps"] = True
                    cases.append(p2)
    for _ in range(6000 if thorough else 700):
        n = rnd.randint(L + 1, 10)
        seq = [rnd.choice(ALPHA + ["pass"] * 6 + ["cleanupok", "cleanupraise"]) for _ in range(n)]
        cases.append(mk_program(seq, rnd.choice(["scenario", "outline"]), rnd.choice([0, 1, 2]),
                                rnd.random() < 0.3, rnd.random() < 0.2, rnd.random() < 0.4))
    for i in range(1500 if thorough else 300):
        p = rc.gen_program(rnd)
        if i % 4 == 0:
            # a placeholder in every step name: background steps of outline rows are then rebuilt per row
            # (feature background, then rule background, then the row's own steps - all of them)
            p["cfg"]["noise"] = {"step": "<x>"}
            if i % 8 == 0:
                # ... or only in every second step: a background with and without placeholders, copied per row all the same
                p["cfg"]["noise"]["step_mod"] = 2
        cases.append(p)
    # outline rows under a background of which only some steps carry a placeholder, rows that end differently
    # (de-selected by the tags of their Examples block, stopped before they start, different outcome kinds)
    for i in range(96 if thorough else 32):
        cfg = rc.gen_cfg(rnd)
        cfg.update(dry_run=False, continue_after_failed=False, noise={"step": "<x>", "step_mod": 2},
                   expr=rnd.choice([None, ["has", "t1"], ["has", "t2"], ["not", "t1"], ["not", "t2"]]), stop=rnd.random() < 0.4)
        own = [{"kind": rnd.choice(["pass", "pass", "fail", "error", "pending", "undefined", "skip"]), "id": 3 + k} for k in range(rnd.randint(1, 2))]
        outline = {"kind": "outline", "id": 2, "tags": [], "steps": own,
                   "examples": [{"id": 3, "tags": ["t1"], "rows": rnd.randint(1, 2)}, {"id": 4, "tags": ["t2"], "rows": rnd.randint(1, 2)}]}
        bg = [{"kind": rnd.choice(["pass", "pass", "fail"]), "id": 1}, {"kind": "pass", "id": 2}]
        if i % 2:
            f = {"id": 1, "tags": [], "bg": bg, "items": [outline]}
        else:
            f = {"id": 1, "tags": [], "bg": None, "items": [{"kind": "rule", "id": 5, "tags": [], "bg": bg, "items": [outline]}]}
        cases.append({"features": [f], "cfg": cfg})
    # a raising before_step / after_step hook around one step (mostly a passing one that is not the last)
    extra = []
    for i, c in enumerate(cases):
        if i % 6 == 0 and not c["cfg"].get("faults") and not c["cfg"].get("dry_run"):
            scs = [steps for _n, steps, _t in scenarios_of(c)]
            scs = [st for st in scs if st]
            if not scs:
                continue
            steps = rnd.choice(scs)
            cand = [x for x in steps[:-1] if x["kind"] == "pass"] or steps
            victim = rnd.choice(cand)
            c2 = copy.deepcopy(c)
            hooks = list(c2["cfg"].get("hooks", []))
            which = rnd.choice(["after_step", "after_step", "before_step"])
            if which not in hooks:
                hooks.append(which)
            c2["cfg"]["hooks"] = hooks
            c2["cfg"]["faults"] = [[which, str(victim["id"])]]
            extra.append(c2)
    cases += extra
    # continue_after_failed_step switched on per scenario from the before_scenario hook instead of the class attribute
    for i, c in enumerate(cases):
        if c["cfg"].get("continue_after_failed") and "before_scenario" in c["cfg"].get("hooks", []) and i % 2:
            c["cfg"]["continue_via_hook"] = True
    seqs = {"name": "sequences", "cases": cases, "impl": rc.impl_run, "oracle": oracle, "nontrivial": nontrivial,
            "histogram": rc.histogram, "shrink": rc.shrink_program, "exhaustive": True,
            "bound": "all outcome sequences over %d kinds up to length %d (x variants), random up to length 10" % (len(ALPHA), L),
            "coq": rc.COQ}
    # (the re-run suite lives in props/c03.py: "statuses depend only on the latest run" is a clause of C03)
    fl = []
    FL = ["pass", "fail", "convbad", "convok", "error"]
    for n in range(1, 4 if thorough else 3):
        for seq in itertools.product(FL, repeat=n):
            for asyn in (False, "bare", "called", "timeout"):
                fl.append({"seq": list(seq), "async": asyn, "cont": False})
    for _ in range(400 if thorough else 80):
        fl.append({"seq": [rnd.choice(FL + ["pass"] * 3) for _ in range(rnd.randint(3, 7))], "async": rnd.choice([False, False, "bare", "called", "timeout"]), "cont": rnd.random() < 0.3})
    flavours = {"name": "flavours", "cases": fl, "impl": impl_flavours, "oracle": oracle_flavours, "exhaustive": True,
                "nontrivial": lambda c, o: "convbad" in c["seq"],
                "bound": "all sequences up to length %d over {pass, fail, exception, type-conversion error, converted parameter}, sync and async (decorator bare / called / called with a timeout)" % (3 if thorough else 2)}
    return [seqs, flavours]
