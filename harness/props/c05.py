"""C05 — parser error discipline: only ParserError, with a usable line number."""
from __future__ import annotations
import random
import gherk

TRUSTED = [
    "Coq 8.16.1 kernel (coqc, vm_compute); no axioms",
    "harness/gen_more.py gen_gherkin: keyword tables of behave/i18n.py, the case pairs the step-keyword scan can observe; gen_unicode: "
    "str.isspace and str.splitlines boundaries",
]
ASSUMPTIONS = [
    "a language *argument* unknown to behave.i18n is a caller error (KeyError before parsing starts); unknown languages in '# language:' headers are covered",
    "characters whose lower case is longer than one character (U+0130) do not occur in lines",
]
RULE = ("random line soups (1-14 lines) over a pool of keyword lines in en/de/fr/ja (with and without names, with wrong case), step lines, tag lines "
        "(good, with comment, malformed), table rows (good, ragged, unterminated, escaped pipes), doc-string delimiters, text, blank and comment "
        "lines, language headers (known, unknown); table-heavy soups behind a valid scenario head (rows, ragged rows, comment and blank lines "
        "inside tables, Examples); all single-line insert/delete/duplicate/swap/truncate mutations of valid documents; catalogued "
        "faults injected at every position where they are faults; x entry points feature / rule / scenario / steps / tags x language argument")
LEVEL_TEXT = ("Theorems over Gherkin.v: parsing is a total function whose outcome is a model or an error - there is no other outcome -; an error line "
              "is the number of a line of the text (1..number of lines), namely the first line the machine rejects after accepting all lines before "
              "it; per fault kind: the state/line combinations the machine rejects.  Model compared with the real parser on every text; the oracle "
              "demands ParserError (never an internal exception) with a line inside the text, at the injected line for catalogued faults.")
LEVEL_NOTE = "Trusted: Coq kernel, generated keyword and character tables."
EXHAUSTIVE = False

POOL = [
    "Feature: f", "Feature:", "  Feature: indented", "Rule: r", "Rule:", "Background:", "Background: b", "Scenario: s", "Scenario:", "Example: e",
    "Scenario Outline: o", "Scenario Template: t", "Examples: e", "Examples:", "Scenarios:", "feature: lower", "Scenario s", "Scenario : s",
    "Funktionalität: f", "Szenario: s", "Grundlage:", "Szenariogrundriss: o", "Beispiele:", "Angenommen x", "Wenn y", "Dann z", "Und u",
    "Fonctionnalité: f", "Scénario: s", "Soit x", "Alors y", "フィーチャ: f", "シナリオ: s", "前提x", "ならばy",
    "Given a", "When b", "Then c", "And d", "But e", "* f", "given lower", "GIVEN upper", "Givenx", "  And indented", "Given", "And",
    "@t1", "@t1 @t2", "@t #comment", "@bad tag", "@", "@a@b", "  @indented", "@t1 # c @x",
    "| a | b |", "| a |", "| a | b", "|", "||", "| x \\| y | z |", "  | 1 | 2 |", "| a | b | c |", "|a|b|", "| | |",
    '"""', "'''", '  """', '"""x', "    '''", ' """',
    "some text", "  indented text", "x", ":", "text with | pipe", "text: colon",
    "", "   ", "\t",
    "# comment", "# language: de", "# language: zz", "#language:fr", "  # language: ja", "#",
    "# language:", "#language:   ", "#  language :", "# language: ", "# Language: de", "# language: DE",
]


def valid_doc(rnd, lang="en"):
    """a small valid document with the line numbers of interesting places"""
    K = {"en": ("Feature", "Background", "Scenario", "Scenario Outline", "Examples", "Rule", "Given ", "When ", "Then ", "And "),
         "de": ("Funktionalität", "Grundlage", "Szenario", "Szenariogrundriss", "Beispiele", "Regel", "Angenommen ", "Wenn ", "Dann ", "Und ")}[lang]
    lines = []
    marks = {"after_step": [], "first_step_no_bg": [], "plain_scenario_after_steps": [], "table_rows": [], "table_rows2": [], "before_scenario": [], "table_first": [], "table_first2": []}
    if lang != "en":
        lines.append("# language: %s" % lang)
    lines.append("%s: F" % K[0])
    has_bg = rnd.random() < 0.4
    if has_bg:
        lines.append("  %s:" % K[1])
        lines.append("    %sbg" % K[6])
    for i in range(rnd.randint(1, 3)):
        outline = rnd.random() < 0.3
        marks["before_scenario"].append(len(lines))
        if rnd.random() < 0.4:
            lines.append("  @t%d" % i)
        lines.append("  %s: S%d" % (K[3] if outline else K[2], i))
        if not has_bg:
            marks["first_step_no_bg"].append(len(lines))
        lines.append("    %sa%d" % (K[6], i))
        marks["after_step"].append(len(lines))
        lines.append("    %sb%d" % (K[7], i))
        if rnd.random() < 0.4:
            lines.append("      | h1 | h2 |")
            marks["table_first"].append(len(lines))
            marks["table_first2"].append(len(lines))
            if rnd.random() < 0.5:          # comment / blank lines inside a table do not count as rows
                lines.append(rnd.choice(["      # note", "", "# c"]))
            lines.append("      | 1 | 2 |")
            if rnd.random() < 0.3:
                lines.append(rnd.choice(["      # note", ""]))
                lines.append("      | 3 | 4 |")
            marks["table_rows"].append(len(lines))
            marks["table_rows2"].append(len(lines))
        elif rnd.random() < 0.3:
            lines.append('      """')
            lines.append("      doc")
            lines.append('      """')
        lines.append("    %sc%d" % (K[8], i))
        marks["after_step"].append(len(lines))
        if outline:
            lines.append("    %s:" % K[4])
            lines.append("      | x |")
            marks["table_first"].append(len(lines))
            if rnd.random() < 0.5:
                lines.append(rnd.choice(["      # note", "", "# c"]))
            lines.append("      | 1 |")
            marks["table_rows"].append(len(lines))
        else:
            marks["plain_scenario_after_steps"].append(len(lines))
    return lines, marks


def mutations(rnd, lines):
    out = []
    n = len(lines)
    for i in range(n + 1):
        out.append(lines[:i] + [rnd.choice(POOL)] + lines[i:])
    for i in range(n):
        out.append(lines[:i] + lines[i + 1:])
        out.append(lines[:i] + [lines[i], lines[i]] + lines[i + 1:])
        out.append(lines[:i + 1])
    for i in range(n - 1):
        out.append(lines[:i] + [lines[i + 1], lines[i]] + lines[i + 2:])
    return out


def faults(rnd, lang):
    """(text lines, expected error line, fault name)"""
    res = []
    lines, marks = valid_doc(rnd, lang)
    kw = {"en": ("Feature: again", "Examples: e", "And first", "some text", "Background: late"),
          "de": ("Funktionalität: nochmal", "Beispiele: e", "Und zuerst", "irgendein Text", "Grundlage: spät")}[lang]
    for pos in marks["after_step"]:
        res.append((lines[:pos] + ["  " + kw[0]] + lines[pos:], pos + 1, "second-feature"))
        res.append((lines[:pos] + ["  " + kw[3]] + lines[pos:], pos + 1, "text-after-steps"))
        res.append((lines[:pos] + ["  " + kw[4]] + lines[pos:], pos + 1, "background-after-steps"))
        if rnd.random() < 0.3:
            res.append((lines[:pos] + ["  @late", "  " + kw[4]] + lines[pos:], pos + 2, "background-after-steps"))
    for pos in marks["plain_scenario_after_steps"]:
        res.append((lines[:pos] + ["    " + kw[1]] + lines[pos:], pos + 1, "examples-outside-outline"))
    for pos in marks["first_step_no_bg"]:
        res.append((lines[:pos] + ["    " + kw[2]] + lines[pos:], pos + 1, "and-without-step"))
    for pos in marks["table_rows"]:
        res.append((lines[:pos] + ["      | a | b | c | d |"] + lines[pos:], pos + 1, "ragged-table-row"))
    for pos in marks["table_rows2"]:
        res.append((lines[:pos] + ["      | a |"] + lines[pos:], pos + 1, "short-table-row"))
    # the same as the FIRST data row, directly below the heading line
    for pos in marks["table_first"]:
        res.append((lines[:pos] + ["      | a | b | c | d |"] + lines[pos:], pos + 1, "ragged-first-row"))
    for pos in marks["table_first2"]:
        res.append((lines[:pos] + ["      | a |"] + lines[pos:], pos + 1, "short-first-row"))
    for pos in marks["before_scenario"]:
        res.append((lines[:pos] + ["  @a b"] + lines[pos:], pos + 1, "malformed-tag"))
    # an Examples block directly under a Rule line (whatever precedes the Rule: a scenario or an outline with examples)
    rk, ek = {"en": ("Rule", "Examples"), "de": ("Regel", "Beispiele")}[lang]
    res.append((lines + ["  %s: late" % rk, "    %s: e" % ek, "      | x |", "      | 1 |"], len(lines) + 2, "examples-under-rule"))
    res.append((lines + ["  %s: late" % rk, "    about the rule", "    %s:" % ek, "      | x |"], len(lines) + 3, "examples-under-rule"))
    return res


def step_faults(rnd, lang):
    """steps texts (the parse_steps / context.execute_steps entry point, and the same under a Scenario line) laid out with blank
    and comment lines, a table, a doc-string with a blank line inside; one fault at a known line"""
    K = {"en": ("Given ", "When ", "Then ", "And ", "Examples: e", "Feature: again", "Rule: late", "this is not a step", "Scenario: S"),
         "de": ("Angenommen ", "Wenn ", "Dann ", "Und ", "Beispiele: e", "Funktionalität: nochmal", "Regel: spät", "das ist kein Schritt", "Szenario: S")}[lang]
    lines, spots, heads = [], [], []
    if rnd.random() < 0.6:
        lines.append("")                    # the usual first line of a triple-quoted text
    indent = rnd.choice(["", "    "])
    for i in range(rnd.randint(1, 4)):
        lines.append(indent + K[0 if i == 0 else rnd.choice([1, 2, 3])] + "s%d" % i)
        r = rnd.random()
        if r < 0.25:
            lines += [indent + "  | h1 | h2 |", indent + "  | 1 | 2 |"]
            heads.append(len(lines) - 1)
        elif r < 0.45:
            lines += [indent + '  """', indent + "  doc", "", indent + "  more", indent + '  """']
        spots.append(len(lines))
        for _ in range(rnd.choice([0, 0, 1, 1, 2])):
            lines.append(rnd.choice(["", "", "   ", indent + "# note"]))
            spots.append(len(lines))
    res = []
    for pos in spots:
        for name, fl in (("examples-in-steps", K[4]), ("second-feature", K[5]), ("rule-in-steps", K[6]), ("text-after-steps", K[7])):
            res.append((lines[:pos] + [indent + fl] + lines[pos:], pos + 1, name))
    for pos in heads:
        for name, fl in (("ragged-first-row", "  | a | b | c |"), ("short-first-row", "  | a |")):
            res.append((lines[:pos] + [indent + fl] + lines[pos:], pos + 1, name))
    return res, K[8]


def oracle(case, obs):
    n = len(case["text"].splitlines())
    if "crash" in obs:
        return [("%s entry: internal %s (%s) on text %r" % (case["entry"], obs["crash"], obs["msg"], case["text"]),
                 "internal-exception:%s:%s" % (case["entry"], obs["crash"]))]
    if "error" in obs:
        if not isinstance(obs["error"], int) or not (1 <= obs["error"] <= max(n, 1)) or n == 0:
            return [("%s entry: ParserError line %r is outside the text (%d lines): %r" % (case["entry"], obs["error"], n, case["text"]),
                     "error-line-outside-text:" + case["entry"])]
        if case.get("fault") and obs["error"] != case["fault"][0]:
            return [("fault %s injected at line %d is reported at line %d (%s)" % (case["fault"][1], case["fault"][0], obs["error"], obs["msg"]),
                     "fault-line:" + case["fault"][1])]
        return []
    if case.get("fault"):
        return [("fault %s injected at line %d is accepted: %r" % (case["fault"][1], case["fault"][0], case["text"]), "fault-accepted:" + case["fault"][1])]
    return []


def histogram(cases, obs=None):
    h = {"entries": {}, "outcomes": {"ok": 0, "error": 0, "crash": 0}, "faults": {}}
    for c in cases:
        h["entries"][c["entry"]] = h["entries"].get(c["entry"], 0) + 1
        if c.get("fault"):
            h["faults"][c["fault"][1]] = h["faults"].get(c["fault"][1], 0) + 1
    for o in obs or []:
        if isinstance(o, dict):
            for k in h["outcomes"]:
                h["outcomes"][k] += k in o
    return h


def shrink(case):
    lines = case["text"].split("\n")
    if case.get("fault"):
        return
    for i in range(len(lines)):
        yield dict(case, text="\n".join(lines[:i] + lines[i + 1:]))


def suites(tier, seed):
    rnd = random.Random(seed * 53 + 5)
    thorough = tier == "thorough"
    entries = ["feature", "feature", "feature", "rule", "scenario", "steps", "tags"]
    soups = []
    for _ in range(12000 if thorough else 2500):
        text = "\n".join(rnd.choice(POOL) for _ in range(rnd.randint(1, 14)))
        if rnd.random() < 0.2:
            text += "\n"
        if rnd.random() < 0.05:
            text = text.replace("\n", "\r\n")
        soups.append({"entry": rnd.choice(entries), "text": text, "lang": rnd.choice([None, None, None, "de", "fr", "ja"])})
    TPOOL = ["| a | b |", "| 1 | 2 |", "  | x | y |", "# c", "", "   ", "| a |", "| a | b | c |", "| a | b", "When w", "Examples:", "Examples: e",
             "  # note", "| | |", "@t", '"""', "text"]
    for _ in range(4000 if thorough else 800):
        outline = rnd.random() < 0.5
        head = ["Feature: f", "  Scenario Outline: o" if outline else "  Scenario: s", "    Given a"]
        body = [rnd.choice(TPOOL) for _ in range(rnd.randint(2, 9))]
        soups.append({"entry": "feature", "text": "\n".join(head + body) + "\n", "lang": None})
    # language comments of every shape as the first line of a feature file (known, unknown, no name at all)
    for first in ("# language:", "#language:", "# language:   ", "#   language:    ", "# language: xx", "# language: en", "# language:de", "#language: fr ",
                  "# language: de # trailing", "# language", "# LANGUAGE:", "# language: EN"):
        for rest in ("Feature: f\n  Scenario: s\n    Given a\n", "", "@t\nFeature: f\n", "Funktionalität: f\n"):
            soups.append({"entry": "feature", "text": first + "\n" + rest, "lang": None})
            soups.append({"entry": "feature", "text": "\n" + first + "\n" + rest, "lang": rnd.choice([None, "de"])})
    # an Examples keyword without (or with a partial) table, followed by every kind of line; outlines with and without steps
    follow = [[], ["  Scenario: S", "    Given a"], ["    Examples: again", "      | x |", "      | 1 |"], ["  @t", "  Scenario: S"], ["    junk"],
              ["  Rule: R", "    Scenario: S", "      Given a"], ["", "  Scenario Outline: P", "    Given <x>", "    Examples:", "      | x |"],
              ["    # note", "    junk"], ["    Given late"], ['    """', "    doc", '    """'], ["  Background: late"], ["    Examples:"]]
    for head in (["Feature: F", "  Scenario Outline: O"], ["Feature: F", "  Scenario Outline: O", "    Given a <x>"],
                 ["Feature: F", "  Background:", "    Given bg", "  Scenario Outline: O"],
                 ["Feature: F", "  Rule: R", "    Scenario Outline: O"]):
        for ex in (["    Examples: e"], ["    @x", "    Examples: e"], ["    Examples: e", "      about it"], ["    Examples: e", "      | x |"]):
            for fo in follow:
                soups.append({"entry": "feature", "text": "\n".join(head + ex + fo) + "\n", "lang": None})
                if head[1].startswith("  Scenario Outline") and len(soups) % 3 == 0:
                    soups.append({"entry": "scenario", "text": "\n".join(head[1:] + ex + fo) + "\n", "lang": None})
    for t in ("", "\n", " ", "@a", " @a", "\n@a", "@a\n@b c", "x", "@a\n\n  @b #c\n"):
        soups.append({"entry": "tags", "text": t, "lang": None})
    muts = []
    for _ in range(60 if thorough else 12):
        lang = rnd.choice(["en", "en", "de"])
        lines, _m = valid_doc(rnd, lang)
        for m in mutations(rnd, lines):
            muts.append({"entry": "feature", "text": "\n".join(m) + "\n", "lang": None})
        body = [l for l in lines if not l.startswith("#")][1:]
        for m in mutations(rnd, body)[: (200 if thorough else 40)]:
            muts.append({"entry": rnd.choice(["rule", "scenario", "steps"]), "text": "\n".join(m) + "\n", "lang": (None if lang == "en" else lang)})
        rbody = [{"en": "Rule: R", "de": "Regel: R"}[lang]] + body
        rmuts = mutations(rnd, rbody)
        for m in rnd.sample(rmuts, min(len(rmuts), 40 if thorough else 15)):
            muts.append({"entry": "rule", "text": "\n".join(m) + "\n", "lang": (None if lang == "en" else lang)})
    flt = []
    for _ in range(80 if thorough else 20):
        lang = rnd.choice(["en", "de"])
        for lines, where, name in faults(rnd, lang):
            flt.append({"entry": "feature", "text": "\n".join(lines) + "\n", "lang": None, "fault": [where, name]})
            # the same document as a Rule (parse_rule entry point): the Feature line becomes the Rule line
            if name != "second-feature":
                off = 1 if lang != "en" else 0
                rl = list(lines[off:])
                rl[0] = {"en": "Rule: R", "de": "Regel: R"}[lang]
                flt.append({"entry": "rule", "text": "\n".join(rl) + "\n", "lang": (None if lang == "en" else lang), "fault": [where - off, name]})

    for _ in range(60 if thorough else 15):
        lang = rnd.choice(["en", "en", "de"])
        sf, scen_line = step_faults(rnd, lang)
        for lines, where, name in sf:
            flt.append({"entry": "steps", "text": "\n".join(lines) + rnd.choice(["", "\n"]), "lang": (None if lang == "en" else lang), "fault": [where, name]})
            flt.append({"entry": "scenario", "text": "\n".join([scen_line] + lines) + "\n", "lang": (None if lang == "en" else lang),
                        "fault": [where + 1, name]})
    # And / But as the very first step below a Background that has no steps (title only), at feature and at rule level
    for first in ("And x", "But x"):
        for lines, where in (
                (["Feature: F", "  Background:", "  Scenario: S", "    " + first], 4),
                (["Feature: F", "  Background:", "    " + first], 3),
                (["Feature: F", "  Background: named", "", "  Scenario: S", "    " + first, "    Given y"], 5),
                (["Feature: F", "  Rule: R", "    Background:", "    Scenario: S", "      " + first], 5),
                (["Feature: F", "  Rule: R", "    Background:", "      " + first], 4),
                (["Feature: F", "  Background:", "  Rule: R", "    Background:", "    Scenario: S", "      " + first], 6),
                (["Feature: F", "  Scenario: S", "    " + first], 3)):
            flt.append({"entry": "feature", "text": "\n".join(lines) + "\n", "lang": None, "fault": [where, "and-without-step"]})
            if lines[1].startswith("  Rule"):
                flt.append({"entry": "rule", "text": "\n".join(l[2:] for l in lines[1:]) + "\n", "lang": None, "fault": [where - 1, "and-without-step"]})
    # the tags entry point: tag text with blank and comment lines, one faulty line at a known place
    for _ in range(120 if thorough else 40):
        tl = [rnd.choice(["@a @b", "@c", "", "   ", "# note", "  @d  # x", "@e"]) for _ in range(rnd.randint(1, 7))]
        pos = rnd.randint(0, len(tl))
        bad = rnd.choice(["x y", "@f g", "no tag here", "@h @i j"])
        lines = tl[:pos] + [bad] + tl[pos:]
        flt.append({"entry": "tags", "text": "\n".join(lines) + rnd.choice(["", "\n"]), "lang": None, "fault": [pos + 1, "bad-tag-line"]})
    def suite(name, cases, bound):
        return {"name": name, "cases": cases, "impl": gherk.impl_parse, "oracle": oracle, "shrink": shrink, "histogram": histogram,
                "nontrivial": lambda c, o: "error" in o, "bound": bound, "coq": gherk.COQ}
    return [suite("line_soups", soups, "%d random line soups x entry points" % len(soups)),
            suite("mutations", muts, "%d single-line mutations of valid documents" % len(muts)),
            suite("injected_faults", flt, "%d documents with one catalogued fault at a known line" % len(flt))]
