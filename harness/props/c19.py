"""C19 — active tags exclude exactly by the documented per-category logic."""
from __future__ import annotations
import random, itertools, re, operator
from common import clist, cbool, cnat, cstr, cZ

TRUSTED = [
    "Coq 8.16.1 kernel (coqc, vm_compute); no axioms",
    "harness/gen_more.py: tag prefixes, separator, which prefixes negate, bool strings, \\w and lower() tables tabulated from the code / the running Python",
    "Python's re (tag schema), int() for numeric tag values (modelled for sign + ASCII digits)",
]
ASSUMPTIONS = ["custom prefixes / separators and user-defined comparison functions are checked by the oracle only"]
RULE = ("all tag lists up to length 3 (exhaustive) and seeded random ones up to length 6 over a universe of 5 prefixes x 2 categories x "
        "4 values + ordinary and malformed look-alike tags, x current-value assignments (category unknown, None, plain string, number "
        "objects with eq/ge/le/lt, bool objects, lazy callables) x provider kinds (dict, ActiveTagValueProvider, composite of two with "
        "cache, queried twice) and composite matchers; non-trivial = at least one active tag of a known category")
LEVEL_TEXT = ("Theorems over ActiveTag.v: grouped evaluation (the code's loop) equals the documented formula - excluded iff for some category "
              "known to the provider the element has positive tags none of which matches, or a negative tag that matches; tags of unknown "
              "categories and non-active tags never exclude; malformed numeric/boolean values never match; a composite matcher excludes "
              "iff a member does.  Model compared with the implementation on exhaustive small tag lists.")
LEVEL_NOTE = "Trusted: Coq kernel, generated tables."
EXHAUSTIVE = True

PREFIXES = ["use", "not", "active", "not_active", "only"]
CATS = ["os", "browser.ver", "py.feature.x_y"]        # categories without, with one and with several dots
VALUES = ["a", "b", "10", "yes"]
EMPTY_VALUED = ["use.with_os=", "not.with_os=", "only.with_browser.ver=", "not_active.with_py.feature.x_y="]    # active tags with an empty value
ORDINARY = ["wip", "use.without_os=a", "use.with_=x", "not.with_os", "use.with_os.=a", "xuse.with_os=a", "use.with_os=a=b"]
OPS = {"eq": operator.eq, "ge": operator.ge, "le": operator.le, "lt": operator.lt}


def mk_value(spec, state=None, cat=None):
    from behave.tag_matcher import NumberValueObject, BoolValueObject, ValueObject
    kind = spec[0]
    if kind == "str":
        v = spec[1]
    elif kind == "none":
        v = None
    elif kind == "num":
        v = NumberValueObject(spec[1], OPS[spec[2]])
    elif kind == "bool":
        v = BoolValueObject(spec[1])
    elif kind == "strobj":
        v = ValueObject(spec[1])
    else:
        raise ValueError(spec)
    # lazy values read what is current at the moment they are asked (an environment variable, say): state[cat]
    state = state if state is not None else {}
    if spec[-1] == "lazy" and kind in ("str",):
        state[cat] = v
        return lambda: state[cat]
    if spec[-1] == "lazy" and kind in ("num", "bool", "strobj"):
        state[cat] = v._value
        v._value = lambda: state[cat]
    return v


def impl_matcher(case):
    from behave.tag_matcher import (ActiveTagMatcher, ActiveTagValueProvider, CompositeActiveTagValueProvider,
                                    CompositeTagMatcher)
    import logging
    logging.getLogger("behave.active_tags").disabled = True       # conversion errors are logged; keep the check quiet
    state = {}
    data = {cat: mk_value(spec, state, cat) for cat, spec in case["values"].items()}
    kind = case["provider"]
    if kind == "dict":
        prov = data
    elif kind == "atvp":
        prov = ActiveTagValueProvider(data)
    else:
        cats = sorted(data)
        first = {c: data[c] for c in cats[:1]}
        second = {c: data[c] for c in cats[1:]}
        prov = CompositeActiveTagValueProvider([ActiveTagValueProvider(first), second])
    kwargs = {}
    if case.get("prefixes"):
        kwargs = {"tag_prefixes": case["prefixes"], "value_separator": case["sep"]}
    if case.get("override"):
        # environment.py: setup_active_tag_values(provider, userdata) - current values taken from -D definitions
        from behave.tag_matcher import setup_active_tag_values
        setup_active_tag_values(prov, case["override"])
    m = ActiveTagMatcher(prov, **kwargs)
    out = {}
    # somebody (print_active_tags in a hook, say) asked the provider for categories with a default of its own before the
    # matcher runs: a category nobody knows stays unknown
    for cat, dflt in case.get("prequery", []):
        try:
            prov.get(cat, dflt)
        except Exception:       # noqa
            pass
    try:
        out["exclude"] = bool(m.should_exclude_with(case["tags"]))
        out["again"] = bool(m.should_exclude_with(case["tags"]))          # cached providers must not change the answer
        out["run"] = bool(m.should_run_with(case["tags"]))
        out["composite"] = bool(CompositeTagMatcher([ActiveTagMatcher({}), m]).should_exclude_with(case["tags"]))
        # composites built without members, one of them given a member afterwards
        grown, empty = CompositeTagMatcher(), CompositeTagMatcher()
        grown.tag_matchers.append(m)
        out["grown_composite"] = bool(grown.should_exclude_with(case["tags"]))
        out["empty_composite"] = bool(empty.should_exclude_with(case["tags"])) or not empty.should_run_with(case["tags"])
        if case.get("later"):
            # what the lazy values read has changed in the meantime; the same matcher is asked again
            state.update(case["later"])
            out["later"] = bool(m.should_exclude_with(case["tags"]))
    except Exception as e:      # noqa
        out["EXC"] = "%s: %s" % (type(e).__name__, e)
    return out


def matches(spec, tagval):
    kind = spec[0]
    if kind in ("str", "strobj"):
        return spec[1] == tagval
    if kind == "none":
        return False
    if kind == "num":
        try:
            return OPS[spec[2]](spec[1], int(tagval))
        except ValueError:
            return False
    if kind == "bool":
        t = tagval.lower()
        if t in ("true", "yes", "on"):
            return spec[1] is True
        if t in ("false", "no", "off"):
            return spec[1] is False
        return False


def eff_values(case):
    """current values after setup_active_tag_values(provider, override): only categories the provider knows are updated"""
    vals = dict(case["values"])
    for c, v in (case.get("override") or {}).items():
        if c in vals:
            vals[c] = ["str", v]
    return vals


def expected(case):
    prefixes = case.get("prefixes") or PREFIXES
    sep = case.get("sep") or "="
    rx = re.compile(r"^(%s)\.with_(\w+(?:\.\w+)*)%s(.*)$" % ("|".join(prefixes), re.escape(sep)))
    ats = []
    for t in case["tags"]:
        m = rx.match(t)
        if m:
            ats.append((m.group(1).startswith("not"), m.group(2), m.group(3)))
    for cat, spec in eff_values(case).items():
        pos = [v for n, c, v in ats if c == cat and not n]
        neg = [v for n, c, v in ats if c == cat and n]
        if (pos and not any(matches(spec, v) for v in pos)) or any(matches(spec, v) for v in neg):
            return True
    return False


def oracle(case, obs):
    if "EXC" in obs:
        return [("matcher raised %s on tags %s" % (obs["EXC"], case["tags"]), "active-tag-exception")]
    out = []
    want = expected(case)
    if obs["exclude"] != want:
        rx = re.compile(r"^\w+\.with_(\w+(?:\.\w+)*)")
        unknown = [t for t in case["tags"] if rx.match(t) and rx.match(t).group(1) not in case["values"]]
        sig = "unknown-category-excludes" if (obs["exclude"] and unknown and not want) else \
              ("active-tag-wrongly-excludes" if obs["exclude"] else "active-tag-fails-to-exclude")
        out.append(("tags %s with current values %s (%s provider): exclude=%s, documented logic says %s" % (
            case["tags"], eff_values(case), case["provider"] + (", values overridden from %s" % case["override"] if case.get("override") else ""),
            obs["exclude"], want), sig))
    if case.get("later"):
        c2 = dict(case, values={c: ([sp[0], case["later"][c]] + list(sp[2:]) if c in case["later"] else sp) for c, sp in case["values"].items()})
        want2 = expected(c2)
        if obs.get("later") != want2:
            out.append(("tags %s: after the lazily computed current values changed to %s (from %s) the same matcher answers exclude=%s, the documented "
                        "logic over the current values says %s" % (case["tags"], case["later"], case["values"], obs.get("later"), want2),
                        "lazy-value-not-current"))
    if obs["again"] != obs["exclude"]:
        out.append(("second query gives a different answer (provider cache)", "provider-cache"))
    if obs["run"] == obs["exclude"]:
        out.append(("should_run_with is not the negation of should_exclude_with", "run-vs-exclude"))
    if obs.get("grown_composite", obs["exclude"]) != obs["exclude"]:
        out.append(("a composite matcher that got the matcher appended after construction excludes=%s, the member excludes=%s" % (
            obs.get("grown_composite"), obs["exclude"]), "composite-matcher"))
    if obs.get("empty_composite"):
        out.append(("a composite matcher without members excludes tags %s (another composite was given a member)" % case["tags"],
                    "composite-matcher"))
    if obs["composite"] != obs["exclude"]:
        out.append(("composite matcher [empty, m] excludes=%s, member excludes=%s" % (obs["composite"], obs["exclude"]), "composite-matcher"))
    return out


HEADER = "From BV Require Import Base UStr ActiveTag.\n"


def c_value(spec):
    k = spec[0]
    if k in ("str", "strobj"):
        return "(VStr %s)" % cstr(spec[1])
    if k == "none":
        return "VNone"
    if k == "num":
        return "(VNum %s %s)" % (cZ(spec[1]), {"eq": "OpEq", "ge": "OpGe", "le": "OpLe", "lt": "OpLt"}[spec[2]])
    return "(VBool %s)" % cbool(spec[1])


def enc(case, obs):
    if "EXC" in obs or case.get("prefixes") or any(isinstance(x, float) for sp in eff_values(case).values() for x in sp):
        return None
    prov = clist(["(%s, %s)" % (cstr(c), c_value(s)) for c, s in eff_values(case).items()], "ustr * cvalue")
    return "(%s, %s)" % (prov, clist([cstr(t) for t in case["tags"]], "ustr")), cbool(obs["exclude"])


def suites(tier, seed):
    rnd = random.Random(seed * 31 + 19)
    thorough = tier == "thorough"
    universe = ["%s.with_%s=%s" % (p, c, v) for p in PREFIXES for c in CATS for v in VALUES] + ORDINARY + EMPTY_VALUED
    specs = [None, ("none",), ("str", "a"), ("str", ""), ("str", "b", "lazy"), ("strobj", "a"), ("num", 10, "eq"), ("num", 10, "ge"),
             ("num", 9, "le"), ("num", 11, "lt", "lazy"), ("bool", True), ("bool", False, "lazy"), ("str", "zz"),
             # current values that are no whole numbers (compared as they are; the Coq model has integers only: oracle alone)
             ("num", 10.5, "eq"), ("num", 9.5, "le"), ("num", 10.5, "ge", "lazy"), ("num", 10.5, "lt")]
    cases = []

    def add(tags, rnd_values=True):
        values = {}
        for c in CATS:
            s = rnd.choice(specs[:-4] if rnd.random() < 0.93 else specs[-4:])     # the non-integer numbers are rare: they bypass the model
            if s is not None:
                values[c] = list(s)
        case = {"tags": list(tags), "values": values, "provider": rnd.choice(["dict", "atvp", "composite"])}
        if rnd.random() < 0.25:
            case["override"] = {c: rnd.choice(["a", "b", "10", "zz"]) for c in rnd.sample(CATS + ["nosuch"], rnd.randint(1, 2))}
        lazy = [c for c, sp in values.items() if sp[-1] == "lazy"]
        if lazy and case["provider"] != "composite" and "override" not in case:
            # (the composite provider caches on purpose; values overridden from userdata are plain strings)
            case["later"] = {c: {"str": lambda v: "a", "strobj": lambda v: "b", "bool": lambda v: not v, "num": lambda v: v - 1}[values[c][0]](values[c][1])
                             for c in lazy}
        if rnd.random() < 0.3:
            case["prequery"] = [[rnd.choice(["os", "browser", "browser.ver", "nosuch", "x"]), rnd.choice([None, "", 0, "zz"])]
                                for _ in range(rnd.randint(1, 3))]
        cases.append(case)
    small = [t for n in (1, 2) for t in itertools.combinations(universe, n)]
    if thorough:
        small += list(itertools.combinations(universe[::2], 3))
    else:
        small = [t for i, t in enumerate(small) if i % 3 == 0 or len(t) == 1]
    for t in small:
        add(t)
        add(t)
    for _ in range(6000 if thorough else 1200):
        add([rnd.choice(universe) for _ in range(rnd.randint(1, 6))])
    # every value kind x every provider kind on a fixed probe set (incl. unknown category)
    for s in specs:
        for prov in ("dict", "atvp", "composite"):
            for tags in (["use.with_os=a"], ["not.with_os=a"], ["use.with_os=10", "use.with_os=b"], ["only.with_os=yes", "not_active.with_os=no"],
                         ["use.with_browser.ver=a", "wip"], ["active.with_os=xx"]):
                values = {"os": list(s)} if s else {}
                cases.append({"tags": tags, "values": values, "provider": prov})
    custom = []
    for _ in range(400 if thorough else 80):
        tags = [rnd.choice(["skip.if_os:a", "skip.with_os:a", "run.with_os:b", "not_run.with_os:a", "use.with_os=a", "wip", "run.with_os:a:b"])
                for _ in range(rnd.randint(1, 3))]
        s = rnd.choice(specs[2:5] + [None])
        custom.append({"tags": tags, "values": {"os": list(s)} if s else {}, "provider": rnd.choice(["dict", "atvp"]),
                       "prefixes": ["run", "not_run", "skip"], "sep": ":"})
    main = {"name": "matchers", "cases": cases, "impl": impl_matcher, "oracle": oracle, "exhaustive": True,
            "nontrivial": lambda c, o: any(re.match(r"^\w+\.with_(%s)=" % "|".join(re.escape(k) for k in c["values"]), t) for t in c["tags"]) if c["values"] else False,
            "bound": "%d tag lists (all of size <= 2(3) over a %d-tag universe, random to size 6) x value/provider assignments" % (len(cases), len(universe)),
            "coq": {"header": HEADER, "in_ty": "provider * list ustr", "out_ty": "bool",
                    "fn": "fun c => should_exclude (pget (fst c)) (snd c)", "eqb": "Bool.eqb", "enc": enc, "shard": 400}}
    cust = {"name": "custom_schema", "cases": custom, "impl": impl_matcher, "oracle": oracle,
            "nontrivial": lambda c, o: bool(c["values"]), "bound": "%d cases with custom prefixes and separator" % len(custom)}
    return [main, cust]
