"""C04 — Gherkin parsing is faithful: structure, text, tags, step types and line numbers."""
from __future__ import annotations
import os, random
import gherk

TRUSTED = [
    "Coq 8.16.1 kernel (coqc, vm_compute); no axioms",
    "harness/gen_more.py gen_gherkin: keyword tables of behave/i18n.py, the case pairs the step-keyword scan can observe; gen_unicode: "
    "str.isspace and str.splitlines boundaries",
    "the renderer of this check (harness/props/c04.py) writes the documents and keeps the line numbers; the oracle compares the parsed model "
    "with the abstract tree it rendered",
]
ASSUMPTIONS = [
    "names, description lines, cells and doc-string lines are drawn so that they cannot be mistaken for another construct "
    "(descriptions start with '~', names contain no line breaks, a cell does not end in a backslash)",
    "parse_file reads UTF-8 files written by the harness",
]
RULE = ("documents rendered from seeded random abstract feature trees (0-2 rules, backgrounds at both levels, scenarios, outlines with 0-2 tagged "
        "examples tables, steps with doc-strings of either quote style and tables with escaped pipes and empty cells, tag lines with trailing "
        "comments and continuation lines, descriptions) with random indentation, blank and comment lines; every one of the 80 languages with "
        "every alias of every keyword at least once per run (language given by header, by argument, via parse_file); parse_steps, "
        "parse_scenario, parse_rule and parse_tags on the corresponding fragments")
LEVEL_TEXT = ("Theorems over Gherkin.v: every element is stamped with the number of the line being processed; blank lines and comment lines only "
              "advance the line counter; leading and trailing white space of a line is irrelevant outside doc-strings; And/But/* steps inherit the "
              "type of the preceding step; a keyword line yields the keyword alias written and the stripped rest as name; for every language and "
              "every step keyword, the keyword scan of a line starting with that keyword returns that keyword with the type of its list "
              "(decided by evaluation over the generated tables); doc-string lines are collected without the delimiter's indentation; table "
              "rows with escaped pipes are read back exactly; at the level of the whole machine a feature of scenarios with any number of tag "
              "lines and a description above / below each scenario line, a feature description, a Background with its steps, Scenario Outlines with their Examples blocks (tags, name, table), Given/When/Then steps and a doc-string and/or a table under any step is parsed into exactly what was written - keywords, names, step "
              "types, tags, doc-string texts, table headings, rows, cells and all line numbers - in any language, a trailing table being closed at the end of "
              "the text (induction over scenarios, tag lines, step lines and row lines).  "
              "Model compared with the real parser on every rendered document; the oracle compares with the abstract tree.")
LEVEL_NOTE = "Trusted: Coq kernel, generated keyword tables, the harness renderer."
EXHAUSTIVE = False

STEP_TYPES = ["given", "when", "then", "and", "but"]
NAME_WORDS = ["a user", "logs in", "2 items", "Ünï cödé", "x", "the <name> thing", "has: colon", "with | pipe", "日本語", "q'uote \"d\""]
TAGS = ["t1", "wip", "slow", "a.b", "issue#12", "k=v", "Ünï"]
CELLS = ["1", "two words", "", "a\\|b", "Ünï", "x=y", "<col>", "0.5", "C:\\\\dir\\\\f", "^\\d+\\\\w$", "a\\nb"]   # backslashes are kept as written; only \\| is an escape (no cell ends in a backslash)
DOC_LINES = ["plain text", "  indented more", "", "Given looks like a step", "| looks | like | a row |", "@looks_like_a_tag", "# looks like a comment",
             "Feature: looks like a keyword", "trailing blanks   ", "'''", "Ünï"]


def pick_kw(rnd, table, kind, cover):
    aliases = table[kind]
    if kind in ("given", "when", "then", "and", "but"):
        cand = [a for a in aliases if not a.startswith("*")] or aliases
    else:
        cand = aliases
    todo = [a for a in cand if (kind, a) not in cover]
    a = rnd.choice(todo) if todo else rnd.choice(cand)
    cover.add((kind, a))
    return a


class Doc(object):
    """renders lines, inserting noise, and remembers line numbers"""
    def __init__(self, rnd, noise=True):
        self.rnd = rnd
        self.lines = []
        self.noise = noise

    def pad(self):
        return self.rnd.choice(["", "  ", "    ", "\t", "      "]) if self.noise else ""

    def maybe_noise(self, allow=True):
        if not (self.noise and allow):
            return
        while self.rnd.random() < 0.15:
            self.lines.append(self.rnd.choice(["", "   ", "# a comment", "  # Given commented step", "#", "\t"]))

    def emit(self, text, pad=None, trail=True):
        self.maybe_noise()
        p = self.pad() if pad is None else pad
        t = self.rnd.choice(["", "", " ", "  "]) if (self.noise and trail) else ""
        self.lines.append(p + text + t)
        return len(self.lines)

    def raw(self, text):
        self.lines.append(text)
        return len(self.lines)


def gen_name(rnd):
    return " ".join(rnd.sample(NAME_WORDS, rnd.randint(1, 2))) if rnd.random() < 0.9 else ""


def gen_tags(rnd):
    return [rnd.choice(TAGS) for _ in range(rnd.choice([0, 0, 1, 2, 3]))]


def render_tags(doc, tags):
    """tag lines: one or more lines, trailing comments; returns [(tag, line)]"""
    out = []
    i = 0
    while i < len(tags):
        n = doc.rnd.randint(1, len(tags) - i)
        chunk = tags[i:i + n]
        text = " ".join("@" + t for t in chunk)
        if doc.rnd.random() < 0.25:
            text += " # comment @nottag"
        ln = doc.emit(text)
        out += [[t, ln] for t in chunk]
        i += n
    return out


def render_table(doc, width, nrows, pad=None):
    rnd = doc.rnd

    def row(cells):
        return "| " + " | ".join(cells) + " |" if rnd.random() < 0.8 else "|" + "|".join(cells) + "|"
    head = [rnd.choice(["h%d" % i, "col %d" % i, "Ünï%d" % i, "a\\|b%d" % i]) for i in range(width)]
    hl = doc.emit(row(head), pad, trail=True)
    rows = []
    for _ in range(nrows):
        cells = [rnd.choice(CELLS) for _ in range(width)]
        rows.append([[c.replace("\\|", "|") for c in cells], doc.emit(row(cells), pad)])
    return {"head": [h.replace("\\|", "|") for h in head], "rows": rows, "line": hl}


def render_steps(doc, table, cover, n, first_types=("given", "when", "then"), prev=None):
    rnd = doc.rnd
    steps = []
    last = prev
    for i in range(n):
        has_star = any(a.startswith("*") for a in table["given"])
        kinds = (list(first_types) if last is None else STEP_TYPES) + (["star"] if has_star else [])
        kind = rnd.choice(kinds)
        if kind == "star":
            kw = "* "
            # a "*" step that opens its container is a Given step (and sets the type And/But inherit); after
            # And/But steps that took their type from the background it inherits that type as well
            stype = last if (last is not None or i > 0) else "given"
        else:
            kw = pick_kw(rnd, table, kind, cover)
            stype = kind if kind in ("given", "when", "then") else last
        last = stype
        name = gen_name(rnd) or "x"
        # the written keyword must be the longest step keyword the line starts with (en-old: "Tha " + "the ..." is "Tha the ")
        allkw = [a for k in STEP_TYPES for a in table[k]]
        if any(len(a) > len(kw) and ((kw + name).startswith(a) or (kw + name).lower().startswith(a.lower())) for a in allkw):
            name = "q " + name
        # step keywords are recognised whatever their letter case; the model records the keyword as the table spells it
        written = kw
        if rnd.random() < 0.2:
            v = rnd.choice([kw.upper(), kw.lower(), kw[:1] + kw[1:].swapcase(), kw.title()])
            # (not when the table has another keyword that differs from this one by letter case only: ht 'Sipoze ke' / 'Sipoze Ke')
            if len(v) == len(kw) and v.lower() == kw.lower() and not any(a != kw and a.lower() == kw.lower() for a in allkw):
                written = v
        ln = doc.emit(written + name)
        st = {"kw": kw.rstrip(), "type": stype, "name": name, "line": ln, "text": None, "table": None}
        r = rnd.random()
        if r < 0.2:
            q = rnd.choice(['"""', "'''"])
            col = rnd.choice(["", "  ", "      "])
            # a content type may follow the opening delimiter ("""json); it is no part of the text
            start = doc.emit(q + rnd.choice(["", "", "", "json", "markdown", "x y"]), col, trail=False)
            content = [l for l in (rnd.choice(DOC_LINES) for _ in range(rnd.randint(0, 4))) if not l.strip().startswith(q)]
            for l in content:
                doc.raw(col + l if l else rnd.choice(["", col]))
            # the closing delimiter may stand at any column, whatever the column of the opening one
            doc.raw(rnd.choice([col, col, "", "  ", col + "   ", "\t"]) + q + rnd.choice(["", "  "]))
            st["text"] = ["\n".join(l.rstrip() for l in content), start]
        elif r < 0.4:
            st["table"] = render_table(doc, rnd.randint(1, 3), rnd.randint(0, 3))
        steps.append(st)
    return steps, last


def render_descr(doc):
    return [doc.lines[doc.emit("~ description %d" % i) - 1].strip() for i in range(doc.rnd.choice([0, 0, 1, 2]))]


def render_scenario(doc, table, cover, bg_last):
    rnd = doc.rnd
    outline = rnd.random() < 0.35
    tags = render_tags(doc, gen_tags(rnd))
    kw = pick_kw(rnd, table, "scenario_outline" if outline else "scenario", cover)
    name = gen_name(rnd)
    ln = doc.emit("%s: %s" % (kw, name))
    descr = render_descr(doc)
    steps, _ = render_steps(doc, table, cover, rnd.randint(0, 4), first_types=("given", "when", "then") if bg_last is None else tuple(STEP_TYPES),
                            prev=None)
    # And/But as first step takes its type from the last background step
    if steps and steps[0]["type"] is None:
        fix = bg_last
        for st in steps:
            if st["type"] is None:
                st["type"] = fix
            else:
                break
    ex = []
    if outline:
        for _ in range(rnd.randint(0, 2)):
            etags = render_tags(doc, gen_tags(rnd))
            ekw = pick_kw(rnd, table, "examples", cover)
            ename = gen_name(rnd)
            eln = doc.emit("%s: %s" % (ekw, ename))
            tab = render_table(doc, rnd.randint(1, 3), rnd.randint(0, 3)) if rnd.random() < 0.9 else None
            ex.append({"kw": ekw, "name": ename, "line": eln, "tags": etags, "table": tab})
    return {"outline": outline, "kw": kw, "name": name, "line": ln, "tags": tags, "descr": descr, "steps": steps, "examples": ex}


def fix_inherited(steps, start_type):
    last = start_type
    for st in steps:
        if st["type"] is None:
            st["type"] = last
        last = st["type"]
    return steps


def render_background(doc, table, cover, inherited_last=None):
    rnd = doc.rnd
    kw = pick_kw(rnd, table, "background", cover)
    name = gen_name(rnd) if rnd.random() < 0.3 else ""
    ln = doc.emit("%s: %s" % (kw, name))
    descr = render_descr(doc)
    steps, last = render_steps(doc, table, cover, rnd.randint(0, 3),
                               first_types=("given", "when", "then") if inherited_last is None else tuple(STEP_TYPES))
    steps = fix_inherited(steps, inherited_last)
    return {"kw": kw, "name": name, "line": ln, "steps": steps, "descr": descr}


def render_feature(rnd, lang, table, cover, header, noise=True):
    doc = Doc(rnd, noise)
    if header:
        doc.raw(rnd.choice(["# language: %s", "#language:%s", "  # language: %s  "]) % lang)
    tags = render_tags(doc, gen_tags(rnd))
    kw = pick_kw(rnd, table, "feature", cover)
    name = gen_name(rnd)
    ln = doc.emit("%s: %s" % (kw, name))
    descr = render_descr(doc)
    f = {"kw": kw, "name": name, "line": ln, "tags": tags, "descr": descr, "bg": None, "items": [], "lang": lang}

    def last_type(bg):
        return bg["steps"][-1]["type"] if bg and bg["steps"] else None
    if rnd.random() < 0.45:
        f["bg"] = render_background(doc, table, cover)
    for _ in range(rnd.randint(0, 3)):
        sc = render_scenario(doc, table, cover, last_type(f["bg"]))
        fix_inherited(sc["steps"], last_type(f["bg"]))
        f["items"].append({"scen": sc})
    for _ in range(rnd.choice([0, 0, 1, 2])):
        rtags = render_tags(doc, gen_tags(rnd))
        rkw = pick_kw(rnd, table, "rule", cover)
        rname = gen_name(rnd)
        rln = doc.emit("%s: %s" % (rkw, rname))
        rule = {"kw": rkw, "name": rname, "line": rln, "tags": rtags, "descr": render_descr(doc), "bg": None, "items": []}
        inherited = last_type(f["bg"])
        if rnd.random() < 0.4:
            rule["bg"] = render_background(doc, table, cover, inherited)
        eff = last_type(rule["bg"]) or inherited
        for _ in range(rnd.randint(0, 2)):
            sc = render_scenario(doc, table, cover, eff)
            fix_inherited(sc["steps"], eff)
            rule["items"].append(sc)
        f["items"].append({"rule": rule})
    doc.maybe_noise()
    return "\n".join(doc.lines) + ("\n" if rnd.random() < 0.8 else ""), f


def first_step_needs_type(item):
    return False


# ---------------------------------------------------------------- implementation (adds parse_file)
def impl(case):
    if case.get("via_file"):
        import tempfile, shutil
        from behave import parser
        top = tempfile.mkdtemp(prefix="c04_")
        try:
            path = os.path.join(top, "t.feature")
            with open(path, "wb") as fh:
                fh.write(case["text"].encode("utf-8"))
            try:
                f = parser.parse_file(path, language=case.get("lang"))
                return {"ok": ["feature", gherk.c_feature(f) if f is not None else None]}
            except parser.ParserError as e:
                return {"error": e.line, "msg": str(e)[:200]}
            except Exception as e:      # noqa
                return {"crash": type(e).__name__, "msg": str(e)[:200]}
        finally:
            shutil.rmtree(top, ignore_errors=True)
    return gherk.impl_parse(case)


def diff(a, b, path=""):
    if type(a) != type(b):
        return "%s: %r vs %r" % (path, a, b)
    if isinstance(a, dict):
        for k in sorted(set(a) | set(b)):
            if k not in a or k not in b:
                return "%s.%s missing on one side" % (path, k)
            d = diff(a[k], b[k], path + "." + k)
            if d:
                return d
        return None
    if isinstance(a, list):
        if len(a) != len(b):
            return "%s: %d elements vs %d (%r vs %r)" % (path, len(a), len(b), a[:6], b[:6])
        for i, (x, y) in enumerate(zip(a, b)):
            d = diff(x, y, "%s[%d]" % (path, i))
            if d:
                return d
        return None
    return None if a == b else "%s: parsed %r, written %r" % (path, a, b)


def oracle(case, obs):
    if "crash" in obs:
        return [("internal %s (%s)" % (obs["crash"], obs["msg"]), "internal-exception:" + obs["crash"])]
    if "error" in obs:
        return [("a well-formed %s document (language %s) is rejected at line %s: %s\n%s" % (
            case["entry"], case["tree_lang"], obs["error"], obs["msg"], case["text"][:600]), "valid-document-rejected:" + case["tree_lang"])]
    kind, val = obs["ok"]
    d = diff(val, case["expect"])
    if d:
        return [("language %s, %s: the parsed model differs from what was written at %s" % (case["tree_lang"], case["entry"], d),
                 "model-differs:" + case["tree_lang"])]
    return []


def histogram(cases, obs=None):
    h = {"languages": len(set(c["tree_lang"] for c in cases)), "entries": {}, "via_file": 0, "keyword_aliases_used": 0}
    for c in cases:
        h["entries"][c["entry"]] = h["entries"].get(c["entry"], 0) + 1
        h["via_file"] += bool(c.get("via_file"))
    h["keyword_aliases_used"] = sum(c.get("aliases", 0) for c in cases)
    return h


def suites(tier, seed):
    rnd = random.Random(seed * 211 + 4)
    thorough = tier == "thorough"
    languages = gherk.load_languages()
    cases = []
    per_lang = 6 if thorough else 2
    for lang in sorted(languages):
        table = languages[lang]
        cover = set()
        total = sum(len([a for a in table[k] if not (k in STEP_TYPES and a.startswith("*"))] or table[k])
                    for k in ["feature", "rule", "background", "scenario", "scenario_outline", "examples"] + STEP_TYPES)
        n = 0
        while n < per_lang or (len(cover) < total and n < 40):
            before = len(cover)
            mode = rnd.choice(["header", "header", "arg", "file"])
            text, tree = render_feature(rnd, lang, table, cover, header=(mode in ("header", "file")) or rnd.random() < 0.2)
            cases.append({"entry": "feature", "text": text, "lang": (lang if mode == "arg" else None), "via_file": mode == "file",
                          "expect": tree, "tree_lang": lang, "aliases": len(cover) - before})
            n += 1
        # fragments through the other entry points
        doc = Doc(rnd)
        steps, _ = render_steps(doc, table, cover, rnd.randint(1, 4))
        cases.append({"entry": "steps", "text": "\n".join(doc.lines) + "\n", "lang": lang, "expect": steps, "tree_lang": lang})
        doc = Doc(rnd)
        sc = render_scenario(doc, table, cover, None)
        cases.append({"entry": "scenario", "text": "\n".join(doc.lines) + "\n", "lang": lang, "expect": sc, "tree_lang": lang})
        doc = Doc(rnd)
        rtags = render_tags(doc, gen_tags(rnd))
        rkw = pick_kw(rnd, table, "rule", cover)
        rln = doc.emit("%s: R" % rkw)
        rule = {"kw": rkw, "name": "R", "line": rln, "tags": rtags, "descr": render_descr(doc), "bg": None, "items": []}
        if rnd.random() < 0.5:
            rule["bg"] = render_background(doc, table, cover)
        eff = rule["bg"]["steps"][-1]["type"] if rule["bg"] and rule["bg"]["steps"] else None
        for _ in range(rnd.randint(1, 2)):
            s2 = render_scenario(doc, table, cover, eff)
            fix_inherited(s2["steps"], eff)
            rule["items"].append(s2)
        cases.append({"entry": "rule", "text": "\n".join(doc.lines) + "\n", "lang": lang, "expect": rule, "tree_lang": lang})
    for _ in range(60 if thorough else 15):
        doc = Doc(rnd)
        tags = render_tags(doc, [rnd.choice(TAGS) for _ in range(rnd.randint(1, 5))])
        cases.append({"entry": "tags", "text": "\n".join(doc.lines), "lang": None, "expect": tags, "tree_lang": "en"})
    main = {"name": "rendered_documents", "cases": cases, "impl": impl, "oracle": oracle, "histogram": histogram,
            "nontrivial": lambda c, o: "ok" in o, "bound": "%d documents over %d languages" % (len(cases), len(languages)),
            "coq": dict(gherk.COQ, enc=lambda c, o: gherk.enc(c, o), shard=60)}
    return [main]
