"""C03 — status roll-up: suites, implementation drivers, oracle."""
from __future__ import annotations
import itertools, random
from common import STATUS_NAMES, clist, cbool, cnat

STEP_ST = ["untested", "skipped", "passed", "failed", "error", "hook_error",
           "undefined", "pending", "pending_warn", "untested_pending", "untested_undefined"]
ELEM_ST = ["passed", "failed", "error", "hook_error", "skipped", "untested"]
ERR = {"error", "hook_error", "cleanup_error", "undefined", "pending"}
UNT = {"untested", "untested_pending", "untested_undefined"}
PASSLIKE = {"passed", "pending_warn", "xfailed", "xpassed"}

TRUSTED = [
    "Coq 8.16.1 kernel (coqc, vm_compute); no axioms (every theorem: Closed under the global context)",
    "harness/gen_tables.py: tabulation of Status predicates by importing /repo",
    "harness/props/c03.py: construction of real Scenario/Feature/Rule/ScenarioOutline objects with forced child statuses",
]
ASSUMPTIONS = [
    "child statuses are forced on real model objects (Step.status assignment, set_status on scenarios); the run cluster (C01/C02) ties reachable statuses to real runs",
]
LEVEL_TEXT = ("Theorems over all child-status lists (no length bound) for the three compute_status roll-ups and the "
              "status classification, proved in Coq against predicate tables regenerated from the working tree; "
              "the hand-written roll-up models are compared with the real compute_status methods on every child tuple "
              "up to length 3-5 plus random longer ones, and a Python oracle states the property's sentences directly on the implementation; "
              "re-running one Scenario object (two attempts with different step outcomes and raising scenario / step hooks in either "
              "attempt) is compared with a fresh run of the latest attempt.")
LEVEL_NOTE = ("Trusted: Coq kernel + vm_compute; gen_tables.py (tabulates Status predicates by importing /repo); the case-file "
              "encoder; forced child statuses on real model objects.  Known findings (first-decisive precedence, skip-by-step) are "
              "kept as machine-checked *_refuted witnesses.")
RULE = ("exhaustive child-status tuples up to the stated length over the 11 step statuses / 6 element statuses "
        "(+ seeded random longer tuples); non-trivial = at least two different child statuses or a hook failure; "
        "distinct = distinct (kind, flag, tuple)")
EXHAUSTIVE = True


# ------------------------------------------------------------------ implementation drivers
def _mk_scenario(status):
    from behave.model import Scenario, Step
    from behave.model_core import Status
    sc = Scenario("x.feature", 1, u"Scenario", u"s")
    if status == "untested":
        st = Step("x.feature", 2, u"Given", "given", u"a step")
        sc.steps.append(st)
    else:
        sc.set_status(Status[status])
    return sc


def impl_scenario(case):
    from behave.model import Scenario, Step
    from behave.model_core import Status
    sc = Scenario("x.feature", 1, u"Scenario", u"s")
    for i, name in enumerate(case["children"]):
        st = Step("x.feature", 2 + i, u"Given", "given", u"step %d" % i)
        st.status = Status[name]
        sc.steps.append(st)
    sc.hook_failed = case["hook_failed"]
    try:
        return {"status": sc.compute_status().name, "via_property": sc.status.name}
    except AssertionError:
        return {"status": "CRASH", "via_property": "CRASH"}


def impl_container(case):
    from behave.model import Feature, Rule
    if case["kind"] == "feature":
        c = Feature("x.feature", 1, u"Feature", u"f")
    else:
        c = Rule("x.feature", 1, u"Rule", u"r")
    for name in case["children"]:
        c.add_scenario(_mk_scenario(name))
    c.hook_failed = case["hook_failed"]
    return {"status": c.compute_status().name, "via_property": c.status.name}


def impl_outline(case):
    from behave.model import ScenarioOutline, Examples, Table
    o = ScenarioOutline("x.feature", 1, u"Scenario Outline", u"o")
    if case.get("expected"):
        ex = Examples("x.feature", 5, u"Examples", u"")
        ex.table = Table([u"c"], rows=[[u"v%d" % i] for i in range(case["expected"])], line=6)
        o.examples.append(ex)
    o._scenarios = [_mk_scenario(n) for n in case["children"]]
    return {"status": o.compute_status().name, "via_property": o.status.name}


def impl_member(case):
    from behave.model_core import Status
    s = Status[case["member"]]
    return {p: bool(getattr(s, p)()) for p in
            ("is_error", "is_failure", "is_passed", "is_untested", "is_final", "has_failed")}


# ------------------------------------------------------------------ oracle (property text on the implementation)
def _first(children, pred):
    for i, c in enumerate(children):
        if pred(c):
            return i
    return None


def oracle_rollup(case, obs):
    out = []
    ch = case["children"]
    kind = case["kind"]
    res = obs["status"]
    if obs["via_property"] != res and obs["via_property"] != "CRASH":
        # the status property must deliver what compute_status says on a fresh object
        out.append(("status property %s != compute_status %s" % (obs["via_property"], res), "property-vs-compute"))
    if res == "CRASH":
        if all(c in STEP_ST for c in ch):
            out.append(("compute_status raised on step statuses %s" % ch, "crash"))
        return out
    if case.get("hook_failed"):
        if case.get("reachable") and res == "error":
            return out      # a cleanup error on top of the hook error
        if res != "hook_error":
            out.append(("hook failure on the element but status %s" % res, "hook-failed-not-hook-error"))
        return out
    if not ch:
        if kind == "outline" and case.get("expected") and res != "untested":
            out.append(("outline with %d examples rows that were never built has status %s" % (case["expected"], res),
                        "nothing-executed-not-untested:outline"))
        return out          # empty containers are out of scope
    has_err = any(c in ERR for c in ch)
    has_fail = any(c == "failed" for c in ch)
    # position of the first failing child and whether an untested / skipped child hides it
    ffail = _first(ch, lambda c: c in ERR or c == "failed")
    if kind == "scenario":
        hidden = ffail is not None and any((c in UNT or c == "skipped") for c in ch[:ffail])
    else:
        hidden = ffail is not None and any(c == "untested" for c in ch[:ffail])
    if has_err or has_fail:
        want = {"error"} if not has_fail else ({"failed"} if not has_err else {"error", "failed"})
        if kind != "scenario" and not has_err and has_fail:
            want = {"failed"}
        if res not in want:
            sig = "first-decisive-child-hides-later-failure:%s" % kind if hidden else "failing-child-not-reflected:%s" % kind
            out.append(("%s with children %s has status %s, expected %s" % (kind, ch, res, sorted(want)), sig))
    if res == "skipped" and not all(c == "skipped" for c in ch):
        i = _first(ch, lambda c: c == "skipped")
        if kind == "scenario" and i is not None and all(c in PASSLIKE for c in ch[:i]):
            sig = "scenario-skipped-by-step-after-passed-steps"
        else:
            sig = "skipped-but-not-all-children-skipped:%s" % kind
        out.append(("%s is skipped but children are %s" % (kind, ch), sig))
    if all(c == "skipped" for c in ch) and res != "skipped":
        out.append(("%s has only skipped children but status %s" % (kind, res), "all-skipped-not-skipped:%s" % kind))
    if res == "passed":
        bad = [c for c in ch if c != "skipped" and c not in PASSLIKE]
        if bad:
            out.append(("%s is passed but contains %s" % (kind, bad), "passed-with-nonpassed-child:%s" % kind))
        if all(c == "skipped" for c in ch):
            out.append(("%s is passed but everything is skipped" % kind, "passed-all-skipped:%s" % kind))
    if all(c in UNT for c in ch) and res != "untested":
        out.append(("%s: nothing executed (%s) but status %s" % (kind, ch, res), "nothing-executed-not-untested:%s" % kind))
    if kind != "scenario":
        # the documented table for containers and outlines: de-selected (skipped) children are no execution either, and
        # "some passed, now untested" is a run cut short, which is failed
        if all(c in UNT or c == "skipped" for c in ch) and any(c in UNT for c in ch) and res != "untested":
            out.append(("%s: nothing executed (%s) but status %s" % (kind, ch, res), "nothing-executed-not-untested:%s" % kind))
        iu = _first(ch, lambda c: c in UNT)
        if iu is not None and ffail is None and any(c in PASSLIKE for c in ch[:iu]) and res != "failed":
            out.append(("%s: children %s (some passed, then never executed: the run was cut short) but status %s, the documented table says failed"
                        % (kind, ch, res), "cut-short-after-passed-not-failed:%s" % kind))
    return out


def oracle_member(case, obs):
    out = []
    m = case["member"]
    if obs["has_failed"] != (obs["is_error"] or obs["is_failure"]):
        out.append(("has_failed(%s) is not is_error or is_failure" % m, "has-failed-def"))
    if m not in ("unknown", "executing"):
        n = sum([obs["is_passed"], obs["is_failure"], obs["is_error"], m == "skipped", obs["is_untested"]])
        if n != 1:
            out.append(("status %s is in %d classes" % (m, n), "classification"))
    want_err = m in ERR
    if obs["is_error"] != want_err:
        out.append(("is_error(%s) = %s, documented %s" % (m, obs["is_error"], want_err), "doc-table-error"))
    if obs["is_failure"] != (m == "failed"):
        out.append(("is_failure(%s) = %s" % (m, obs["is_failure"]), "doc-table-failed"))
    if obs["is_untested"] != (m in UNT):
        out.append(("is_untested(%s) = %s" % (m, obs["is_untested"]), "doc-table-untested"))
    return out


# ------------------------------------------------------------------ Coq encoding
HEADER = "From BV Require Import Base Status Rollup.\nFrom BVGen Require Import StatusTable.\n"


def st(name):
    return name


def enc_scenario(case, obs):
    i = "(%s, %s)" % (cbool(case["hook_failed"]), clist([st(c) for c in case["children"]], "status"))
    o = "(@None status)" if obs["status"] == "CRASH" else "(Some %s)" % obs["status"]
    return i, o


def enc_container(case, obs):
    return "(%s, %s)" % (cbool(case["hook_failed"]), clist([st(c) for c in case["children"]], "status")), obs["status"]


def enc_outline(case, obs):
    return "(%s, %s)" % (cnat(case.get("expected", 0)), clist([st(c) for c in case["children"]], "status")), obs["status"]


# ------------------------------------------------------------------ suites
def _tuples(alpha, maxlen):
    for n in range(0, maxlen + 1):
        for t in itertools.product(alpha, repeat=n):
            yield list(t)


def _hist(cases, obs):
    h = {}
    for c, o in zip(cases, obs):
        if isinstance(o, dict) and "status" in o:
            h[o["status"]] = h.get(o["status"], 0) + 1
    return {"result_status": h, "max_len": max([len(c.get("children", [])) for c in cases] or [0])}


def _nontrivial(case, obs):
    return len(set(case.get("children", []))) >= 2 or bool(case.get("hook_failed"))


def _shrink(case):
    ch = case["children"]
    for i in range(len(ch)):
        yield dict(case, children=ch[:i] + ch[i + 1:])


def oracle_reachable(prog, obs):
    """every node of the model after a real run: status vs the roll-up of what it contains"""
    out = []
    if obs.get("crashed"):
        return [("runner.run() let an exception escape: %s" % obs["crashed"], "run-crashed")]

    cleanup_raised = any(e[0] == "cleanup" and e[2] for e in obs["log"])

    def node(kind, r, children):
        if not children:
            return
        if cleanup_raised and r["status"] == "error":
            return          # a raising cleanup sets the owner to error whatever it contains (C13)
        case = {"kind": kind, "children": children, "hook_failed": r.get("hook_failed", False), "reachable": True}
        for msg, sig in oracle_rollup(case, {"status": r["status"], "via_property": r["status"]}):
            out.append(("after a real run, %s %s: %s" % (kind, r["name"], msg), sig))

    def item(x):
        if x["kind"] == "outline":
            for row in x["rows"]:
                node("scenario", row, row["steps"])
            node("outline", x, [row["status"] for row in x["rows"]])
        else:
            node("scenario", x, x["steps"])
    for t in obs["tree"]:
        for it in t["items"]:
            if it["kind"] == "rule":
                for x in it["items"]:
                    item(x)
                node("rule", it, [x["status"] for x in it["items"]])
            else:
                item(it)
        node("feature", t, [x["status"] for x in t["items"]])
    return out


def suites(tier, seed):
    rnd = random.Random(seed * 7919 + 3)
    thorough = (tier == "thorough")
    out = []
    # -- members
    out.append({"name": "members", "cases": [{"member": m} for m in STATUS_NAMES],
                "impl": impl_member, "oracle": oracle_member, "exhaustive": True,
                "bound": "all 16 members", "nontrivial": lambda c, o: True})
    # -- scenario
    L = 4 if thorough else 3
    cases = [{"kind": "scenario", "hook_failed": False, "children": t} for t in _tuples(STEP_ST, L)]
    cases += [{"kind": "scenario", "hook_failed": True, "children": t} for t in _tuples(STEP_ST, 2)]
    for _ in range(6000 if thorough else 800):
        n = rnd.randint(L + 1, 10)
        # mostly passed prefixes, so that late positions are decisive
        t = [rnd.choice(["passed", "passed", "pending_warn"] + STEP_ST) if rnd.random() < 0.6 else rnd.choice(STEP_ST)
             for _ in range(n)]
        cases.append({"kind": "scenario", "hook_failed": False, "children": t})
    # statuses that are not step statuses: the assert must be the only crash
    for s in ("unknown", "executing", "xfailed", "xpassed", "cleanup_error"):
        cases.append({"kind": "scenario", "hook_failed": False, "children": ["passed", s]})
    out.append({"name": "scenario", "cases": cases, "impl": impl_scenario, "oracle": oracle_rollup,
                "exhaustive": True, "bound": "all tuples over 11 step statuses, length <= %d" % L,
                "nontrivial": _nontrivial, "histogram": _hist, "shrink": _shrink,
                "coq": {"header": HEADER, "in_ty": "bool * list status", "out_ty": "option status",
                        "fn": "fun c => scenario_compute (fst c) (snd c)",
                        "eqb": "option_eqb status_eqb", "enc": enc_scenario}})
    # -- container
    L = 5 if thorough else 4
    cases = []
    for kind in ("feature", "rule"):
        for t in _tuples(ELEM_ST, L):
            cases.append({"kind": kind, "hook_failed": False, "children": t})
        for t in _tuples(ELEM_ST, 2):
            cases.append({"kind": kind, "hook_failed": True, "children": t})
    for _ in range(4000 if thorough else 600):
        n = rnd.randint(L + 1, 12)
        t = [rnd.choice(["passed", "skipped"] + ELEM_ST) if rnd.random() < 0.6 else rnd.choice(ELEM_ST) for _ in range(n)]
        cases.append({"kind": rnd.choice(["feature", "rule"]), "hook_failed": False, "children": t})
    out.append({"name": "container", "cases": cases, "impl": impl_container, "oracle": oracle_rollup,
                "exhaustive": True, "bound": "all tuples over 6 element statuses, length <= %d, feature and rule" % L,
                "nontrivial": _nontrivial, "histogram": _hist, "shrink": _shrink,
                "coq": {"header": HEADER, "in_ty": "bool * list status", "out_ty": "status",
                        "fn": "fun c => container_compute (fst c) (snd c)",
                        "eqb": "status_eqb", "enc": enc_container}})
    # -- outline
    cases = [{"kind": "outline", "hook_failed": False, "children": t, "expected": len(t)} for t in _tuples(ELEM_ST, L)]
    cases += [{"kind": "outline", "hook_failed": False, "children": [], "expected": n} for n in (1, 2, 5)]
    for _ in range(3000 if thorough else 500):
        n = rnd.randint(L + 1, 12)
        t = [rnd.choice(["passed", "skipped"] + ELEM_ST) if rnd.random() < 0.6 else rnd.choice(ELEM_ST) for _ in range(n)]
        cases.append({"kind": "outline", "hook_failed": False, "children": t, "expected": len(t)})
    out.append({"name": "outline", "cases": cases, "impl": impl_outline, "oracle": oracle_rollup,
                "exhaustive": True, "bound": "all tuples over 6 element statuses, length <= %d" % L,
                "nontrivial": _nontrivial, "histogram": _hist, "shrink": _shrink,
                "coq": {"header": HEADER, "in_ty": "nat * list status", "out_ty": "status",
                        "fn": "fun c => outline_compute (fst c) (snd c)", "eqb": "status_eqb", "enc": enc_outline}})
    # -- statuses reachable by real runs (cut short by --stop / abort, never started, de-selected, hook errors)
    import runcluster as rc
    progs = []
    for i in range(5000 if thorough else 900):
        p = rc.gen_program(rnd)
        if i % 2:
            p = rc.with_random_faults(rnd, p, p_fault=0.7)
        if i % 5 == 3:
            # scenarios without steps of their own whose only steps are the inherited background steps
            for f in p["features"]:
                for it in f["items"]:
                    inherited = bool(f["bg"]) or (it["kind"] == "rule" and bool(it["bg"]))
                    for x in (it["items"] if it["kind"] == "rule" else [it]):
                        if inherited and x["kind"] == "scenario" and rnd.random() < 0.6:
                            x["steps"] = []
        progs.append(p)
    out.append({"name": "reachable", "cases": progs, "impl": rc.impl_run, "oracle": oracle_reachable,
                "nontrivial": lambda c, o: len(set(s for t in o.get("tree", []) for s in _all_statuses(t))) >= 2,
                "histogram": rc.histogram, "shrink": rc.shrink_program,
                "bound": "%d seeded random programs run through the real runner (hook faults, --stop, abort, dry-run, tag selection)" % len(progs),
                "coq": rc.COQ})
    # -- reset_model() between runs: nothing of the previous run may remain (statuses depend only on the latest run)
    rprogs = [rc.with_random_faults(rnd, rc.gen_program(rnd), p_fault=0.4) if k % 3 == 0 else rc.gen_program(rnd)
              for k in range(600 if thorough else 120)]
    out.append({"name": "reset", "cases": rprogs, "impl": impl_reset, "oracle": oracle_reset,
                "nontrivial": lambda c, o: True, "histogram": rc.histogram, "shrink": rc.shrink_program,
                "bound": "%d programs: run, reset_model(features), every element's status" % len(rprogs)})
    # -- re-running an element: statuses depend only on the latest run
    from props import c02
    out.append(c02.rerun_suite(tier, rnd))
    return out


def impl_reset(prog):
    import runprog
    from behave.model import reset_model, ScenarioOutline, Rule
    obs = runprog.run_program(prog, want_model=True)
    features = obs["_features"]
    before = [f.status.name for f in features]
    reset_model(features)
    seen = []           # [path, status, in scope: the element and everything below it has at least one child]

    def scen(sc, path):
        steps = list(sc.all_steps)
        seen.append([path + "/" + sc.name, sc.status.name, bool(steps)])
        for i, st in enumerate(steps):
            seen.append(["%s/%s/step%d" % (path, sc.name, i), st.status.name, True])
        return bool(steps)

    def item(x, path):
        if isinstance(x, ScenarioOutline):
            k = len(seen)
            seen.append([path + "/" + x.name, x.status.name, False])
            oks = [scen(r, path + "/" + x.name) for r in x.scenarios]
            seen[k][2] = bool(oks) and all(oks)
            return seen[k][2]
        if isinstance(x, Rule):
            k = len(seen)
            seen.append([path + "/" + x.name, x.status.name, False])
            oks = [item(y, path + "/" + x.name) for y in x.run_items]
            seen[k][2] = bool(oks) and all(oks)
            return seen[k][2]
        return scen(x, path)
    for f in features:
        k = len(seen)
        seen.append([f.name, f.status.name, False])
        oks = [item(x, f.name) for x in f.run_items]
        seen[k][2] = bool(oks) and all(oks)
    return {"before": before, "after_reset": seen, "crashed": obs["crashed"]}


def oracle_reset(case, obs):
    if obs["crashed"]:
        return []
    left = [x[:2] for x in obs["after_reset"] if x[2] and x[1] != "untested"]
    if left:
        return [("after reset_model() %d element(s) still carry the previous run's status, e.g. %s" % (len(left), left[:4]), "reset-leaves-status")]
    return []


def _all_statuses(t):
    yield t["status"]
    for it in t["items"]:
        yield it["status"]
        for x in it.get("items", []) + it.get("rows", []):
            yield x["status"]
            for y in x.get("rows", []):
                yield y["status"]
