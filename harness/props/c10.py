"""C10 — file-location and name selection pick exactly the addressed scenarios."""
from __future__ import annotations
import random, os, re, tempfile, shutil, io, contextlib
import runcluster as rc
import runprog
from common import clist, cnat, cbool, copt

TRUSTED = [
    "Coq 8.16.1 kernel (coqc, vm_compute); no axioms",
    "harness/props/c10.py: document renderer with its own line map; decoding of should_skip marks",
    "Python's re for name patterns (name selection is `exists pattern, re.search`), os.path, glob",
]
ASSUMPTIONS = ["entity lines are distinct and increasing (a rendered Gherkin document)"]
RULE = ("rendered feature documents (rules, outlines with several examples tables, blank and comment lines, @setup/@teardown "
        "scenarios) x EVERY line from 0 to last+3 as a single location, multisets of 1-3 locations, location lists over 2-3 files "
        "incl. repeated and non-consecutive files and @listfile with comments / blank lines / relative and indented paths, and name "
        "patterns from scenario names and regex fragments; non-trivial = some but not all scenarios selected")
LEVEL_TEXT = ("Theorems over Select.v: for a line database with increasing keys the entity chosen for line L is the one starting at L, "
              "else the nearest one starting above it (for EVERY L), line 0 / no line selects all, several locations select the "
              "union, every other scenario except @setup/@teardown is skipped, consecutive locations of one file are grouped.  "
              "Model compared with parse_features on every line of rendered documents; oracle computes the nearest entity from the "
              "renderer's own line map; name selection and @listfile by oracle on real runs.")
LEVEL_NOTE = "Trusted: Coq kernel, renderer line map. FileLocationParser / FeatureListParser text handling is oracle-checked."
EXHAUSTIVE = True


# ------------------------------------------------------------------ documents with a line map
def render_doc(f, rnd):
    """returns (text, info): info has the lines of feature, rules, outlines, rows, scenarios"""
    out = []
    info = {"feature": None, "entities": [], "scenarios": []}      # entities: (line, kind, [scenario names])

    def filler():
        r = rnd.random()
        if r < 0.2:
            out.append("")
        elif r < 0.3:
            out.append("  # a comment")

    def emit(line):
        out.append(line)
        return len(out)

    def tags(ts, ind):
        if ts:
            emit(ind + " ".join("@" + t for t in ts))

    def item(it, ind, names_acc):
        filler()
        tags(it["tags"], ind)
        if it["kind"] == "scenario":
            ln = emit("%sScenario: S%d" % (ind, it["id"]))
            name = "S%d" % it["id"]
            info["entities"].append((ln, "scenario", [name]))
            info["scenarios"].append({"name": name, "line": ln, "keep": bool(set(it["tags"]) & {"setup", "teardown"})})
            names_acc.append(name)
            for i, s in enumerate(it["steps"]):
                emit("%s  %s %s" % (ind, "Given" if i == 0 else "And", runprog.step_name(s)))
        else:
            ln = emit("%sScenario Outline: O%d" % (ind, it["id"]))
            rows = []
            for i, s in enumerate(it["steps"]):
                emit("%s  %s %s" % (ind, "Given" if i == 0 else "And", runprog.step_name(s)))
            for ei, ex in enumerate(it["examples"]):
                filler()
                tags(ex["tags"], ind + "  ")
                emit("%s  Examples: E%d" % (ind, ex["id"]))
                emit("%s    | x |" % ind)
                for r in range(ex["rows"]):
                    filler()            # comment / blank lines inside a table: a row is addressed by the line it stands on
                    rl = emit("%s    | %d |" % (ind, r))
                    name = "O%d -- @%d.%d E%d" % (it["id"], ei + 1, r + 1, ex["id"])
                    rows.append((rl, name))
                    info["scenarios"].append({"name": name, "line": rl, "keep": False})
            info["entities"].append((ln, "outline", [n for _l, n in rows]))
            for rl, name in rows:
                info["entities"].append((rl, "row", [name]))
            names_acc.extend(n for _l, n in rows)
    filler()
    tags(f["tags"], "")
    fl = emit("Feature: F%d" % f["id"])
    if rnd.random() < 0.4:
        emit("  Some description of the feature")
    if f["bg"] is not None:
        emit("  Background: fb")
        for i, s in enumerate(f["bg"]):
            emit("    %s %s" % ("Given" if i == 0 else "And", runprog.step_name(s)))
    allnames = []
    for it in [x for x in f["items"] if x["kind"] != "rule"]:
        item(it, "  ", allnames)
    for r in [x for x in f["items"] if x["kind"] == "rule"]:
        filler()
        tags(r["tags"], "  ")
        rl = emit("  Rule: R%d" % r["id"])
        if r.get("bg") is not None:
            emit("    Background: rb")
            for i, s in enumerate(r["bg"]):
                emit("      %s %s" % ("Given" if i == 0 else "And", runprog.step_name(s)))
        rnames = []
        for it in r["items"]:
            item(it, "    ", rnames)
        info["entities"].append((rl, "rule", rnames))
        allnames.extend(rnames)
    filler()
    info["entities"].append((fl, "feature", list(allnames)))
    info["entities"].append((0, "feature", list(allnames)))
    info["feature"] = fl
    info["nlines"] = len(out)
    info["order"] = allnames
    return "\n".join(out) + "\n", info


def gen_doc(rnd, fid):
    eid, sid = rc.Ids(), rc.Ids()
    eid.n = fid * 20
    f = rc.gen_feature(rnd, eid, sid, kinds=[("pass", 1)], max_items=3, rule_p=0.5)
    f["id"] = fid
    f["bg"] = None if rnd.random() < 0.6 else f["bg"]
    for it in f["items"]:
        for x in (it["items"] if it["kind"] == "rule" else [it]):
            if x["kind"] == "scenario" and rnd.random() < 0.12:
                x["tags"] = x["tags"] + [rnd.choice(["setup", "teardown"])]
    rc.runprog.normalize_program({"features": [f]})
    return f


# ------------------------------------------------------------------ implementation
def impl_select(case):
    from behave.runner_util import parse_features, collect_feature_locations
    from behave.model_core import FileLocation
    tmp = tempfile.mkdtemp(prefix="verif_c10_")
    cwd = os.getcwd()
    try:
        os.makedirs(os.path.join(tmp, "features"))
        for name, text in case["files"].items():
            with open(os.path.join(tmp, "features", name), "w") as fh:
                fh.write(text)
        os.chdir(tmp)
        if case.get("listfile") is not None:
            with open(os.path.join(tmp, "features", "sel.txt"), "w") as fh:
                fh.write(case["listfile"])
            locations = collect_feature_locations(["@features/sel.txt"])
        else:
            locations = [FileLocation(os.path.join("features", n), l) for n, l in case["locs"]]
        with contextlib.redirect_stdout(io.StringIO()):
            features = parse_features(locations)
        out = []
        for f in features:
            out.append({"file": os.path.basename(f.filename),
                        "skipped": [s.name for s in f.walk_scenarios() if s.should_skip],
                        "all": [s.name for s in f.walk_scenarios()]})
        res = {"features": out, "locations": [[os.path.relpath(os.path.abspath(l.filename), os.path.join(tmp, "features")), l.line] for l in locations]}
        if case.get("run"):
            from behave.configuration import Configuration
            from behave.runner import ModelRunner
            from behave.step_registry import StepRegistry
            reg = StepRegistry()
            ran = []
            reg.add_step_definition("step", "pass {n:d}", lambda context, n: ran.append(context.scenario.name))
            config = Configuration(["--no-color"], load_config=False)
            config.reporters = []
            runner = ModelRunner(config, features, step_registry=reg)
            with contextlib.redirect_stdout(io.StringIO()):
                runner.run()
            res["executed"] = sorted(set(ran))
        return res
    finally:
        os.chdir(cwd)
        shutil.rmtree(tmp, True)


def expected_skipped(info, lines):
    """nearest-entity-above from the renderer's own line map"""
    if any(not l for l in lines) or not lines:
        return []
    ents = sorted(info["entities"], key=lambda e: e[0])
    selected = set()
    for L in lines:
        best = None
        for e in ents:
            if e[0] <= L:
                best = e
        selected.update((best or ents[0])[2])
    return [s["name"] for s in sorted(info["scenarios"], key=lambda s: info["order"].index(s["name"]))
            if s["name"] not in selected and not s["keep"]]


def groups(locs):
    out = []
    for name, line in locs:
        if out and out[-1][0] == name:
            out[-1][1].append(line)
        else:
            out.append([name, [line]])
    return out


def oracle(case, obs):
    out = []
    locs = case["locs"]
    if case.get("listfile") is not None:
        got = [[os.path.basename(a), b] for a, b in obs["locations"]]
        if got != [[n, l] for n, l in locs]:
            return [("@listfile was read as %s, it lists %s" % (obs["locations"], locs), "listfile-parsing")]
    gs = groups(locs)
    if [g[0] for g in gs] != [f["file"] for f in obs["features"]]:
        return [("location list %s gave features %s" % (locs, [f["file"] for f in obs["features"]]), "location-grouping")]
    for g, f in zip(gs, obs["features"]):
        want = expected_skipped(case["info"][g[0]], g[1])
        if f["skipped"] != want:
            extra = [x for x in f["skipped"] if x not in want]
            sig = "location-skips-addressed-scenario" if extra else "location-runs-unaddressed-scenario"
            out.append(("%s with lines %s: skipped %s, expected %s" % (g[0], g[1], f["skipped"], want), sig))
    if "executed" in obs:
        want_run = set()
        for g, f in zip(gs, obs["features"]):
            want = set(expected_skipped(case["info"][g[0]], g[1]))
            want_run |= set(n for n in f["all"] if n not in want)
        if set(obs["executed"]) != want_run:
            out.append(("executed %s, addressed %s" % (obs["executed"], sorted(want_run)), "location-run-set"))
    return out


# ------------------------------------------------------------------ name selection
def impl_names(case):
    prog = case["prog"]
    prog = dict(prog, cfg=dict(prog["cfg"], args=["--name=" + p for p in case["patterns"]]))
    obs = runprog.run_program(prog)
    return {"log": obs["log"], "tree": obs["tree"], "crashed": obs["crashed"]}


def oracle_names(case, obs):
    from props.c02 import scenarios_of, results_of
    if obs["crashed"]:
        return [("run crashed: %s" % obs["crashed"], "run-crashed")]
    out = []
    pats = [re.compile(p) for p in case["patterns"]]
    ran = set(e[3] for e in obs["log"] if e[0] == "step")
    res = results_of(obs)
    for name, steps, _tags in scenarios_of(case["prog"]):
        want = any(p.search(name) for p in pats)
        if want and name not in ran:
            out.append(("scenario %r matches %s but did not run" % (name, case["patterns"]), "name-selected-not-run"))
        if not want and name in ran:
            out.append(("scenario %r does not match %s but ran" % (name, case["patterns"]), "name-unselected-ran"))
        if not want and res.get(name, {}).get("status") not in ("skipped",):
            out.append(("scenario %r does not match but has status %s" % (name, res.get(name, {}).get("status")), "name-unselected-not-skipped"))
    return out


# ---- name selection over titles of every kind: no title at all, titles with regex metacharacters, unicode
TITLES = ["", "", "Alice", "alice buys", "Bob (admin)", "a.b", "x", "Ünï cödé", "Dave + 1", "S", "  padded"]
NAME_PATTERNS = [".*", "^$", "^[A-Z]?", "x*", "^(Alice.*)?$", "Alice", "^alice", "b", r"\(admin\)", "a.b", r"a\.b", "Ünï", "^S$", r"\+", "Z", r"\w", "^.?$"]


# ------------------------------------------------------------------ file:LINE with scenarios that share keyword and title
def impl_twins(case):
    import tempfile, shutil
    from behave.runner_util import parse_features
    from behave.model_core import FileLocation
    lines = ["Feature: F", "  about it"]
    starts = []
    for t in case["titles"]:
        lines.append("")
        starts.append(len(lines) + 1)
        lines += ["  Scenario: %s" % t, "    Given a step", "    Then another"]
    top = tempfile.mkdtemp(prefix="c10_twins_")
    try:
        path = os.path.join(top, "t.feature")
        with open(path, "w") as fh:
            fh.write("\n".join(lines) + "\n")
        res = []
        for line in range(0, len(lines) + 3):
            with contextlib.redirect_stdout(io.StringIO()), contextlib.redirect_stderr(io.StringIO()):
                feats = parse_features([FileLocation(path, line)])
            res.append([line, [sc.line for f in feats for sc in f.walk_scenarios() if not sc.should_skip]])
        return {"starts": starts, "selected": res, "nlines": len(lines)}
    finally:
        shutil.rmtree(top, ignore_errors=True)


def oracle_twins(case, obs):
    out = []
    starts = obs["starts"]
    for line, sel in obs["selected"]:
        above = [s for s in starts if s <= line]
        want = [above[-1]] if above else list(starts)          # a line above the first scenario addresses the feature: all of it
        if sorted(sel) != want:
            out.append(("t.feature:%d with scenario titles %s starting at lines %s selects the scenarios at lines %s, the entity at or above "
                        "that line is %s" % (line, case["titles"], starts, sorted(sel), want), "line-selection-with-equal-titles"))
            break
    return out


def impl_titles(case):
    from behave.configuration import Configuration
    from behave.runner import ModelRunner
    from behave.step_registry import StepRegistry
    from behave.parser import parse_feature
    lines = ["Feature: F"]
    for i, t in enumerate(case["titles"]):
        if case["outline"] == i:
            lines += ["  Scenario Outline: %s" % t, "    Given pass <n>", "    Examples:", "      | n |", "      | 1 |", "      | 2 |"]
        else:
            lines += ["  Scenario: %s" % t if t else "  Scenario:", "    Given pass 1"]
    text = "\n".join(lines) + "\n"
    ran = []
    reg = StepRegistry()
    reg.add_step_definition("step", "pass {n:d}", lambda context, n: ran.append(context.scenario.line))
    with contextlib.redirect_stdout(io.StringIO()), contextlib.redirect_stderr(io.StringIO()):
        config = Configuration(["--no-color"] + ["--name=" + p for p in case["patterns"]], load_config=False)
        config.reporters = []
        config.paths = []
        feature = parse_feature(text, filename="t.feature")
        runner = ModelRunner(config, [feature], step_registry=reg)
        crashed = None
        try:
            runner.run()
        except BaseException as e:      # noqa
            crashed = "%s: %s" % (type(e).__name__, e)
    scen = [{"name": sc.name, "line": sc.line, "status": sc.status.name} for sc in feature.walk_scenarios()]
    return {"ran": sorted(set(ran)), "scenarios": scen, "crashed": crashed, "text": text}


def oracle_titles(case, obs):
    if obs["crashed"]:
        return [("run crashed: %s" % obs["crashed"], "run-crashed")]
    out = []
    pats = [re.compile(p, re.UNICODE) for p in case["patterns"]]
    for sc in obs["scenarios"]:
        want = any(p.search(sc["name"]) for p in pats)
        if want and sc["line"] not in obs["ran"]:
            out.append(("scenario %r (line %d) matches one of %s but did not run (status %s)" % (sc["name"], sc["line"], case["patterns"], sc["status"]),
                        "name-selected-not-run"))
        if not want and (sc["line"] in obs["ran"] or sc["status"] != "skipped"):
            out.append(("scenario %r (line %d) matches none of %s but has status %s" % (sc["name"], sc["line"], case["patterns"], sc["status"]),
                        "name-unselected-ran"))
    return out


# ------------------------------------------------------------------ Coq side
HEADER = "From BV Require Import Base Select.\n"


def c_lscen(s):
    return "(mkLScen %s %s %s)" % (cnat(rc.name_id(s["name"])), cnat(s["line"]), cbool(s["keep"]))


def c_lfeature(f, info):
    by_name = {s["name"]: s for s in info["scenarios"]}
    ent_line = {}
    for ln, kind, names in info["entities"]:
        ent_line[(kind, tuple(names))] = ln

    def item(it):
        if it["kind"] == "scenario":
            return "(LScen %s)" % c_lscen(by_name["S%d" % it["id"]])
        names = ["O%d -- @%d.%d E%d" % (it["id"], ei + 1, r + 1, ex["id"]) for ei, ex in enumerate(it["examples"]) for r in range(ex["rows"])]
        ln = [l for l, k, ns in info["entities"] if k == "outline" and ns == names][0] if True else 0
        # several outlines may have identical (empty) row lists: match by rendered order instead
        return "(LOutline %s %s)" % (cnat(it["_line"]), clist([c_lscen(by_name[n]) for n in names], "lscen"))
    items = []
    for it in f["items"]:
        if it["kind"] == "rule":
            items.append("(LFRule (mkLRule %s %s))" % (cnat(it["_line"]), clist([item(x) for x in it["items"]], "litem")))
        else:
            items.append("(LFItem %s)" % item(it))
    return "(mkLFeature %s %s)" % (cnat(info["feature"]), clist(items, "lfitem"))


def annotate_lines(f, text):
    """store the rendered line of outlines and rules in the abstract feature (text search, independent of behave)"""
    lines = text.splitlines()
    for it in f["items"]:
        for x in ([it] + it["items"] if it["kind"] == "rule" else [it]):
            if x["kind"] == "outline":
                x["_line"] = 1 + [i for i, l in enumerate(lines) if l.strip() == "Scenario Outline: O%d" % x["id"]][0]
            elif x["kind"] == "rule":
                x["_line"] = 1 + [i for i, l in enumerate(lines) if l.strip() == "Rule: R%d" % x["id"]][0]


def enc(case, obs):
    if case.get("listfile") is not None or len(case["files"]) != 1:
        return None
    name = list(case["files"])[0]
    lines = [l for _n, l in case["locs"]]
    i = "(%s, %s)" % (c_lfeature(case["doc"][name], case["info"][name]),
                      clist([copt(None if l is None else cnat(l), "nat") for l in lines], "option nat"))
    o = clist([cnat(rc.name_id(n)) for n in obs["features"][0]["skipped"]], "nat") if obs["features"] else "(@nil nat)"
    return i, o


def enc_files(case, obs):
    names = sorted(case["files"])
    for n in names:
        annotate_lines(case["doc"][n], case["files"][n])
    feats = clist([c_lfeature(case["doc"][n], case["info"][n]) for n in names], "lfeature")
    locs = clist(["(%s, %s)" % (cnat(names.index(n)), copt(None if l is None else cnat(l), "nat")) for n, l in case["locs"]],
                 "nat * option nat")
    out = clist(["(%s, %s)" % (cnat(names.index(f["file"])), clist([cnat(rc.name_id(x)) for x in f["skipped"]], "nat"))
                 for f in obs["features"]], "nat * list nat")
    return "(%s, %s)" % (feats, locs), out


def suites(tier, seed):
    rnd = random.Random(seed * 92821 + 10)
    thorough = tier == "thorough"
    ndocs = 60 if thorough else 12
    cases = []
    docs = []
    def rule_with_rows(f):
        return any(it["kind"] == "rule" and any(x["kind"] == "outline" and sum(e["rows"] for e in x["examples"]) >= 1 for x in it["items"])
                   and any(x["kind"] == "scenario" for x in it["items"]) for it in f["items"])
    for d in range(ndocs):
        f = gen_doc(rnd, 1)
        while d % 3 == 0 and not rule_with_rows(f):     # every third document has a rule holding an outline with rows and a plain scenario
            f = gen_doc(rnd, 1)
        text, info = render_doc(f, rnd)
        annotate_lines(f, text)
        docs.append((f, text, info))
        fname = "F1.feature"
        base = {"files": {fname: text}, "info": {fname: info}, "doc": {fname: f}}
        for L in range(0, info["nlines"] + 4):          # EVERY line from 0 to beyond the last one
            cases.append(dict(base, locs=[[fname, L]]))
        cases.append(dict(base, locs=[[fname, None]]))
        for _ in range(12 if thorough else 5):           # multisets of 1..3 locations
            k = rnd.randint(2, 3)
            cases.append(dict(base, locs=[[fname, rnd.randint(1, info["nlines"] + 1)] for _ in range(k)], run=rnd.random() < 0.3))
        cases.append(dict(base, locs=[[fname, rnd.randint(1, info["nlines"])], [fname, None]]))
    multi = []
    for _ in range(200 if thorough else 40):
        files, infos, docmap = {}, {}, {}
        for k in range(rnd.randint(2, 3)):
            f = gen_doc(rnd, k + 1)
            text, info = render_doc(f, rnd)
            files["F%d.feature" % (k + 1)] = text
            infos["F%d.feature" % (k + 1)] = info
            docmap["F%d.feature" % (k + 1)] = f
        names = sorted(files)
        locs = []
        for _k in range(rnd.randint(2, 5)):
            n = rnd.choice(names)
            locs.append([n, rnd.choice([None, 0] + [rnd.randint(1, infos[n]["nlines"] + 1)] * 4)])
        c = {"files": files, "info": infos, "doc": docmap, "locs": locs, "run": rnd.random() < 0.3}
        if rnd.random() < 0.5:
            lf = []
            for n, l in locs:
                if rnd.random() < 0.3:
                    lf.append(rnd.choice(["# a comment", "", "   "]))
                pad = rnd.choice(["", "", "  ", "\t"])
                lf.append("%s%s%s%s" % (pad, n, (":%d" % l) if l is not None else "", rnd.choice(["", " ", "  "])))
            c["listfile"] = "\n".join(lf) + "\n"
        multi.append(c)
    # name selection
    ncases = []
    for _ in range(400 if thorough else 80):
        p = rc.gen_program(rnd, kinds=[("pass", 1)])
        p["cfg"].update(dry_run=False, stop=False, expr=None, faults=[], hook_cleanups=[])
        from props.c02 import scenarios_of
        names = [n for n, _s, _t in scenarios_of(p)]
        frag = ["S", "O", "E", r"\d", r"S\d+$", "@1", r"-- @\d\.1", "^O", "S1", "2"]
        pats = []
        for _k in range(rnd.randint(1, 2)):
            pats.append(re.escape(rnd.choice(names)) if names and rnd.random() < 0.5 else rnd.choice(frag))
        ncases.append({"prog": p, "patterns": pats})
    single = {"name": "lines", "cases": cases, "impl": impl_select, "oracle": oracle, "exhaustive": True,
              "nontrivial": lambda c, o: any(f["skipped"] and len(f["skipped"]) < len(f["all"]) for f in o["features"]),
              "bound": "%d rendered documents x every line 0..last+3, plus location multisets" % ndocs,
              "coq": {"header": HEADER, "in_ty": "lfeature * list (option nat)", "out_ty": "list nat",
                      "fn": "fun c => skipped_ids (fst c) (snd c)", "eqb": "list_eqb Nat.eqb", "enc": enc, "shard": 400}}
    many = {"name": "files", "cases": multi, "impl": impl_select, "oracle": oracle,
            "nontrivial": lambda c, o: len(o["features"]) >= 2,
            "bound": "%d location lists over 2-3 files, half of them through an @listfile" % len(multi),
            "coq": {"header": HEADER, "in_ty": "list lfeature * list (nat * option nat)", "out_ty": "list (nat * list nat)",
                    "fn": "fun c => select_files (fun i => nth i (fst c) (mkLFeature 0 [])) (snd c)",
                    "eqb": "list_eqb (pair_eqb Nat.eqb (list_eqb Nat.eqb))", "enc": enc_files, "shard": 100}}
    nm = {"name": "names", "cases": ncases, "impl": impl_names, "oracle": oracle_names,
          "nontrivial": lambda c, o: True, "bound": "%d runs with --name patterns" % len(ncases)}
    tcases = []
    for _ in range(600 if thorough else 150):
        titles = [rnd.choice(TITLES) for _ in range(rnd.randint(1, 4))]
        tcases.append({"titles": titles, "outline": rnd.choice([None, None] + list(range(len(titles)))),
                       "patterns": [rnd.choice(NAME_PATTERNS) for _ in range(rnd.randint(1, 2))]})
    tt = {"name": "titles", "cases": tcases, "impl": impl_titles, "oracle": oracle_titles,
          "nontrivial": lambda c, o: 0 < len(o["ran"]) < len(o["scenarios"]),
          "bound": "%d runs with --name patterns over scenario titles of every kind (none, metacharacters, unicode), plain and outline" % len(tcases)}
    wcases = [{"titles": t} for t in (["Login", "Logout", "Login", "Other"], ["Same", "Same"], ["A", "B", "A", "B", "A"], ["", ""], ["One", "Two", "Three"])]
    tw = {"name": "twins", "cases": wcases, "impl": impl_twins, "oracle": oracle_twins, "exhaustive": True,
          "nontrivial": lambda c, o: True,
          "bound": "%d features whose scenarios share keyword and title, every line from 0 to past the end (oracle only)" % len(wcases)}
    return [single, many, nm, tt, tw]
