"""C13 — Context scoping and cleanups: layered visibility, LIFO exactly-once cleanup."""
from __future__ import annotations
import random, itertools
from common import clist, cbool, cnat, copt

TRUSTED = [
    "Coq 8.16.1 kernel (coqc, vm_compute); no axioms",
    "harness/props/c13.py: replay of an operation history on a real behave.runner.Context (public API + _push/_pop/_set_root_attribute as the runner calls them) and decoding of outputs",
]
ASSUMPTIONS = [
    "ContextMaskWarning emission is not compared (the property does not constrain it)",
    "cleanup functions and fixtures are data (id, raises); on_cleanup_error is the default handler; fail_on_cleanup_errors is the default True",
]
RULE = ("operation histories over {push scope (4 layer names or none), pop, set/get/has/del attribute (3 user keys + the names behave "
        "itself stores in the root scope), set root attribute, use_or_assign, add_cleanup (plain / with args / layer=), generator "
        "fixture whose setup part registers further cleanups / fails}: exhaustive up to the stated length over a reduced alphabet, "
        "seeded random longer ones; any subset of cleanups raising; non-trivial = history contains a pop of a frame with cleanups or a shadowing set")
LEVEL_TEXT = ("Theorems over Context.v for every history: get-after-set, set/del/use_or_assign touch only the innermost scope, a scope's "
              "attributes vanish at pop and outer values reappear, del succeeds only in the owning scope, pop runs every cleanup of "
              "the scope in reverse registration order and removes the scope even when cleanups raise, and executed + pending cleanups "
              "are conserved by every operation (exactly-once); execute_steps leaves the caller's text/table, every other attribute and "
              "the outer scopes as they were, whether or not a nested step fails; runner side: a raising cleanup of a scenario's scope makes the "
              "scenario end error and count as failed.  The model is compared with a real Context on exhaustive short and "
              "random long histories; an independent layered-map reference is the oracle.")
LEVEL_NOTE = ("Trusted: Coq kernel, history replayer, run-cluster renderer/decoder. The runner-side consequence (a raising cleanup makes "
              "its owner and the run fail) is checked on real runs against the run model (whose verdict theorem is C01's) and by the oracle.")
EXHAUSTIVE = True

KEYS = {"k0": 0, "k1": 1, "k2": 2, "failed": 10, "aborted": 11, "feature": 12, "text": 13}
LAYERS = {None: 0, "testrun": 1, "feature": 2, "rule": 3, "scenario": 4}


def pyval(v):
    """python value -> model code"""
    if v is False:
        return 900
    if v is None:
        return 901
    if v is True:
        return 902
    return int(v)


# ------------------------------------------------------------------ implementation
def impl_history(case):
    import io, contextlib, warnings
    from behave.configuration import Configuration
    from behave.runner import ModelRunner, Context
    from behave.fixture import use_fixture
    config = Configuration(["--no-color"], load_config=False)
    runner = ModelRunner(config, [])
    ran = []
    out = []
    funcs = {}

    def get_func(fid, raises):
        key = (fid, raises)
        if key not in funcs:
            def f(*args):
                ran.append(fid)
                if raises:
                    raise RuntimeError("cleanup %d" % fid)
            f.__name__ = "cleanup_%d" % fid
            funcs[key] = f
        return funcs[key]
    sink = io.StringIO()
    with contextlib.redirect_stdout(sink), warnings.catch_warnings():
        warnings.simplefilter("ignore")
        ctx = Context(runner)
        for op in case["ops"]:
            k = op[0]
            try:
                if k == "push":
                    ctx._push(op[1])
                    out.append(["ok"])
                elif k == "pop":
                    if len(ctx._stack) <= 1:
                        out.append(["nopop"])
                        continue
                    del ran[:]
                    try:
                        ctx._pop()
                        out.append(["popped", list(ran), None])
                    except RuntimeError as e:
                        out.append(["popped", list(ran), int(str(e).split()[-1])])
                elif k == "set":
                    setattr(ctx, op[1], op[2])
                    out.append(["ok"])
                elif k == "get":
                    try:
                        out.append(["val", pyval(getattr(ctx, op[1]))])
                    except AttributeError:
                        out.append(["val", None])
                elif k == "has":
                    out.append(["bool", op[1] in ctx])
                elif k == "del":
                    try:
                        delattr(ctx, op[1])
                        out.append(["ok"])
                    except AttributeError:
                        out.append(["attrerr"])
                elif k == "setroot":
                    ctx._set_root_attribute(op[1], op[2])
                    out.append(["ok"])
                elif k == "uoa":
                    out.append(["val", pyval(ctx.use_or_assign_param(op[1], op[2]))])
                elif k == "cleanup":
                    _k, fid, raises, layer, with_args = op
                    f = get_func(fid, raises)
                    kwargs = {"layer": layer} if layer else {}
                    try:
                        if with_args:
                            ctx.add_cleanup(f, "arg", **kwargs)
                        else:
                            ctx.add_cleanup(f, **kwargs)
                        out.append(["ok"])
                    except LookupError:
                        out.append(["lookuperr"])
                elif k == "fixture":
                    _k, fid, adds, fails, traises = op

                    def gen(context, fid=fid, adds=adds, fails=fails, traises=traises):
                        for (cid, craises) in adds:
                            context.add_cleanup(get_func(cid, craises))
                        if fails:
                            raise ValueError("setup %d" % fid)
                        yield fid
                        ran.append(100 + fid)
                        if traises:
                            raise RuntimeError("cleanup %d" % (100 + fid))
                    # the generator fixture is handed over in one of the ways user code writes it: plain generator function,
                    # @fixture-decorated, bound method of a fixture provider object, functools.partial with an argument bound
                    flavour = (fid + len(adds) + len(out)) % 4
                    fx = gen
                    if flavour == 1:
                        from behave.fixture import fixture as fixture_decorator
                        fx = fixture_decorator(gen)
                    elif flavour == 2:
                        class Provider(object):
                            def resource(self, context, _g=gen):
                                value = yield from _g(context)
                                return value
                        fx = Provider().resource
                    elif flavour == 3:
                        import functools

                        def gen_with(context, tag, _g=gen):
                            value = yield from _g(context)
                            return value
                        fx = functools.partial(gen_with, tag="x")
                    try:
                        got = use_fixture(fx, ctx)
                        out.append(["ok"] if got == fid else ["EXC", "use_fixture returned a %s instead of the value the fixture yields (its setup part did not run)" % type(got).__name__])
                    except ValueError:
                        out.append(["setuperr"])
            except Exception as e:      # an internal exception is an observation (O17/O18)
                out.append(["EXC", type(e).__name__])
    return {"out": out}


# ------------------------------------------------------------------ oracle: layered maps, written from Context's docstring
def reference(ops):
    stack = [{"layer": "testrun", "attrs": {"failed": 900, "aborted": 900, "feature": 901, "text": 901, "table": 901,
                                             "config": -1, "active_outline": 901, "cleanup_errors": 0}, "cl": []}]
    out = []
    for op in ops:
        k = op[0]
        if k == "push":
            stack.insert(0, {"layer": op[1], "attrs": {}, "cl": []}); out.append(["ok"])
        elif k == "pop":
            if len(stack) <= 1:
                out.append(["nopop"]); continue
            fr = stack.pop(0)
            ran, first = [], None
            for c in reversed(fr["cl"]):
                if c["logs"]:
                    ran.append(c["id"])
                if c["raises"] and first is None:
                    first = c["id"]
            out.append(["popped", ran, first])
        elif k == "set":
            stack[0]["attrs"][op[1]] = op[2]; out.append(["ok"])
        elif k == "get":
            v = None
            for fr in stack:
                if op[1] in fr["attrs"]:
                    v = fr["attrs"][op[1]]; break
            out.append(["val", v])
        elif k == "has":
            out.append(["bool", any(op[1] in fr["attrs"] for fr in stack)])
        elif k == "del":
            if op[1] in stack[0]["attrs"]:
                del stack[0]["attrs"][op[1]]; out.append(["ok"])
            else:
                out.append(["attrerr"])
        elif k == "setroot":
            stack[-1]["attrs"][op[1]] = op[2]; out.append(["ok"])
        elif k == "uoa":
            v = None
            for fr in stack:
                if op[1] in fr["attrs"]:
                    v = fr["attrs"][op[1]]; break
            else:
                stack[0]["attrs"][op[1]] = op[2]; v = op[2]
            out.append(["val", v])
        elif k == "cleanup":
            _k, fid, raises, layer, with_args = op
            fr = stack[0]
            if layer:
                fr = next((f for f in stack if f["layer"] == layer), None)
                if fr is None:
                    out.append(["lookuperr"]); continue
            if not any(c["plain"] and c["func"] == (fid, raises) for c in fr["cl"]):
                fr["cl"].append({"id": fid, "raises": raises, "func": (fid, raises), "plain": not with_args, "logs": True})
            out.append(["ok"])
        elif k == "fixture":
            _k, fid, adds, fails, traises = op
            fr = stack[0]
            fr["cl"].append({"id": 100 + fid, "raises": traises and not fails, "func": ("fx", fid, len(fr["cl"])), "plain": True, "logs": not fails})
            for (cid, craises) in adds:
                if not any(c["plain"] and c["func"] == (cid, craises) for c in fr["cl"]):
                    fr["cl"].append({"id": cid, "raises": craises, "func": (cid, craises), "plain": True, "logs": True})
            out.append(["setuperr"] if fails else ["ok"])
    return out


def oracle(case, obs):
    out = []
    ref = reference(case["ops"])
    for i, (a, b) in enumerate(zip(obs["out"], ref)):
        if a != b:
            op = case["ops"][i]
            if a[0] == "EXC":
                sig = "context-internal-exception:%s:%s" % (a[1], op[0])
                out.append(("operation %d %s raised the internal exception %s (history %s)" % (i, op, a[1], case["ops"][:i + 1]), sig))
            elif op[0] == "pop":
                out.append(("pop #%d ran cleanups %s / re-raised %s, expected %s / %s" % (i, a[1:2], a[2:3], b[1:2], b[2:3]), "cleanup-order-or-count"))
            else:
                out.append(("operation %d %s gave %s, a stack of scopes gives %s" % (i, op, a, b), "scoping:%s" % op[0]))
            break
    return out


# ------------------------------------------------------------------ Coq encoding
HEADER = "From BV Require Import Base Context.\n"


def c_op(op):
    k = op[0]
    if k == "push":
        return "(CPush %s)" % cnat(LAYERS[op[1]])
    if k == "pop":
        return "CPop"
    if k == "set":
        return "(CSet %s %s)" % (cnat(KEYS[op[1]]), cnat(op[2]))
    if k == "get":
        return "(CGet %s)" % cnat(KEYS[op[1]])
    if k == "has":
        return "(CHas %s)" % cnat(KEYS[op[1]])
    if k == "del":
        return "(CDel %s)" % cnat(KEYS[op[1]])
    if k == "setroot":
        return "(CSetRoot %s %s)" % (cnat(KEYS[op[1]]), cnat(op[2]))
    if k == "uoa":
        return "(CUseOrAssign %s %s)" % (cnat(KEYS[op[1]]), cnat(op[2]))
    if k == "cleanup":
        # the identity of the callable is (id, raises): two different functions for the two flavours
        return "(CAddCleanup %s %s %s %s)" % (cnat(op[1]), cbool(op[2]), cnat(LAYERS[op[3]]), cbool(op[4]))
    if k == "fixture":
        adds = clist(["(%s, %s)" % (cnat(c), cbool(r)) for c, r in op[2]], "nat * bool")
        return "(CFixture %s %s %s %s)" % (cnat(op[1]), adds, cbool(op[3]), cbool(op[4]))
    raise ValueError(op)


def cid(fid, raises=None, log=None):
    return fid


def c_out(o, op):
    k = o[0]
    if k == "ok":
        return "OOk"
    if k == "val":
        return "(OVal %s)" % copt(None if o[1] is None else cnat(o[1]), "nat")
    if k == "bool":
        return "(OBool %s)" % cbool(o[1])
    if k == "attrerr":
        return "OAttrErr"
    if k == "lookuperr":
        return "OLookupErr"
    if k == "setuperr":
        return "OSetupErr"
    if k == "nopop":
        return "ONoPop"
    if k == "popped":
        return "(OPopped %s %s)" % (clist([cnat(x) for x in o[1]], "nat"), copt(None if o[2] is None else cnat(o[2]), "nat"))
    raise ValueError(o)


def enc(case, obs):
    if any(o[0] == "EXC" for o in obs["out"]):
        return None
    # in the model a plain cleanup logs cl_id = func identity; map ids: func identity = id*2+raises, logged id = the same
    def fix_ids(o):
        if o[0] == "popped":
            return ["popped", [x if x >= 100 else x for x in o[1]], o[2]]
        return o
    ops = _ids(case)["ops"]
    return clist([c_op(op) for op in ops], "cop"), clist([c_out(o, op) for o, op in zip(obs["out"], ops)], "cout")


# the model logs cl_id; make implementation ids equal to the model's function identities
def norm_obs(case, obs):
    return obs


# ------------------------------------------------------------------ generators
def rnd_op(rnd, depth):
    r = rnd.random()
    key = rnd.choice(["k0", "k0", "k1", "k2", "failed", "aborted", "feature", "text"])
    if r < 0.13:
        return ["push", rnd.choice(["feature", "rule", "scenario", "scenario", None])]
    if r < 0.26:
        return ["pop"]
    if r < 0.42:
        return ["set", key, rnd.randint(1, 5)]
    if r < 0.54:
        return ["get", key]
    if r < 0.60:
        return ["has", key]
    if r < 0.70:
        return ["del", key]
    if r < 0.76:
        return ["setroot", key, rnd.randint(1, 5)]
    if r < 0.82:
        return ["uoa", key, rnd.randint(1, 5)]
    if r < 0.94:
        return ["cleanup", rnd.randint(1, 4), rnd.random() < 0.3,
                rnd.choice([None, None, None, "scenario", "feature", "testrun", "rule"]), rnd.random() < 0.3]
    return ["fixture", rnd.randint(1, 3), [(rnd.randint(1, 4), rnd.random() < 0.3) for _ in range(rnd.randint(0, 2))],
            rnd.random() < 0.25, rnd.random() < 0.25]


SMALL = [["push", "scenario"], ["push", "feature"], ["pop"], ["set", "k0", 1], ["set", "k0", 2], ["get", "k0"], ["del", "k0"],
         ["setroot", "k0", 3], ["uoa", "k0", 4], ["set", "failed", 1], ["del", "failed"], ["get", "failed"],
         ["cleanup", 1, False, None, False], ["cleanup", 2, True, None, False], ["cleanup", 1, False, "feature", True],
         ["fixture", 1, [(3, False)], False, False]]


def remap_ids(case):
    """cleanup ids in the implementation log are the model's function identities (id*2+raises)"""
    ops = []
    for op in case["ops"]:
        ops.append(op)
    return case


# ------------------------------------------------------------------ real runs: a raising cleanup makes its owner and the run fail
def cleanup_programs(rnd, n):
    """otherwise all-passing runs in which hooks at every level register cleanups, some of which raise"""
    import runcluster as rc, runprog
    out = []
    for _ in range(n):
        p = rc.gen_program(rnd)
        for f in p["features"]:                        # everything passes, everything is selected, all hooks exist
            for it in f["items"]:
                for x in (it["items"] if it["kind"] == "rule" else [it]):
                    for st in x["steps"]:
                        st["kind"] = "pass"
                if it["kind"] == "rule" and it["bg"]:
                    for st in it["bg"]:
                        st["kind"] = "pass"
            if f["bg"]:
                for st in f["bg"]:
                    st["kind"] = "pass"
        p["cfg"].update({"expr": None, "dry_run": False, "stop": rnd.random() < 0.2, "hooks": list(runprog.HOOKS), "faults": []})
        sites = [s for s in rc.hook_sites(p) if s[0] in ("before_all", "before_feature", "before_rule", "before_scenario",
                                                          "after_feature", "after_rule", "after_scenario", "before_tag")]
        cl = []
        for j in range(rnd.randint(1, 3)):
            h, k = rnd.choice(sites)
            cl.append([h, k, 500 + j, rnd.random() < 0.6])
        p["cfg"]["hook_cleanups"] = cl
        out.append(p)
    return out


def oracle_runs(prog, obs):
    if obs.get("crashed"):
        return [("the run let an exception escape: %s" % obs["crashed"], "run-crashed")]
    out = []
    ran = {}
    for e in obs["log"]:
        if e[0] == "cleanup":
            ran.setdefault(e[1], []).append(e[2])
    invoked = set((e[1], e[2]) for e in obs["log"] if e[0] == "hook")
    status = {}
    for t in obs["tree"]:
        status[t["name"]] = t["status"]
        for it in t["items"]:
            status[it["name"]] = it["status"]
            for x in it.get("items", []) + it.get("rows", []):
                status[x["name"]] = x["status"]
                for y in x.get("rows", []):
                    status[y["name"]] = y["status"]
    for h, k, cid, raises in prog["cfg"]["hook_cleanups"]:
        n_inv = sum(1 for e in obs["log"] if e[0] == "hook" and e[1] == h and e[2] == str(k))
        if len(ran.get(cid, [])) != n_inv:
            out.append(("cleanup %d registered by %s(%s) (%d invocation(s)) ran %d time(s)" % (cid, h, k, n_inv, len(ran.get(cid, []))),
                        "cleanup-not-exactly-once"))
        if raises and n_inv:
            if not obs["failed"]:
                out.append(("cleanup %d registered by %s(%s) raised but the run reports success" % (cid, h, k), "raising-cleanup-run-green"))
            owner = str(k)
            if h not in ("before_all", "before_tag") and status.get(owner) not in ("error", "hook_error", "failed"):
                out.append(("cleanup %d registered by %s(%s) raised but %s has status %s" % (cid, h, k, owner, status.get(owner)),
                            "raising-cleanup-owner-not-failed"))
    return out


def suites(tier, seed):
    rnd = random.Random(seed * 2654435761 % (2 ** 31) + 13)
    thorough = tier == "thorough"
    L = 4 if thorough else 3
    cases = []
    for n in range(1, L + 1):
        for t in itertools.product(range(len(SMALL)), repeat=n):
            cases.append({"ops": [SMALL[i] for i in t]})
    if thorough:
        more = list(itertools.product(range(len(SMALL)), repeat=5))
        for t in rnd.sample(more, 40000):
            cases.append({"ops": [SMALL[i] for i in t]})
    for _ in range(20000 if thorough else 2500):
        n = rnd.randint(4, 30)
        cases.append({"ops": [rnd_op(rnd, 0) for _ in range(n)] + [["pop"]] * rnd.randint(0, 3)})
    # ids: make the implementation log the model's identity (id*2+raises) so that both sides name cleanups alike
    for c in cases:
        for op in c["ops"]:
            pass
    ex = []
    for otext in (False, True):
        for otable in (False, True):
            for inner in itertools.product([(False, False), (True, False), (False, True), (True, True)], repeat=2):
                ex.append({"otext": otext, "otable": otable, "inner": [list(x) for x in inner], "failing": []})
                ex.append({"otext": otext, "otable": otable, "inner": [list(x) for x in inner], "failing": [1]})
                ex.append({"otext": otext, "otable": otable, "inner": [list(x) for x in inner], "failing": [0]})
    exec_suite = {"name": "execute_steps", "cases": ex, "impl": impl_exec_steps, "oracle": oracle_exec_steps,
                  "nontrivial": lambda c, o: c["otext"] or c["otable"], "exhaustive": True,
                  "coq": {"header": HEADER, "in_ty": "(nat * nat * list nested)", "out_ty": "(list (nat * nat) * bool * (nat * nat))",
                          "fn": "exec_case", "eqb": "exec_out_eqb", "enc": enc_exec, "shard": 400},
                  "bound": "outer step with/without text and table x two nested steps each with/without text and table x nested failure"}
    import runcluster as rc
    runs = {"name": "runs", "cases": cleanup_programs(rnd, 1200 if thorough else 250), "impl": rc.impl_run, "oracle": oracle_runs,
            "nontrivial": lambda c, o: any(e[0] == "cleanup" and e[2] for e in o.get("log", [])),
            "histogram": rc.histogram, "shrink": rc.shrink_program,
            "bound": "seeded all-passing programs whose hooks at run / feature / rule / scenario / tag level register cleanups, some raising",
            "coq": rc.COQ}
    return [exec_suite, runs, {"name": "histories", "cases": cases, "impl": impl_history_ids, "oracle": oracle_ids,
             "nontrivial": lambda c, o: any(x[0] == "popped" and x[1] for x in o["out"]) or sum(1 for op in c["ops"] if op[0] == "set") >= 2,
             "exhaustive": True, "bound": "all histories up to length %d over a %d-operation alphabet; random up to length 33" % (L, len(SMALL)),
             "shrink": lambda c: ({"ops": c["ops"][:i] + c["ops"][i + 1:]} for i in range(len(c["ops"]))),
             "histogram": lambda cs, os_: {"ops": sum(len(c["ops"]) for c in cs),
                                           "pops_with_cleanups": sum(1 for o in os_ if isinstance(o, dict) for x in o.get("out", []) if x[0] == "popped" and x[1]),
                                           "raising_pops": sum(1 for o in os_ if isinstance(o, dict) for x in o.get("out", []) if x[0] == "popped" and x[2] is not None)},
             "coq": {"header": HEADER, "in_ty": "list cop", "out_ty": "list cout", "fn": "crun_out",
                     "eqb": "list_eqb cout_eqb", "enc": enc, "shard": 400}}]


def impl_exec_steps(case):
    """a step with text/table runs nested steps (execute_steps) that carry their own text/table"""
    import io, contextlib
    from behave.configuration import Configuration
    from behave.runner import ModelRunner
    from behave.step_registry import StepRegistry
    from behave.parser import parse_feature
    obs = {}
    registry = StepRegistry()
    inner_lines = []
    for i, (itext, itable) in enumerate(case["inner"]):
        inner_lines.append(u"Given inner %d" % i)
        if itext:
            inner_lines += [u'  """', u"  inner text %d" % i, u'  """']
        if itable:
            inner_lines += [u"  | c |", u"  | i%d |" % i]
    inner_src = u"\n".join(inner_lines)

    def outer(context):
        obs["before"] = [context.text, [list(r) for r in context.table.rows] if context.table else None]
        try:
            context.execute_steps(inner_src)
            obs["raised"] = False
        except AssertionError:
            obs["raised"] = True
        obs["after"] = [context.text, [list(r) for r in context.table.rows] if context.table else None]

    def inner(context, i):
        obs.setdefault("inner_seen", []).append([i, context.text, [list(r) for r in context.table.rows] if context.table else None])
        if i in case.get("failing", []):
            assert False, "inner fails"
    registry.add_step_definition("given", "outer", outer)
    registry.add_step_definition("given", "inner {i:d}", inner)
    lines = [u"Feature: F", u"  Scenario: S", u"    Given outer"]
    if case["otext"]:
        lines += [u'      """', u"      outer text", u'      """']
    if case["otable"]:
        lines += [u"      | c |", u"      | o |"]
    feature = parse_feature(u"\n".join(lines) + u"\n", filename="x.feature")
    config = Configuration(["--no-color"], load_config=False)
    config.reporters = []
    runner = ModelRunner(config, [feature], step_registry=registry)
    with contextlib.redirect_stdout(io.StringIO()):
        runner.run()
    obs["step_status"] = feature.scenarios[0].steps[0].status.name
    return obs


def _code(v, outer_val):
    """None -> 0, the outer step's value -> 1, nested step i's value -> 10 + i"""
    if v is None:
        return 0
    if v == outer_val:
        return 1
    if isinstance(v, list):
        return 10 + int(v[0][0][1:])
    return 10 + int(v.split()[-1])


def enc_exec(case, obs):
    nested = "[%s]" % "; ".join("mkNested %d %d %s" % (10 + i if it else 0, 10 + i if itb else 0, "false" if i in case.get("failing", []) else "true")
                                 for i, (it, itb) in enumerate(case["inner"]))
    cin = "(%d, %d, %s)" % (1 if case["otext"] else 0, 1 if case["otable"] else 0, nested)
    seen = "[%s]" % "; ".join("(%d, %d)" % (_code(t, u"outer text"), _code(tb, [[u"o"]])) for (_i, t, tb) in obs.get("inner_seen", []))
    after = obs.get("after", [None, None])
    cout = "(%s, %s, (%d, %d))" % (seen, "true" if obs.get("raised") else "false", _code(after[0], u"outer text"), _code(after[1], [[u"o"]]))
    return cin, cout


def oracle_exec_steps(case, obs):
    out = []
    if "before" not in obs:
        return [("the outer step was not executed", "exec-steps-not-run")]
    failing = bool(case.get("failing"))
    if obs["raised"] != failing:
        out.append(("execute_steps raised=%s but nested failure=%s" % (obs["raised"], failing), "exec-steps-failure-propagation"))
    if obs["after"] != obs["before"]:
        out.append(("execute_steps (nested step %s) did not restore the caller's text/table: before %s after %s" % (
            "failing" if failing else "passing", obs["before"], obs["after"]),
            "exec-steps-restore" if not failing else "exec-steps-restore-after-failing-substep"))
    seen = obs.get("inner_seen", [])
    for (i, text, table) in seen:
        itext, itable = case["inner"][i]
        if (text == u"inner text %d" % i) != bool(itext) or bool(table) != bool(itable):
            out.append(("nested step %d saw text=%r table=%r" % (i, text, table), "exec-steps-inner-args"))
    return out


def _ids(case):
    """rewrite cleanup ids to the model's function identity id*2+raises (applied to both sides)"""
    ops = []
    for op in case["ops"]:
        if op[0] == "cleanup":
            ops.append(["cleanup", op[1] * 2 + (1 if op[2] else 0), op[2], op[3], op[4]])
        elif op[0] == "fixture":
            ops.append(["fixture", op[1], [(c * 2 + (1 if r else 0), r) for c, r in op[2]], op[3], op[4]])
        else:
            ops.append(op)
    return {"ops": ops}


def impl_history_ids(case):
    return impl_history(_ids(case))


def oracle_ids(case, obs):
    return oracle(_ids(case), obs)
