"""C17 — rerun file lists exactly the unsuccessful scenarios; fed back it selects them."""
from __future__ import annotations
import random, os, io, re, tempfile, shutil, contextlib, copy
import runcluster as rc
import runprog
from common import clist, cnat, cbool, copt
from props import c10

TRUSTED = [
    "Coq 8.16.1 kernel (coqc, vm_compute); no axioms",
    "harness/props/c17.py: two-run driver (files on disk, rerun formatter writing to a file, @file fed back), decoding of the file",
]
ASSUMPTIONS = ["scenario names are unique per feature (the renderer guarantees it)"]
RULE = ("two-run histories over 1-3 feature files with passing / assertion / exception / undefined / pending / hook-error / skipped "
        "scenarios, plain and outline rows, inside and outside rules: run -> rerun file -> second run through @file; "
        "also a stale rerun file before an all-green run; non-trivial = the rerun file lists some but not all scenarios")
LEVEL_TEXT = ("Theorems: the rerun list of any result forest is exactly the scenarios with a has_failed status in run order, it is empty "
              "(file removed) when there are none, a subsequence of the run's scenario ids without duplicates, and - composing with Select.v - feeding the lines of any set of scenarios/rows of a "
              "document with distinct entity lines back selects exactly that set.  Checked against real two-run histories.")
LEVEL_NOTE = "Trusted: Coq kernel, two-run driver."

FAILING = {"failed", "error", "hook_error", "cleanup_error", "undefined", "pending"}


def impl_history(case):
    from behave.configuration import Configuration
    from behave.runner import ModelRunner
    from behave.step_registry import StepRegistry
    from behave.runner_util import parse_features, collect_feature_locations
    from behave.formatter.rerun import RerunFormatter
    from behave.formatter.base import StreamOpener
    from behave.exception import StepNotImplementedError
    from behave.model_core import FileLocation
    tmp = tempfile.mkdtemp(prefix="verif_c17_")
    cwd = os.getcwd()
    try:
        os.makedirs(os.path.join(tmp, "features"))
        for name, text in case["files"].items():
            with open(os.path.join(tmp, "features", name), "w") as fh:
                fh.write(text)
        os.chdir(tmp)
        if case.get("stale"):
            with open("rerun.txt", "w") as fh:
                fh.write("features/F1.feature:3\n")
        hookfail = set(case.get("hookfail", []))

        def run(locations, dry=False):
            ran = []
            reg = StepRegistry()

            def mk(kind):
                def impl(context, n):
                    ran.append("%s:%d" % (os.path.basename(context.scenario.filename), context.scenario.line))
                    if kind == "fail":
                        assert False, "x"
                    if kind == "error":
                        raise RuntimeError("x")
                    if kind == "pending":
                        raise StepNotImplementedError("x")
                    if kind == "skip":
                        context.scenario.skip()
                return impl
            for kind in ("pass", "fail", "error", "pending", "skip"):
                reg.add_step_definition("step", "%s {n:d}" % kind, mk(kind))
            config = Configuration(["--no-color"] + (["--dry-run"] if dry else []), load_config=False)
            config.reporters = []
            with contextlib.redirect_stdout(io.StringIO()):
                features = parse_features(locations)
                runner = ModelRunner(config, features, step_registry=reg)

                def before_scenario(context, scenario):
                    key = "%s:%d" % (os.path.basename(scenario.filename), scenario.line)
                    ran.append("HOOK:" + key)
                    if key in hookfail:
                        raise RuntimeError("hook")
                runner.hooks = {"before_scenario": before_scenario}
                runner.formatters = [RerunFormatter(StreamOpener(filename="rerun.txt"), config)]
                runner.run()
            statuses = [[os.path.basename(f.filename), "%s:%d" % (os.path.basename(f.filename), s.line), s.status.name, s.line]
                        for f in features for s in f.walk_scenarios()]
            return ran, statuses
        locs1 = [FileLocation(os.path.join("features", n)) for n in case["order"]]
        ran1, st1 = run(locs1, dry=bool(case.get("dry_run")))
        exists = os.path.exists("rerun.txt")
        content = open("rerun.txt").read() if exists else None
        res = {"first": st1, "file_exists": exists, "content": content}
        if exists:
            with contextlib.redirect_stdout(io.StringIO()):
                # the rerun file fed back alone, or behind a whole feature file named on the command line
                locs2 = collect_feature_locations(([os.path.join("features", case["whole_first"])] if case.get("whole_first") else [])
                                                  + ["@rerun.txt"])
            ran2, st2 = run(locs2)
            res["second_touched"] = sorted(set(x[5:] if x.startswith("HOOK:") else x for x in ran2))
            res["second"] = st2
        return res
    finally:
        os.chdir(cwd)
        shutil.rmtree(tmp, True)


def oracle(case, obs):
    out = []
    unsuccessful = [(f, n, line) for f, n, s, line in obs["first"] if s in FAILING]
    if not unsuccessful:
        if obs["file_exists"]:
            out.append(("no scenario failed but a rerun file exists (stale=%s): %r" % (case.get("stale"), obs["content"]), "rerun-file-not-removed"))
        return out
    if not obs["file_exists"]:
        return [("scenarios %s were unsuccessful but no rerun file was written" % [u[1] for u in unsuccessful], "rerun-file-missing")]
    listed = [l.strip() for l in obs["content"].splitlines() if l.strip() and not l.strip().startswith("#")]
    want = ["features/%s:%d" % (f, line) for f, n, line in unsuccessful]
    if listed != want:
        missing = [w for w in want if w not in listed]
        sig = "rerun-misses-unsuccessful-scenario" if missing else ("rerun-lists-successful-scenario" if set(listed) - set(want) else "rerun-order")
        out.append(("rerun file lists %s, unsuccessful scenarios are %s" % (listed, want), sig))
        return out
    want_names = sorted(set(n for f, n, line in unsuccessful))
    if case.get("whole_first"):
        # "features/X.feature @rerun.txt": all of X, and of the other files exactly the listed scenarios
        want_names = sorted(set(want_names) | set(n for f, n, s, line in obs["first"] if f == case["whole_first"]))
    if obs["second_touched"] != want_names:
        extra = [x for x in obs["second_touched"] if x not in want_names]
        sig = "feedback-runs-unlisted-scenario" if extra else "feedback-skips-listed-scenario"
        out.append(("second run executed %s, the rerun file lists %s" % (obs["second_touched"], want_names), sig))
    others = [n for f, n, s, line in obs["second"] if n not in want_names and s != "skipped"]
    if others:
        out.append(("second run: unlisted scenarios %s are not skipped" % others, "feedback-unlisted-not-skipped"))
    return out


# ------------------------------------------------------------------ Coq side: rerun list from the model's run, feedback through Select
HEADER = rc.HEADER + "From BV Require Import Summary Select Rerun.\n"


def enc(case, obs):
    """compare the listed scenario ids with rerun_ids of the model's run of the same program"""
    if case.get("hookfail") is None or "prog" not in case:
        return None
    if not obs["file_exists"]:
        listed = []
    else:
        lines = [l.strip() for l in obs["content"].splitlines() if l.strip() and not l.strip().startswith("#")]
        try:
            listed = [rc.name_id(case["linemap"][l[len("features/"):]]) for l in lines]
        except KeyError:
            return None
    return rc.c_program(case["prog"]), clist([cnat(x) for x in listed], "nat")


KINDS = [("pass", 8), ("fail", 2), ("error", 1), ("pending", 1), ("undefined", 1), ("skip", 1)]


# ------------------------------------------------------------------ where the rerun file is written (python -m behave, both runs)
def impl_where(case):
    import subprocess, sys, json
    import common
    top = tempfile.mkdtemp(prefix="verif_c17w_")
    try:
        os.makedirs(os.path.join(top, "features", "steps"))
        with open(os.path.join(top, "features", "a.feature"), "w") as fh:
            fh.write("Feature: A\n  Scenario: ok\n    Given pass\n  Scenario: bad\n    Given fail\n  Scenario: ok2\n    Given pass\n")
        with open(os.path.join(top, "features", "steps", "s.py"), "w") as fh:
            fh.write("from behave import given\n@given('pass')\ndef p(c):\n    pass\n@given('fail')\ndef f(c):\n    assert False\n")
        os.makedirs(os.path.join(top, os.path.dirname(case["out"]) or "."), exist_ok=True)
        env = dict(os.environ, PYTHONPATH=common.REPO, HOME=top)
        subprocess.run([sys.executable, "-m", "behave", "--no-color", "-f", "rerun", "-o", case["out"], "features"], cwd=top, env=env,
                       capture_output=True, text=True, timeout=120)
        try:
            content = open(os.path.join(top, case["out"])).read()
        except OSError:
            return {"content": None}
        p2 = subprocess.run([sys.executable, "-m", "behave", "--no-color", "-f", "json", "-o", "r2.json", "@" + case["out"]], cwd=top, env=env,
                            capture_output=True, text=True, timeout=120)
        try:
            rep = json.load(open(os.path.join(top, "r2.json")))
            ran = sorted(el["name"] for f in rep for el in f.get("elements", []) if el.get("status") not in (None, "skipped", "untested"))
        except Exception:      # noqa
            ran = None
        return {"content": content, "ran": ran, "tail": (p2.stdout + p2.stderr)[-200:]}
    finally:
        shutil.rmtree(top, True)


def oracle_where(case, obs):
    if obs.get("content") is None:
        return [("no rerun file at %s" % case["out"], "rerun-file-missing")]
    if obs.get("ran") != ["bad"]:
        sig = "rerun-file-in-subdirectory-not-fed-back" if os.path.dirname(case["out"]) not in ("", ".") else "feedback-skips-listed-scenario"
        return [("rerun file written to %s and fed back as @%s: the second run executed %s instead of ['bad'] (%s)" % (
            case["out"], case["out"], obs.get("ran"), (obs.get("tail") or "").strip().splitlines()[-1:]), sig)]
    return []


def suites(tier, seed):
    rnd = random.Random(seed * 15485863 % (2 ** 31) + 17)
    n = 700 if tier == "thorough" else 110
    cases = []
    for i in range(n):
        nfiles = rnd.randint(1, 3)
        files, feats, linemap, fnames = {}, [], {}, {}
        dup = (i % 4 == 1)
        eid, sid = rc.Ids(), rc.Ids()
        for k in range(nfiles):
            f = rc.gen_feature(rnd, eid, sid, kinds=KINDS if i % 7 else [("pass", 1)], max_items=3, rule_p=0.4)
            f["tags"] = []
            for it in f["items"]:
                it["tags"] = []
                for x in it.get("items", []):
                    x["tags"] = []
                for ex in it.get("examples", []):
                    ex["tags"] = []
                for x in it.get("items", []):
                    for ex in x.get("examples", []):
                        ex["tags"] = []
            inherited = None
            if i % 4 == 3:
                # a feature or its rules tagged @setup / @teardown: their scenarios only inherit the tag (rendered as t7, renamed below)
                inherited = rnd.choice(["setup", "teardown"])
                if rnd.random() < 0.5 or not any(it["kind"] == "rule" for it in f["items"]):
                    f["tags"] = ["t7"]
                else:
                    for it in f["items"]:
                        if it["kind"] == "rule":
                            it["tags"] = ["t7"]
            runprog.normalize_program({"features": [f]})
            text, info = c10.render_doc(f, rnd)
            if inherited:
                assert "@t7" in text
                text = text.replace("@t7", "@" + inherited)
            # feature file names as projects write them: plain, with a '#' (issue numbers), with a blank
            fname = ["F%d.feature", "F%d.feature", "F%d.feature", "issue#%d.feature", "F%d.feature", "issue %d #x.feature"][i % 6] % f["id"]
            fnames[f["id"]] = fname
            for sc in info["scenarios"]:
                linemap["%s:%d" % (fname, sc["line"])] = sc["name"]
            if dup:
                # valid Gherkin: several scenarios with the same keyword and name (e.g. one per Rule)
                text = re.sub(r"Scenario: S\d+", "Scenario: Same name", text)
            files[fname] = text
            feats.append(f)
        from props.c02 import scenarios_of
        prog = {"features": feats, "cfg": {"dry_run": False, "stop": False, "show_skipped": True, "expr": None,
                                            "hooks": ["before_scenario"], "faults": [], "hook_cleanups": [],
                                            "continue_after_failed": False}}
        names = [nm for nm, _s, _t in scenarios_of(prog)]
        if i % 5 == 2:
            # the first run is a dry run: scenarios with an undefined step end in error, the others untested
            prog["cfg"]["dry_run"] = True
        hooknames = [nm for nm in names if rnd.random() < 0.08] if (i % 7 and i % 5 != 2) else []
        prog["cfg"]["faults"] = [["before_scenario", nm] for nm in hooknames]
        inv = {v: k for k, v in linemap.items()}
        hookfail = [inv[nm] for nm in hooknames if nm in inv]
        whole_first = None
        if len(feats) > 1 and i % 3 == 1 and not prog["cfg"]["dry_run"]:
            whole_first = fnames[feats[rnd.randrange(len(feats))]["id"]]
        cases.append({"whole_first": whole_first, "files": files, "order": [fnames[f["id"]] for f in feats], "hookfail": hookfail, "linemap": linemap, "stale": (i % 7 == 0) or rnd.random() < 0.2, "prog": prog,
                      "dry_run": prog["cfg"]["dry_run"]})
    where = {"name": "rerun_file_location", "cases": [{"out": "rerun.txt"}, {"out": "out/rerun.txt"}, {"out": "./rerun.failing.txt"}],
             "impl": impl_where, "oracle": oracle_where, "exhaustive": True, "nontrivial": lambda c, o: True,
             "bound": "3 places for the rerun file, both runs by python -m behave (oracle only)"}
    return [where, {"name": "histories", "cases": cases, "impl": impl_history, "oracle": oracle,
             "nontrivial": lambda c, o: o["file_exists"] and 0 < len([1 for x in o["first"] if x[2] in FAILING]) < len(o["first"]),
             "bound": "%d two-run histories over 1-3 files" % n,
             "coq": {"header": HEADER, "in_ty": "cfgdata * list feature", "out_ty": "list nat",
                     "fn": "fun c => rerun_ids (fst (fst (fst (run_case c))))", "eqb": "list_eqb Nat.eqb", "enc": enc, "shard": 120}}]
