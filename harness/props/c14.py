"""C14 — summary conservation: every element counted once under its final status."""
from __future__ import annotations
import random, re, io, contextlib
import runcluster as rc
import runprog
from common import clist, cnat, STATUS_NAMES

TRUSTED = [
    "Coq 8.16.1 kernel (coqc, vm_compute); no axioms",
    "harness/gen_more.py: key sets of the reporter's tables, STATUS_ORDER, OPTIONAL_STATUS_PARTS_V1/V2 tabulated from the code",
    "harness/props/c14.py: parsing of the printed summary lines back into numbers",
]
ASSUMPTIONS = [
    "SummaryReporterV2 (not wired to the configuration: SummaryReporter = SummaryReporterV1) is not covered; the collector is driven through its public visitor API",
]
RULE = ("final model of seeded random runs (trees, outcomes, selections, --stop/abort remainders, hook errors, dry-run) through the "
        "reporter (V1 tables, all five format functions) and the collector; runs over features whose scenarios share titles (the failing / "
        "errored lists are about scenarios, not titles); non-trivial = at least two different scenario statuses in the run")
LEVEL_TEXT = ("Theorems: for every result forest whose statuses are in the documented ranges - and run_statuses_in_range proves that "
              "every forest produced by run_model is - the reporter's and the collector's walks raise no KeyError, each per-status "
              "count equals the census, counts add up to the number of elements, the failing/errored lists are exactly the "
              "is_failure / is_error scenarios in run order, and every format prints table counts (non-zero ones always).  "
              "Compared with the real reporter/collector on real runs; oracle takes the census from the model objects.")
LEVEL_NOTE = "Trusted: Coq kernel, generated tables, line parser. SummaryReporterV2 is dead code (known finding)."

FORMATS = ["v1", "v1A", "v1B", "v2", "v3"]


def impl_summary(prog):
    from behave.reporter.summary import SummaryReporterV1, select_format_summary_by_name
    from behave.summary import SummaryCollector
    holder = {}

    def reporters(config):
        holder["rep"] = SummaryReporterV1(config)
        holder["rep"].stream = io.StringIO()
        return [holder["rep"]]
    obs = runprog.run_program(prog, reporters=reporters, want_model=True)
    features = obs.pop("_features"); obs.pop("_runner"); obs.pop("_config")
    rep = holder["rep"]
    out = {"tree": obs["tree"], "failed": obs["failed"], "crashed": obs["crashed"], "log": obs["log"], "aborted": obs["aborted"]}
    out["tables"] = {k: dict(getattr(rep, k + "_summary")) for k in ("feature", "rule", "scenario", "step")}
    out["failing"] = [s.name for s in rep.failed_scenarios]
    out["errored"] = [s.name for s in rep.errored_scenarios]
    out["lines"] = {}
    for fmt in FORMATS:
        fn = select_format_summary_by_name(fmt)
        try:
            out["lines"][fmt] = {k: fn(k, getattr(rep, k + "_summary")) for k in ("feature", "rule", "scenario", "step")}
        except Exception as e:      # noqa
            out["lines"][fmt] = {"EXC": "%s: %s" % (type(e).__name__, e)}
    out["printed"] = rep.stream.getvalue()
    try:
        col = SummaryCollector()
        col.visit_many(features)
        out["collector"] = {"tables": {k: getattr(col.summary_counts, k).as_dict() for k in ("features", "rules", "scenarios", "steps")},
                            "failing": [s.name for s in col.failed_scenarios],
                            "errored": [s.name for s in col.errored_scenarios]}
    except Exception as e:          # noqa
        out["collector"] = {"EXC": "%s: %s" % (type(e).__name__, e)}
    # the collector alone, on the model exactly as a run without any reporter left it (outlines that were never reached
    # have not been expanded by anybody yet)
    def collect_first(runner, feats):
        try:
            c2 = SummaryCollector()
            c2.visit_many(feats)
            return {"tables": {k: getattr(c2.summary_counts, k).as_dict() for k in ("features", "rules", "scenarios", "steps")},
                    "failing": [s.name for s in c2.failed_scenarios], "errored": [s.name for s in c2.errored_scenarios]}
        except Exception as e:      # noqa
            return {"EXC": "%s: %s" % (type(e).__name__, e)}
    out["collector_alone"] = runprog.run_program(prog, after_run=collect_first)["after_run"]
    # census straight from the model objects
    cen = {"feature": {}, "rule": {}, "scenario": {}, "step": {}}
    order = []

    def bump(kind, status):
        cen[kind][status] = cen[kind].get(status, 0) + 1

    def scen(sc):
        bump("scenario", sc.status.name)
        order.append((sc.name, sc.status.name))
        for st in sc.all_steps:
            bump("step", st.status.name)
    from behave.model import ScenarioOutline, Rule
    for f in features:
        bump("feature", f.status.name)
        for it in f.run_items:
            if isinstance(it, Rule):
                bump("rule", it.status.name)
                subs = it.run_items
            else:
                subs = [it]
            for x in subs:
                if isinstance(x, ScenarioOutline):
                    for r in x.scenarios:
                        scen(r)
                else:
                    scen(x)
    out["census"] = cen
    out["order"] = order
    return out


ERR = {"error", "hook_error", "cleanup_error", "undefined", "pending"}


def parse_line(fmt, text):
    """-> (total or None, {status: count})"""
    text = text.strip()
    parts = {}
    total = None
    if fmt in ("v2", "v3"):
        m = re.match(r"\s*(\d+)\s+\S+\s*\((.*)\)$", text)
        if not m:
            return None
        total = int(m.group(1))
        for name, val in re.findall(r"(\w+): (\d+)", m.group(2)):
            parts[name] = int(val)
        return total, parts
    pieces = [p.strip() for p in text.split(",") if p.strip()]
    for i, p in enumerate(pieces):
        m = re.match(r"^(\d+) (\w[\w.]*?)s? passed$", p)
        if m and (fmt in ("v1", "v1B")) and not re.match(r"^(\d+) passed$", p):
            if fmt == "v1B":
                total = int(m.group(1))
            parts["passed"] = int(m.group(1))
            continue
        m = re.match(r"^(\d+) (\w+)$", p)
        if m and m.group(2) in STATUS_NAMES:
            parts[m.group(2)] = int(m.group(1))
            continue
        m = re.match(r"^(\d+) \S+$", p)
        if m and i == 0 and fmt == "v1A":
            total = int(m.group(1))
            continue
        return None
    return total, parts


def oracle(prog, obs):
    out = []
    if obs.get("crashed"):
        return [("run crashed: %s" % obs["crashed"], "run-crashed")]
    cen = obs["census"]
    kinds = ("feature", "rule", "scenario", "step")
    for k in kinds:
        n = sum(cen[k].values())
        tab = {s: c for s, c in obs["tables"][k].items() if s != "all"}
        if sum(tab.values()) != n:
            out.append(("reporter: %s counts add up to %d, the model has %d" % (k, sum(tab.values()), n), "conservation:%s" % k))
        for s in set(tab) | set(cen[k]):
            if tab.get(s, 0) != cen[k].get(s, 0):
                out.append(("reporter: %d %ss counted as %s, the model has %d" % (tab.get(s, 0), k, s, cen[k].get(s, 0)), "count:%s" % k))
                break
    # what the run itself printed: one line per kind that has elements (the rules line whenever there is a rule, even a single one)
    printed = obs.get("printed") or ""
    for k in kinds:
        n = sum(cen[k].values())
        has_line = re.search(r"^\s*\d+ %ss? " % k, printed, re.M) is not None
        if n > 0 and not has_line:
            out.append(("the printed summary has no %s line although the model has %d %s(s): %r" % (k, n, k, printed[-300:]),
                        "printed-line-missing:%s" % k))
    want_fail = [n for n, s in obs["order"] if s == "failed"]
    want_err = [n for n, s in obs["order"] if s in ERR]
    if obs["failing"] != want_fail:
        out.append(("reporter lists failing scenarios %s, failed ones are %s" % (obs["failing"], want_fail), "failing-list"))
    if obs["errored"] != want_err:
        out.append(("reporter lists errored scenarios %s, error-class ones are %s" % (obs["errored"], want_err), "errored-list"))
    for label, col in (("collector", obs["collector"]), ("collector (first reader of the model after the run)", obs.get("collector_alone"))):
        if col is None:
            continue
        if "EXC" in col:
            out.append(("%s raised %s" % (label, col["EXC"]), "collector-exception"))
        else:
            for k in kinds:
                tab = col["tables"][k + "s"]
                n = sum(cen[k].values())
                if sum(tab.values()) != n or any(tab.get(s, 0) != cen[k].get(s, 0) for s in set(tab) | set(cen[k])):
                    out.append(("%s: %s counts %s, census %s" % (label, k, {s: c for s, c in tab.items() if c}, cen[k]), "collector-count:%s" % k))
            if col["failing"] != want_fail:
                out.append(("%s lists failing scenarios %s, failed ones are %s" % (label, col["failing"], want_fail), "collector-failing-list"))
            if col["errored"] != want_err:
                out.append(("%s lists errored scenarios %s, error-class ones are %s" % (label, col["errored"], want_err), "collector-errored-list"))
    for fmt in FORMATS:
        lines = obs["lines"][fmt]
        if "EXC" in lines:
            out.append(("format %s raised %s" % (fmt, lines["EXC"]), "format-exception:%s" % fmt))
            continue
        for k in kinds:
            parsed = parse_line(fmt, lines[k])
            if parsed is None:
                out.append(("format %s: cannot read %r" % (fmt, lines[k]), "format-unreadable:%s" % fmt))
                continue
            total, parts = parsed
            n = sum(cen[k].values())
            for s, c in parts.items():
                if c != cen[k].get(s, 0):
                    out.append(("format %s prints %d %s %s(s), the model has %d" % (fmt, c, s, k, cen[k].get(s, 0)), "format-number:%s" % fmt))
            for s, c in cen[k].items():
                if c and s not in parts:
                    out.append(("format %s does not print the %d %s %s(s)" % (fmt, c, s, k), "format-missing:%s" % fmt))
            if total is not None:
                want = cen[k].get("passed", 0) if fmt == "v1B" else n
                if total != want:
                    out.append(("format %s prints leading total %d for %ss, expected %d" % (fmt, total, k, want), "format-total:%s" % fmt))
    return out


def nontrivial(prog, obs):
    return len(obs.get("census", {}).get("scenario", {})) >= 2


# ------------------------------------------------------------------ Coq side
HEADER = rc.HEADER + """From BV Require Import Summary.
From BVGen Require Import SummaryTables.
Definition table_eqb : table -> table -> bool := list_eqb (pair_eqb status_eqb Nat.eqb).
Definition sumobs := (option (table * table * table * table * list nat * list nat))%type.
Definition sumobs_eqb (a b : sumobs) : bool :=
  match a, b with
  | None, None => true
  | Some (f1, r1, s1, t1, x1, y1), Some (f2, r2, s2, t2, x2, y2) =>
      table_eqb f1 f2 && table_eqb r1 r2 && table_eqb s1 s2 && table_eqb t1 t2
      && list_eqb Nat.eqb x1 x2 && list_eqb Nat.eqb y1 y2
  | _, _ => false
  end.
Definition obs_of (o : option summary) : sumobs :=
  match o with
  | Some sm => Some (sm_features sm, sm_rules sm, sm_scenarios sm, sm_steps sm, sm_failing sm, sm_errored sm)
  | None => None
  end.
Definition numbers_eqb (a b : option nat * list (status * nat)) : bool :=
  option_eqb Nat.eqb (fst a) (fst b) && list_eqb (pair_eqb status_eqb Nat.eqb) (snd a) (snd b).
Definition run_summaries (c : cfgdata * list feature) :=
  let rs := fst (fst (fst (run_case c))) in
  let rep := reporter_summary rs in
  (obs_of rep, obs_of (collector_summary rs),
   match rep with
   | Some sm => map (fun f => map (format_numbers f) [sm_features sm; sm_rules sm; sm_scenarios sm; sm_steps sm]) [FV1; FV1A; FV1B; FV2; FV3]
   | None => []
   end).
Definition out_eqb (a b : sumobs * sumobs * list (list (option nat * list (status * nat)))) : bool :=
  let '(a1, a2, a3) := a in let '(b1, b2, b3) := b in
  sumobs_eqb a1 b1 && sumobs_eqb a2 b2 && list_eqb (list_eqb numbers_eqb) a3 b3.
"""
ORDER = ["passed", "failed", "error", "hook_error", "skipped", "pending", "pending_warn", "undefined", "untested",
         "untested_pending", "untested_undefined"]


def c_table(d, keys=None):
    items = [(k, v) for k, v in d.items() if k != "all"]
    return clist(["(%s, %s)" % (k, cnat(v)) for k, v in items], "status * nat")


def c_sumobs(tables, failing, errored, plural=False):
    ks = ["features", "rules", "scenarios", "steps"] if plural else ["feature", "rule", "scenario", "step"]
    return "(Some (%s, %s, %s, %s, %s, %s))" % (
        c_table(tables[ks[0]]), c_table(tables[ks[1]]), c_table(tables[ks[2]]), c_table(tables[ks[3]]),
        clist([cnat(rc.name_id(n)) for n in failing], "nat"), clist([cnat(rc.name_id(n)) for n in errored], "nat"))


def enc(prog, obs):
    if obs.get("crashed") or "EXC" in obs["collector"]:
        return None
    nums = []
    for fmt in FORMATS:
        lines = obs["lines"][fmt]
        if "EXC" in lines:
            return None
        row = []
        for k in ("feature", "rule", "scenario", "step"):
            parsed = parse_line(fmt, lines[k])
            if parsed is None:
                return None
            total, parts = parsed
            # printed order is STATUS_ORDER
            plist = [(s, parts[s]) for s in ORDER if s in parts and not (fmt == "v1B" and s == "passed")]
            row.append("(%s, %s)" % ("(@None nat)" if total is None else "(Some %s)" % cnat(total),
                                     clist(["(%s, %s)" % (s, cnat(c)) for s, c in plist], "status * nat")))
        nums.append(clist(row, "option nat * list (status * nat)"))
    o = "(%s, %s, %s)" % (c_sumobs(obs["tables"], obs["failing"], obs["errored"]),
                          c_sumobs(obs["collector"]["tables"], obs["collector"]["failing"], obs["collector"]["errored"], plural=True),
                          clist(nums, "list (option nat * list (status * nat))"))
    return rc.c_program(prog), o


def impl_v2(case):
    from behave.configuration import Configuration
    from behave.reporter.summary import SummaryReporterV2
    from behave.parser import parse_feature
    config = Configuration(["--no-color"], load_config=False)
    rep = SummaryReporterV2(config)
    rep.stream = io.StringIO()
    f = parse_feature("Feature: F\n  Scenario: S\n    Given a step\n", filename="x.feature")
    try:
        rep.feature(f)
        rep.end()
        return {"ok": True, "text": rep.stream.getvalue()}
    except Exception as e:      # noqa
        return {"ok": False, "exc": "%s: %s" % (type(e).__name__, e)}


def oracle_v2(case, obs):
    if not obs["ok"]:
        return [("SummaryReporterV2.end() raised %s" % obs["exc"], "summary-reporter-v2-unusable")]
    return []


def impl_titles(case):
    """features whose scenarios share titles (within a feature under different rules, and across features): the
    failing / errored lists are about scenarios, not about titles"""
    from behave.configuration import Configuration
    from behave.runner import ModelRunner
    from behave.step_registry import StepRegistry
    from behave.parser import parse_feature
    from behave.reporter.summary import SummaryReporterV1
    from behave.summary import SummaryCollector
    registry = StepRegistry()

    def impl(context, kind):
        if kind == "fail":
            assert False, "no"
        if kind == "error":
            raise RuntimeError("boom")
    registry.add_step_definition("given", "it does {kind}", impl)
    features = []
    for fi, scens in enumerate(case["features"]):
        lines = ["Feature: F%d" % fi]
        in_rule = False
        for (title, kind, rule) in scens:
            if rule and not in_rule:
                lines.append("  Rule: R%d" % fi)
                in_rule = True
            lines.append("    Scenario: %s" % title)
            lines.append("      Given it does %s" % kind)
        features.append(parse_feature("\n".join(lines) + "\n", filename="f%d.feature" % fi))
    config = Configuration(["--no-color"], load_config=False)
    rep = SummaryReporterV1(config)
    rep.stream = io.StringIO()
    config.reporters = [rep]
    runner = ModelRunner(config, features, step_registry=registry)
    with contextlib.redirect_stdout(io.StringIO()):
        runner.run()
    loc = lambda sc: "%s:%d" % (sc.filename, sc.line)
    census = [(loc(sc), sc.status.name) for f in features for sc in f.walk_scenarios()]
    col = SummaryCollector()
    col.visit_many(features)
    return {"failing": [loc(x) for x in rep.failed_scenarios], "errored": [loc(x) for x in rep.errored_scenarios],
            "collector_failing": [loc(x) for x in col.failed_scenarios], "collector_errored": [loc(x) for x in col.errored_scenarios],
            "census": census, "printed": rep.stream.getvalue(),
            "scenario_table": {k: v for k, v in rep.scenario_summary.items() if v}}


def oracle_titles(case, obs):
    out = []
    want_fail = [l for l, st in obs["census"] if st == "failed"]
    want_err = [l for l, st in obs["census"] if st in ERR]
    for who, fk, ek in (("reporter", "failing", "errored"), ("collector", "collector_failing", "collector_errored")):
        if obs[fk] != want_fail:
            out.append(("%s lists failing scenarios %s, the failed ones are %s" % (who, obs[fk], want_fail), "%s-failing-list-same-titles" % who))
        if obs[ek] != want_err:
            out.append(("%s lists errored scenarios %s, the error-class ones are %s" % (who, obs[ek], want_err), "%s-errored-list-same-titles" % who))
    for l in want_fail + want_err:
        if l not in obs["printed"]:
            out.append(("the printed summary does not mention the unsuccessful scenario at %s" % l, "printed-list-same-titles"))
            break
    return out


def suites(tier, seed):
    rnd = random.Random(seed * 69069 + 14)
    tcases = []
    for _ in range(300 if tier == "thorough" else 60):
        feats = []
        for _f in range(rnd.randint(1, 3)):
            n = rnd.randint(1, 5)
            k = rnd.randint(0, n)
            feats.append([(rnd.choice(["Checkout works", "Login", "X"]), rnd.choice(["pass", "fail", "fail", "error"]), i >= k)
                          for i in range(n)])
        tcases.append({"features": feats})
    titles = {"name": "same_titles", "cases": tcases, "impl": impl_titles, "oracle": oracle_titles,
              "nontrivial": lambda c, o: len(o["census"]) > len(set(t for f in c["features"] for (t, _k, _r) in f)),
              "bound": "%d runs over features whose scenarios share titles within and across features" % len(tcases)}
    n = 4000 if tier == "thorough" else 700
    cases = []
    for i in range(n):
        p = rc.gen_program(rnd)
        if i % 2:
            p = rc.with_random_faults(rnd, p, p_fault=0.6)
        cases.append(p)
    v2 = {"name": "reporter_v2", "cases": [{"n": 1}, {"n": 2}], "impl": impl_v2, "oracle": oracle_v2,
          "bound": "the unwired SummaryReporterV2 class on a one-scenario feature"}
    return [v2, titles, {"name": "summaries", "cases": cases, "impl": impl_summary, "oracle": oracle, "nontrivial": nontrivial,
             "histogram": rc.histogram, "shrink": rc.shrink_program,
             "bound": "%d seeded random runs x {reporter tables, collector, 5 formats x 4 kinds}" % n,
             "coq": {"header": HEADER, "in_ty": "cfgdata * list feature",
                     "out_ty": "sumobs * sumobs * list (list (option nat * list (status * nat)))",
                     "fn": "run_summaries", "eqb": "out_eqb", "enc": enc, "shard": 120}}]
