"""C16 — JUnit reports are well-formed XML with counters that match their test cases."""
from __future__ import annotations
import os, random, re, io
import runcluster as rc
import runprog
from common import clist, cbool, cstr, cnat, STATUS_NAMES

TRUSTED = [
    "Coq 8.16.1 kernel (coqc, vm_compute); no axioms",
    "xml.etree.ElementTree serialises the element tree (tags, nesting, attribute quoting); its attribute/text escaping is tabulated per "
    "character by harness/gen_more.py gen_junit, as are the reporter's invalid-character ranges and the status tuples of _process_scenario",
    "the oracle's XML well-formedness verdict is expat's (xml.etree.ElementTree.fromstring) plus an XML 1.0 Char scan of the file",
]
ASSUMPTIONS = [
    "test-case text sections are compared with the model for behave.reporter.junit.show_scenarios=false (the scenario description contains "
    "timings); with descriptions on, the oracle still checks well-formedness, counters and entries",
    "strings are surrogate-free; ANSI escapes use ASCII digits",
]
RULE = ("seeded random runs of the C01-C03 program family (trees with rules, outlines, backgrounds; pass/fail/error/pending/undefined/skip/abort/"
        "cleanup steps; hook faults at every site; tag selections; --stop; dry-run) with feature, scenario and step names, exception messages and "
        "captured stdout/stderr drawn from a hostile alphabet (XML metacharacters, quotes, ']]>', C0/C1 controls, U+FFFE/U+FFFF, astral "
        "noncharacters, ANSI escapes, CR/TAB), show_skipped on/off, junit userdata switches on/off")
LEVEL_TEXT = ("Theorems over JUnit.v: for every scenario list and show_skipped flag the report's tests/errors/failures/skipped counters equal "
              "the numbers of test cases / error / failure / skipped entries; every scenario whose status is a failure or error carries a "
              "failure or error entry and is a test case; attribute texts contain only XML Chars and no raw '<', '&', '\"' (AttValue grammar); "
              "CDATA texts contain only XML Chars and never ']]>'.  Model compared with the files JUnitReporter writes for real runs; the "
              "oracle parses every file with expat.")
LEVEL_NOTE = "Trusted: Coq kernel, ElementTree's serialiser, generated tables."
EXHAUSTIVE = False

HOSTILE = ["<", ">", "&", "\"", "'", "]]>", "]]", "]", "\x01", "\x08", "\x7f", "\x80", "\x9f", "￾", "￿", "\U0001fffe", "\U0010ffff",
           "\x1b[31m", "\x1b[0m", "\x1b[", "\t", "é", "日本", "&amp;", "<![CDATA[", "-->", "<?", " ", "U+0001"]
NAME_HOSTILE = [h for h in HOSTILE if h not in ("\t",)]      # a tab inside a name is not preserved by the Gherkin parser (strip): keep names mid-line safe


def noise_text(rnd, pool, lo=1, hi=4):
    return "".join(rnd.choice(pool + ["a", "b ", "x"]) for _ in range(rnd.randint(lo, hi))).strip() or "x"


# ---------------------------------------------------------------- implementation
CASE_RX = re.compile(r'<testcase classname="([^"]*)" name="([^"]*)" status="([^"]*)"', re.S)


# characters the reporter documents as replaced by U+<number> (control characters and noncharacters)
REPLACED = re.compile("[\x00-\x08\x0b-\x1f\x7f-\x84\x86-\x9f\ufdd0-\ufddf\ufffe\uffff" + "".join(
    chr(p * 0x10000 + 0xfffe) + chr(p * 0x10000 + 0xffff) for p in range(1, 17)) + "]")


def xml_char_ok(ch):
    c = ord(ch)
    return c in (9, 10, 13) or 0x20 <= c <= 0xD7FF or 0xE000 <= c <= 0xFFFD or 0x10000 <= c <= 0x10FFFF


def impl_junit(case):
    import tempfile, shutil
    from xml.etree import ElementTree
    from behave.reporter.junit import JUnitReporter
    top = tempfile.mkdtemp(prefix="c16_")
    prog = case["prog"]

    holder = {}

    def reporters(config):
        config.junit_directory = top
        config.junit = True
        holder["rep"] = JUnitReporter(config)
        return [holder["rep"]]
    try:
        obs = runprog.run_program(prog, reporters=reporters, want_model=True)
        features = obs.pop("_features")
        obs.pop("_runner")
        config = obs.pop("_config")
        out = {"crashed": obs["crashed"], "failed": obs["failed"], "features": []}
        from behave.model import ScenarioOutline, Rule

        def scen(sc):
            return {"name": sc.name, "status": sc.status.name, "steps": [s.status.name for s in sc.all_steps],
                    "stdout": sc.captured.stdout or "", "stderr": sc.captured.stderr or "",
                    "step_names": [s.name for s in sc.all_steps], "hook_failed": bool(sc.hook_failed),
                    "error_message": sc.error_message}

        def scens_of(parent):
            res = []
            for it in parent.run_items:
                if isinstance(it, Rule):
                    res += scens_of(it)
                elif isinstance(it, ScenarioOutline):
                    res += [scen(s) for s in it.scenarios]
                else:
                    res.append(scen(it))
            return res
        files = sorted(os.listdir(top))
        for f in features:
            fo = {"name": f.name, "status": f.status.name, "scenarios": scens_of(f), "file": None}
            base = "TESTS-%s.xml" % os.path.splitext(os.path.basename(f.filename))[0]
            if base in files:
                raw = open(os.path.join(top, base), "rb").read()
                try:
                    text = raw.decode("utf-8")
                except UnicodeDecodeError as e:
                    fo["file"] = {"wellformed": False, "why": "not UTF-8: %s" % e}
                    out["features"].append(fo)
                    continue
                info = {"wellformed": True, "why": ""}
                bad = [hex(ord(ch)) for ch in text if not xml_char_ok(ch)]
                if bad:
                    info = {"wellformed": False, "why": "characters outside the XML Char production: %s" % bad[:5]}
                try:
                    root = ElementTree.fromstring(raw)
                except ElementTree.ParseError as e:
                    info = {"wellformed": False, "why": "expat: %s" % e}
                    root = None
                if root is not None:
                    info["suite"] = {k: root.get(k) for k in ("name", "tests", "errors", "failures", "skipped")}
                    cases = []
                    for tc in root.findall("testcase"):
                        kids = []
                        for ch in tc:
                            if ch.tag in ("error", "failure", "skipped"):
                                kids.append([ch.tag, ch.get("type"), ch.get("message"), (ch.text or "")[:300]])
                        so = tc.find("system-out")
                        se = tc.find("system-err")
                        cases.append({"name": tc.get("name"), "status": tc.get("status"), "children": kids,
                                      "out": so.text if so is not None else None, "err": se.text if se is not None else None})
                    info["cases"] = cases
                    info["raw_names"] = [m.group(2) for m in CASE_RX.finditer(text)]
                    info["raw_out"] = re.findall(r"<system-out>\s*<!\[CDATA\[(.*?)\]\]>\s*</system-out>", text, re.S)
                    info["raw_err"] = re.findall(r"<system-err>\s*<!\[CDATA\[(.*?)\]\]>\s*</system-err>", text, re.S)
                fo["file"] = info
            out["features"].append(fo)
        out["show_skipped"] = bool(holder["rep"].show_skipped)
        return out
    finally:
        shutil.rmtree(top, ignore_errors=True)


# ---------------------------------------------------------------- oracle
def oracle(case, obs):
    out = []
    if obs["crashed"]:
        out.append(("the run is aborted by %s while the JUnit reporter is on" % obs["crashed"], "junit-crash:" + obs["crashed"].split(":")[0]))
        return out
    show_skipped = obs["show_skipped"]
    for f in obs["features"]:
        info = f["file"]
        reported = f["status"] != "skipped" or show_skipped
        if info is None:
            if reported:
                out.append(("feature %r (%s) has no report file" % (f["name"], f["status"]), "report-missing"))
            continue
        if not info["wellformed"]:
            out.append(("report of feature %r is not well-formed XML: %s" % (f["name"], info["why"]), "not-wellformed"))
            continue
        cases = info["cases"]
        s = info["suite"]
        n = {"tests": len(cases), "errors": sum(1 for c in cases for k in c["children"] if k[0] == "error"),
             "failures": sum(1 for c in cases for k in c["children"] if k[0] == "failure"),
             "skipped": sum(1 for c in cases for k in c["children"] if k[0] == "skipped")}
        for k, v in n.items():
            if s[k] != str(v):
                out.append(("feature %r: counter %s=%s but the report has %d such entries" % (f["name"], k, s[k], v), "counter-mismatch:" + k))
        want = [sc for sc in f["scenarios"] if sc["status"] != "skipped" or show_skipped]
        if [c["name"] for c in cases] != [REPLACED.sub(lambda m: "U+%04d" % ord(m.group()), sc["name"]) for sc in want]:
            out.append(("feature %r: test cases %r, scenarios to report %r" % (f["name"], [c["name"] for c in cases], [sc["name"] for sc in want]),
                        "testcases-differ"))
            continue
        if len(cases) != len(want):
            out.append(("feature %r: %d test cases for %d scenarios to report" % (f["name"], len(cases), len(want)), "testcases-differ"))
            continue
        for c, sc in zip(cases, want):
            if c["status"] != sc["status"]:
                out.append(("test case %r has status %s, the scenario ended %s" % (c["name"], c["status"], sc["status"]), "testcase-status"))
            bad = sc["status"] in ("failed", "error", "hook_error", "cleanup_error", "undefined", "pending")
            kinds = [k[0] for k in c["children"]]
            if bad and not ("failure" in kinds or "error" in kinds):
                out.append(("scenario %r ended %s but its test case has no failure/error entry" % (sc["name"], sc["status"]), "problem-entry-missing"))
            elif bad:
                k = [x for x in c["children"] if x[0] in ("failure", "error")][0]
                blame_steps = [nm for nm, st in zip(sc["step_names"], sc["steps"]) if st in ("failed", "error", "hook_error", "undefined", "pending")]
                text = (k[2] or "") + "\n" + (k[3] or "")
                names_step = any(nm.split(runprog.SEP)[0] in text for nm in blame_steps)
                names_hook = any(h in text for h in ("HOOK-ERROR", "before_", "after_", "CLEANUP", "cleanup"))
                if blame_steps and not (names_step or names_hook):
                    out.append(("scenario %r ended %s: the %s entry names neither the failing step %r nor a hook (message %r)" % (
                        sc["name"], sc["status"], k[0], blame_steps[0], k[2]), "problem-entry-does-not-name-step"))
                elif not blame_steps and not names_hook:
                    out.append(("scenario %r ended %s without a failing step: the %s entry (type %r, message %r) names no hook or cleanup" % (
                        sc["name"], sc["status"], k[0], k[1], k[2]), "problem-entry-does-not-name-hook"))
    return out


# ---------------------------------------------------------------- Coq encoding
HEADER = "From BV Require Import Base UStr Status JUnit.\n"


def enc(case, obs):
    """one feature per Coq case; only with show_scenarios off (texts are comparable) and well-formed files"""
    if obs["crashed"] or not case["plain_text"]:
        return None
    items = []
    for f in obs["features"]:
        info = f["file"]
        if info is None or not info["wellformed"]:
            continue
        scens = clist(["(mkJ %s %s %s %s %s)" % (cstr(sc["name"]), sc["status"], clist(sc["steps"], "status"), cstr(sc["stdout"]), cstr(sc["stderr"]))
                       for sc in f["scenarios"]], "jscen")
        s = info["suite"]
        if len(info["raw_names"]) != len(info["cases"]) or len(info["raw_out"]) != len(info["cases"]):
            return None
        errs = iter(info["raw_err"])
        tcs = []
        for c, rn, ro in zip(info["cases"], info["raw_names"], info["raw_out"]):
            kinds = []
            for k in c["children"]:
                if k[0] == "error":
                    kinds.append("CError")
                elif k[0] == "skipped":
                    kinds.append("CSkipped")
                elif k[1] == "undefined" and (k[2] or "").startswith("Undefined Step:"):
                    kinds.append("CUndefinedFailure")
                else:
                    kinds.append("CFailure")
            err = "None"
            if c["err"] is not None:
                err = "(Some %s)" % cstr(next(errs))
            tcs.append("(mkTC %s %s %s %s %s)" % (cstr(rn), c["status"], clist(kinds, "child"), cstr(ro), err))
        items.append("(%s, %s, (mkCounts %s %s %s %s, %s))" % (cbool(obs["show_skipped"]), scens, cnat(int(s["tests"])), cnat(int(s["errors"])),
                                                               cnat(int(s["failures"])), cnat(int(s["skipped"])), clist(tcs, "tcase")))
    if not items:
        return None
    return clist(items, "bool * list jscen * (counts * list tcase)"), "true"


EQB = """
Definition child_eqb (a b : child) : bool :=
  match a, b with CError, CError | CFailure, CFailure | CUndefinedFailure, CUndefinedFailure | CSkipped, CSkipped => true | _, _ => false end.
Definition tcase_eqb (a b : tcase) : bool :=
  ustr_eqb (tc_name a) (tc_name b) && status_eqb (tc_status a) (tc_status b) && list_eqb child_eqb (tc_children a) (tc_children b) &&
  ustr_eqb (tc_out a) (tc_out b) && option_eqb ustr_eqb (tc_err a) (tc_err b).
Definition counts_eqb (a b : counts) : bool :=
  Nat.eqb (n_tests a) (n_tests b) && Nat.eqb (n_errors a) (n_errors b) && Nat.eqb (n_failed a) (n_failed b) && Nat.eqb (n_skipped a) (n_skipped b).
Definition feature_agrees (x : bool * list jscen * (counts * list tcase)) : bool :=
  let '(show, scens, (c, tcs)) := x in
  let '(c', tcs') := report show scens in counts_eqb c c' && list_eqb tcase_eqb tcs tcs'.
"""


# ---------------------------------------------------------------- escaping, unit level
def impl_escape(case):
    from xml.etree import ElementTree
    from behave.reporter import junit
    text = case["text"]
    root = ElementTree.Element("r")
    esc = getattr(junit, "escape_attribute", lambda t: t)
    root.set("a", esc(text))
    root.append(junit.CDATA(text))
    buf = io.BytesIO()
    junit.ElementTreeWithCDATA(root).write(buf, "UTF-8")
    raw = buf.getvalue()
    try:
        doc = raw.decode("utf-8")
    except UnicodeDecodeError:
        return {"wellformed": False, "why": "not UTF-8", "attr": None, "cdata": None}
    m = re.search(r'<r a="([^"]*)">\s*<!\[CDATA\[(.*)\]\]>\s*</r>', doc, re.S)
    res = {"attr": m.group(1) if m else None, "cdata": m.group(2) if m else None, "wellformed": True, "why": ""}
    bad = [hex(ord(ch)) for ch in doc if not xml_char_ok(ch)]
    if bad:
        res.update(wellformed=False, why="characters outside the XML Char production: %s" % bad[:5])
    try:
        ElementTree.fromstring(raw)
    except ElementTree.ParseError as e:
        res.update(wellformed=False, why="expat: %s" % e)
    return res


def oracle_escape(case, obs):
    if not obs["wellformed"]:
        return [("a document with attribute and CDATA text %r is not well-formed: %s" % (case["text"], obs["why"]), "not-wellformed")]
    return []


def enc_escape(case, obs):
    if obs["attr"] is None:
        return None
    return cstr(case["text"]), "(%s, %s)" % (cstr(obs["attr"]), cstr(obs["cdata"]))


# ---------------------------------------------------------------- generators
def gen_case(rnd, plain_text):
    prog = rc.gen_program(rnd)
    if rnd.random() < 0.7:
        prog = rc.with_random_faults(rnd, prog)
    cfg = prog["cfg"]
    cfg["show_skipped"] = rnd.random() < 0.5
    noise = {}
    if rnd.random() < 0.8:
        noise["scenario"] = noise_text(rnd, NAME_HOSTILE)
    if rnd.random() < 0.5:
        noise["feature"] = noise_text(rnd, NAME_HOSTILE)
    if rnd.random() < 0.4:
        noise["step"] = noise_text(rnd, [h for h in NAME_HOSTILE if h not in ("\x1b[", )])
    if rnd.random() < 0.7:
        noise["message"] = " " + noise_text(rnd, HOSTILE, 1, 5)
    if rnd.random() < 0.6:
        noise["stdout"] = noise_text(rnd, HOSTILE + ["\n", "\r"], 1, 6)
    if rnd.random() < 0.3:
        noise["stderr"] = noise_text(rnd, HOSTILE + ["\n"], 1, 4)
    cfg["noise"] = noise
    args = []
    if plain_text:
        args += ["-D", "behave.reporter.junit.show_scenarios=false"]
    else:
        for sw in ("show_tags", "show_multiline", "show_timings", "show_hostname", "show_timestamp"):
            if rnd.random() < 0.3:
                args += ["-D", "behave.reporter.junit.%s=false" % sw]
    if rnd.random() < 0.15:
        args += ["-D", "behave.reporter.junit.show_skipped_always=true"]
    cfg["args"] = args
    return {"prog": prog, "plain_text": plain_text}


def histogram(cases, obs=None):
    h = {"scenario_statuses": {}, "features_reported": 0, "with_hook_faults": 0, "noise_fields": {}}
    for c in cases:
        h["with_hook_faults"] += bool(c["prog"]["cfg"].get("faults"))
        for k in (c["prog"]["cfg"].get("noise") or {}):
            h["noise_fields"][k] = h["noise_fields"].get(k, 0) + 1
    for o in obs or []:
        if isinstance(o, dict) and "features" in o:
            for f in o["features"]:
                h["features_reported"] += f["file"] is not None
                for sc in f["scenarios"]:
                    h["scenario_statuses"][sc["status"]] = h["scenario_statuses"].get(sc["status"], 0) + 1
    return h


def shrink(case):
    for p in rc.shrink_program(case["prog"]):
        yield dict(case, prog=p)
    noise = case["prog"]["cfg"].get("noise") or {}
    for k in list(noise):
        n2 = dict(noise)
        del n2[k]
        p = dict(case["prog"], cfg=dict(case["prog"]["cfg"], noise=n2))
        yield dict(case, prog=p)


def suites(tier, seed):
    import itertools
    rnd = random.Random(seed * 97 + 16)
    thorough = tier == "thorough"
    cases = [gen_case(rnd, plain_text=(i % 3 != 2)) for i in range(2500 if thorough else 500)]
    for i, c in enumerate(cases):
        if i % 4 == 1:
            # feature files whose names contain further dots: the report is named after everything before the extension, one per feature
            c["prog"]["cfg"]["file_infix"] = [".part", ".v1", ".x.y"][i % 3]
    runs = {"name": "reports", "cases": cases, "impl": impl_junit, "oracle": oracle, "shrink": shrink, "histogram": histogram,
            "nontrivial": lambda c, o: any(f["file"] and f["file"].get("cases") for f in o["features"]),
            "bound": "%d runs with hostile names, messages and captured output" % len(cases),
            "coq": {"header": HEADER + EQB, "in_ty": "list (bool * list jscen * (counts * list tcase))", "out_ty": "bool",
                    "fn": "forallb feature_agrees", "eqb": "Bool.eqb", "enc": enc, "shard": 40}}
    alphabet = ["<", "&", "\"", "]", ">", "\x01", "\x1b", "[", "3", "m", "￾", "\r", "a"]
    texts = ["".join(t) for n in range(0, 5 if thorough else 4) for t in itertools.product(alphabet, repeat=n)]
    texts += ["".join(rnd.choice(HOSTILE + ["a", " "]) for _ in range(rnd.randint(1, 8))) for _ in range(3000 if thorough else 600)]
    # the two rewriting steps (ANSI escapes removed, ']]>' split) interact: all short sequences of the tokens involved
    tokens = ["]]", "]", ">", "\x1b[31m", "\x1b[0m", "]]>", "a", "\x01"]
    texts += ["".join(t) for n in range(2, 6 if thorough else 5) for t in itertools.product(tokens, repeat=n)]
    # every code point at and around the boundaries of the XML Char production, alone between two letters
    sweep = (list(range(0x00, 0x21)) + list(range(0x7f, 0xa1)) +
             [0xd7ff, 0xe000, 0xfdcf, 0xfdd0, 0xfdef, 0xfdf0, 0xfffd, 0xfffe, 0xffff, 0x10000, 0x1fffe, 0x1ffff, 0x10fffe, 0x10ffff])
    texts += ["a%sb" % chr(c) for c in sweep] + ["%s]]>%s" % (chr(c), chr(c)) for c in (0x0b, 0x0c, 0x0e, 0x1f, 0x85)]
    esc = {"name": "escaping", "cases": [{"text": t} for t in texts], "impl": impl_escape, "oracle": oracle_escape, "exhaustive": True,
           "nontrivial": lambda c, o: any(ch in c["text"] for ch in "<&\"]\x01\x1b"),
           "bound": "all %d strings up to length %d over %d hostile characters, plus random ones over the full hostile pool" % (
               len(texts), 4 if thorough else 3, len(alphabet)),
           "coq": {"header": HEADER, "in_ty": "ustr", "out_ty": "ustr * ustr", "fn": "fun t => (attr_content t, cdata_content t)",
                   "eqb": "pair_eqb ustr_eqb ustr_eqb", "enc": enc_escape, "shard": 800}}
    return [runs, esc]
