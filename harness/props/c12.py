"""C12 — hooks: nested order, after-hooks always paired, hook faults contained."""
from __future__ import annotations
import random, copy
import runcluster as rc
import runprog
from props.c02 import scenarios_of, results_of, eval_expr

TRUSTED = [
    "Coq 8.16.1 kernel (coqc, vm_compute); no axioms",
    "harness/runprog.py + harness/runcluster.py (renderer, decoder)",
]
ASSUMPTIONS = [
    "hooks raise Exception or AssertionError (KeyboardInterrupt / SystemExit inside a hook escape run_hook by design and are outside the property's fault model)",
    "the non-interference theorem is stated for runs without --stop, without aborting steps (KeyboardInterrupt / abort_by_user) and with a before_all that does not raise; those cases are the property's own exceptions and have their own theorems",
]
RULE = ("for each seeded random program: the fault-free run, then EVERY hook invocation of that run taken as injection point "
        "(Exception / AssertionError alternating), plus pairs in the thorough tier; with tag selection, --stop and dry-run "
        "variations; non-trivial = the injected site was actually invoked")
LEVEL_TEXT = ("Theorems over Runner.v for every program and EVERY fault set: the hook trace of a step / scenario / rule / feature / "
              "run is before_tag* before_X <contents> after_X after_tag* with the closing half unconditional, hook_failed of an "
              "element <-> one of its own sites raised, a raising opening hook empties the body, any raising hook fails the run, "
              "before_all fault aborts, no hooks in dry-run / for de-selected elements.  Non-interference (RunnerLocal.v): for ANY two "
              "fault sets, an element none of whose own hook sites is affected has the same result in both runs, children of an "
              "element whose own hooks are unaffected are related in the same way (only the affected element, its ancestors and "
              "descendants may differ); every scenario / rule / feature hands the runner state back unchanged.  Fault enumeration "
              "over every hook invocation of real runs checks bracket matching, containment and non-interference against the "
              "fault-free run.")
LEVEL_NOTE = "Trusted: Coq kernel, renderer/decoder."


def parse_brackets(log):
    """Parse the hook/step log into elements.  Returns (elements, errors).
    element = dict(kind, key, open_idx, before_idx, after_idx, end_idx, parent)"""
    errors = []
    stack = []
    elems = []
    pending_tags = []         # indices of before_tag events waiting for their before_X
    last_closed = None
    for i, e in enumerate(log):
        if e[0] != "hook":
            continue
        h, key = e[1], e[2]
        if h in ("before_all", "after_all"):
            continue
        if h == "before_tag":
            pending_tags.append((i, key))
            last_closed = None
        elif h in ("before_feature", "before_rule", "before_scenario", "before_step"):
            el = {"kind": h[7:], "key": key, "open_idx": pending_tags[0][0] if pending_tags else i,
                  "tags": [k for _i, k in pending_tags], "before_idx": i, "after_idx": None, "end_idx": None,
                  "parent": stack[-1] if stack else None, "after_tags": []}
            if h == "before_step" and pending_tags:
                errors.append("before_tag hooks directly in front of a step at %d" % i)
            pending_tags = []
            stack.append(el)
            elems.append(el)
            last_closed = None
        elif h in ("after_feature", "after_rule", "after_scenario", "after_step"):
            if pending_tags:
                errors.append("before_tag without before_%s at %d" % (h[6:], i))
                pending_tags = []
            if not stack or stack[-1]["kind"] != h[6:] or stack[-1]["key"] != key:
                errors.append("%s(%s) at %d does not close the innermost open element %s" % (
                    h, key, i, (stack[-1]["kind"], stack[-1]["key"]) if stack else None))
                continue
            el = stack.pop()
            el["after_idx"] = el["end_idx"] = i
            last_closed = el
        elif h == "after_tag":
            if last_closed is None:
                errors.append("after_tag(%s) at %d does not follow an after-hook" % (key, i))
            else:
                last_closed["after_tags"].append(key)
                last_closed["end_idx"] = i
    for el in stack:
        errors.append("before_%s(%s) never closed" % (el["kind"], el["key"]))
    if pending_tags:
        errors.append("dangling before_tag hooks %s" % pending_tags)
    for el in elems:
        if el["after_idx"] is not None and el["tags"] != el["after_tags"]:
            errors.append("%s(%s): before_tag %s vs after_tag %s" % (el["kind"], el["key"], el["tags"], el["after_tags"]))
    return elems, errors


def own_tags_table(prog):
    """element name -> its own tags as written (rows: the outline's tags followed by the tags of their Examples block)"""
    own = {}
    for f in prog["features"]:
        own["F%d" % f["id"]] = list(f["tags"])
        for it in f["items"]:
            subs = [it]
            if it["kind"] == "rule":
                own["R%d" % it["id"]] = list(it["tags"])
                subs = it["items"]
            for x in subs:
                if x["kind"] == "scenario":
                    own["S%d" % x["id"]] = list(x["tags"])
                else:
                    for ei, ex in enumerate(x["examples"]):
                        for r in range(ex["rows"]):
                            own["O%d -- @%d.%d E%d" % (x["id"], ei + 1, r + 1, ex["id"])] = list(x["tags"]) + list(ex["tags"])
    return own


def impl_pair(case):
    """fault-free run and faulted run of the same program"""
    base = copy.deepcopy(case["prog"])
    base["cfg"]["faults"] = []
    free = runprog.run_program(base)
    faulted = runprog.run_program(case["prog"]) if case["prog"]["cfg"]["faults"] else free
    return {"free": free, "faulted": faulted}


def flat_results(obs):
    """name -> (status, hook_failed, steps) for every element"""
    out = {}
    for t in obs["tree"]:
        out[t["name"]] = (t["status"], t["hook_failed"], None)
        for it in t["items"]:
            if it["kind"] == "rule":
                out[it["name"]] = (it["status"], it["hook_failed"], None)
                subs = it["items"]
            else:
                subs = [it]
            for x in subs:
                if x["kind"] == "outline":
                    out[x["name"]] = (x["status"], False, None)
                    for r in x["rows"]:
                        out[r["name"]] = (r["status"], r["hook_failed"], r["steps"])
                else:
                    out[x["name"]] = (x["status"], x["hook_failed"], x["steps"])
    return out


def ancestry(prog):
    """element name -> set of names of its ancestors and descendants (its 'own ancestry' + subtree)"""
    rel = {}

    def add(a, b):
        rel.setdefault(a, set()).add(b)
        rel.setdefault(b, set()).add(a)
    for f in prog["features"]:
        fn = "F%d" % f["id"]
        rel.setdefault(fn, set())
        for it in f["items"]:
            chain = [fn]
            if it["kind"] == "rule":
                rn = "R%d" % it["id"]
                add(fn, rn)
                subs, chain = it["items"], [fn, rn]
            else:
                subs = [it]
            for x in subs:
                if x["kind"] == "scenario":
                    for a in chain:
                        add(a, "S%d" % x["id"])
                else:
                    on = "O%d" % x["id"]
                    for a in chain:
                        add(a, on)
                    for ei, ex in enumerate(x["examples"]):
                        for r in range(ex["rows"]):
                            rn2 = "O%d -- @%d.%d E%d" % (x["id"], ei + 1, r + 1, ex["id"])
                            for a in chain + [on]:
                                add(a, rn2)
    return rel


def should_run_table(prog):
    """element name -> should_run_with_tags as documented: the element's own effective tags satisfy the expression,
    or something inside it should run (scenarios: effective tags only; outlines: own tags or any row)"""
    expr = prog["cfg"].get("expr")
    tab = {}

    def sitem(x, anc):
        if x["kind"] == "scenario":
            tab["S%d" % x["id"]] = r = eval_expr(expr, set(x["tags"]) | anc)
            return r
        rows = []
        for ei, ex in enumerate(x["examples"]):
            for k in range(ex["rows"]):
                name = "O%d -- @%d.%d E%d" % (x["id"], ei + 1, k + 1, ex["id"])
                tab[name] = eval_expr(expr, set(x["tags"]) | set(ex["tags"]) | anc)
                rows.append(tab[name])
        tab["O%d" % x["id"]] = r = eval_expr(expr, set(x["tags"]) | anc) or any(rows)
        return r
    for f in prog["features"]:
        ft = set(f["tags"])
        inner = []
        for it in f["items"]:
            if it["kind"] == "rule":
                rt = ft | set(it["tags"])
                sub = [sitem(x, rt) for x in it["items"]]
                tab["R%d" % it["id"]] = r = eval_expr(expr, rt) or any(sub)
                inner.append(r)
            else:
                inner.append(sitem(it, ft))
        tab["F%d" % f["id"]] = eval_expr(expr, ft) or any(inner)
    return tab


def oracle(case, obs):
    out = []
    prog = case["prog"]
    cfg = prog["cfg"]
    free, flt = obs["free"], obs["faulted"]
    for name, o in (("fault-free", free), ("faulted", flt)):
        if o.get("crashed"):
            return [("%s run: an exception escaped the runner: %s" % (name, o["crashed"]), "hook-exception-escaped")]
    all_hooks = set(cfg["hooks"]) == set(runprog.HOOKS)
    # 1. nested order / pairing, on both runs
    for name, o in (("fault-free", free), ("faulted", flt)):
        hooks = [e for e in o["log"] if e[0] == "hook"]
        if cfg["dry_run"]:
            if hooks:
                out.append(("%s run: hooks called in dry-run mode: %s" % (name, hooks[0]), "hooks-in-dry-run"))
            continue
        # hooks are not called for elements that tag selection excludes
        sr = should_run_table(prog)
        for e in hooks:
            if e[1] in ("before_feature", "after_feature", "before_rule", "after_rule", "before_scenario", "after_scenario") \
                    and sr.get(e[2]) is False:
                out.append(("%s run: %s(%s) was called although tag selection excludes %s" % (name, e[1], e[2], e[2]),
                            "hook-for-excluded-element:" + e[1].split("_")[1]))
                break
        if all_hooks:
            if hooks and (hooks[0][1] != "before_all" or hooks[-1][1] != "after_all"):
                out.append(("%s run: before_all/after_all do not bracket the run" % name, "all-hooks-not-outermost"))
            _els, errs = parse_brackets(o["log"])
            for e in errs[:2]:
                out.append(("%s run: hook trace not well nested: %s" % (name, e), "hooks-not-nested"))
            # one before_tag per own tag, in written order: feature / rule / scenario tags, rows: outline tags + their block's tags
            own = own_tags_table(prog)
            for el in _els:
                if el["kind"] != "step" and el["key"] in own and el["tags"] != own[el["key"]]:
                    out.append(("%s run: %s %s fired before_tag for %s, its own tags are %s" % (
                        name, el["kind"], el["key"], el["tags"], own[el["key"]]), "tag-hooks-not-own-tags"))
                    break
    if not cfg["faults"] or cfg["dry_run"]:
        return out
    # 2. the injected site
    (fh, fk) = cfg["faults"][0]
    fk = str(fk)
    idx = [i for i, e in enumerate(flt["log"]) if e[0] == "hook" and e[1] == fh and e[2] == fk and e[3]]
    if not idx:
        return out                      # the site is not invoked in this run
    k = idx[0]
    if not flt["failed"]:
        out.append(("hook %s(%s) raised but the run reports success" % (fh, fk), "hook-fault-run-green"))
    if len(cfg["faults"]) > 1 or not all_hooks:
        return out
    fres, xres = flat_results(free), flat_results(flt)
    if fh in ("before_all", "after_all"):
        if fh == "before_all":
            later = [e for e in flt["log"][k + 1:] if e[0] in ("hook", "step") and e[1] != "after_all"]
            if later:
                out.append(("before_all raised but the run went on: %s" % (later[0],), "before-all-fault-not-aborting"))
            if not flt["aborted"]:
                out.append(("before_all raised but the run is not marked aborted", "before-all-fault-not-aborting"))
        return out
    elems, _ = parse_brackets(flt["log"])
    owners = []                          # one (element, in_open, k) per raising invocation of the site
    for kk in idx:
        owner = None
        for el in elems:                # innermost element whose opening or closing phase contains kk
            if el["end_idx"] is None:
                continue
            in_open = el["open_idx"] <= kk <= el["before_idx"]
            in_close = el["after_idx"] <= kk <= el["end_idx"]
            if in_open or in_close:
                owner = (el, in_open, kk)
        if owner is None:
            out.append(("cannot attribute the faulted hook %s(%s) to an element" % (fh, fk), "hooks-not-nested"))
            return out
        owners.append(owner)
    steps_of = {n: [s["id"] for s in st] for n, st, _t in scenarios_of(prog)}
    marked = set()
    for el, in_open, kk in owners:
        # 3. marks exactly the element concerned
        if el["kind"] == "step":
            scen = el["parent"]
            sname = scen["key"] if scen else None
            sid = int(el["key"])
            if sname in xres and sname in steps_of and sid in steps_of[sname]:
                st = xres[sname][2][steps_of[sname].index(sid)]
                if st != "hook_error":
                    out.append(("step hook %s(%s) raised but the step status is %s" % (fh, fk, st), "hook-fault-not-marked"))
            marked.add(sname)
        else:
            own_name = el["key"]
            if own_name in xres:
                status, hf, _ = xres[own_name]
                if not hf or status not in ("hook_error", "error"):
                    out.append(("%s(%s) raised but %s has status %s, hook_failed=%s" % (fh, fk, own_name, status, hf), "hook-fault-not-marked"))
            marked.add(own_name)
        # 4. a failing before-hook keeps the body from running
        if in_open and el["kind"] != "step":
            inner = [e for e in flt["log"][el["before_idx"] + 1:el["after_idx"]] if e[0] in ("hook", "step")]
            if inner:
                out.append(("opening hook %s(%s) raised but the body of %s ran: %s" % (fh, fk, el["key"], inner[0]), "before-fault-body-ran"))
        if in_open and el["kind"] == "step":
            called = [e for e in flt["log"][el["before_idx"] + 1:el["after_idx"]] if e[0] == "step"]
            if called:
                out.append(("before_step(%s) raised but the step function ran" % fk, "before-fault-body-ran"))
    if owners[0][0]["kind"] != "step":
        for name, (status, hf, _s) in xres.items():
            if hf and name not in marked:
                out.append(("%s(%s) raised but %s is marked hook_failed" % (fh, fk, name), "hook-fault-marks-other-element"))
    # 5. --stop still stops at the first failure
    el, in_open, kk = owners[0]
    if cfg["stop"]:
        scope_end = (el["parent"] or el)["end_idx"] if el["kind"] == "step" else el["end_idx"]
        later = [e for e in flt["log"][scope_end + 1:]
                 if (e[0] == "step") or (e[0] == "hook" and e[1].startswith("before_") and e[1] != "before_all")]
        if later:
            out.append(("--stop: %s(%s) raised in %s but afterwards %s still happened" % (fh, fk, el["key"], later[0]), "stop-not-stopping-after-hook-fault"))
    # 6. non-interference: elements outside the failing elements' own ancestry keep their result
    if not cfg["stop"] and not free["aborted"] and not flt["aborted"]:
        rel = ancestry(prog)
        related = set()
        for anchor in marked:
            related |= rel.get(anchor, set()) | {anchor}
        for name, r in fres.items():
            if name in related:
                continue
            if xres.get(name) != r:
                out.append(("%s(%s) raised in %s but unrelated element %s changed from %s to %s" % (
                    fh, fk, sorted(marked), name, r, xres.get(name)), "hook-fault-interference"))
                break
    return out


def nontrivial(case, obs):
    f = case["prog"]["cfg"]["faults"]
    if not f:
        return True
    return any(e[0] == "hook" and e[1] == f[0][0] and e[2] == str(f[0][1]) and e[3] for e in obs["faulted"]["log"])


def enc(case, obs):
    return rc.enc(case["prog"], obs["faulted"])


def shrink(case):
    for q in rc.shrink_program(case["prog"]):
        yield {"prog": q}


def hist(cases, obs):
    return rc.histogram([c["prog"] for c in cases], [o.get("faulted") if isinstance(o, dict) else o for o in obs])


# ------------------------------------------------------------------ a hook fault does not outlive the attempt it happened in
RETRY_HOOKS = ["before_tag", "before_scenario", "before_step", "after_step", "after_scenario", "after_tag"]


def impl_attempts(case):
    """One feature; its model objects are run twice: in the first attempt the k-th call of one hook kind raises, the second
    attempt has no fault. A third run sends freshly parsed objects through a fault-free run."""
    import io, contextlib
    from behave.configuration import Configuration
    from behave.runner import ModelRunner
    from behave.step_registry import StepRegistry
    from behave.parser import parse_feature
    text = "Feature: F\n"
    for i, (tags, n) in enumerate(case["scenarios"]):
        if tags:
            text += "  " + " ".join("@" + t for t in tags) + "\n"
        text += "  Scenario: S%d\n" % i + "".join("    Given step %d\n" % j for j in range(n))
    registry = StepRegistry()
    registry.add_step_definition("step", "step {i:d}", lambda context, i: None)

    def run(features, fault):
        log = []
        counter = {}
        config = Configuration(["--no-color"], load_config=False)
        config.reporters = []
        runner = ModelRunner(config, features, step_registry=registry)

        def make(kind):
            def hook(context, arg):
                label = arg if kind.endswith("_tag") else getattr(arg, "name", "")
                log.append([kind, label])
                counter[kind] = counter.get(kind, 0) + 1
                if fault and fault[0] == kind and fault[1] == counter[kind]:
                    raise RuntimeError("hook fault")
            return hook
        runner.hooks = {k: make(k) for k in RETRY_HOOKS}
        with contextlib.redirect_stdout(io.StringIO()), contextlib.redirect_stderr(io.StringIO()):
            failed = runner.run()
        return {"log": log, "failed": bool(failed),
                "scenarios": [[sc.status.name, bool(sc.hook_failed), [st.status.name for st in sc.steps]]
                              for sc in features[0].scenarios]}
    shared = [parse_feature(text, filename="x.feature")]
    first = run(shared, case["fault"])
    second = run(shared, None)
    fresh = run([parse_feature(text, filename="x.feature")], None)
    return {"first": first, "second": second, "fresh": fresh}


def oracle_attempts(case, obs):
    out = []
    if not obs["first"]["failed"] and len(obs["first"]["log"]) > 0 and case["fault"][1] <= sum(
            1 for e in obs["fresh"]["log"] if e[0] == case["fault"][0]):
        out.append(("the attempt in which %s call %d raised does not report failure" % tuple(case["fault"]), "hook-fault-green"))
    if obs["second"]["log"] != obs["fresh"]["log"]:
        out.append(("a fault-free second attempt on the same objects calls hooks %s; a fault-free run calls %s (in the first attempt "
                    "%s call %d raised)" % (obs["second"]["log"], obs["fresh"]["log"], case["fault"][0], case["fault"][1]),
                    "hook-fault-outlives-attempt-calls"))
    if obs["second"]["scenarios"] != obs["fresh"]["scenarios"] or obs["second"]["failed"] != obs["fresh"]["failed"]:
        out.append(("a fault-free second attempt on the same objects ends with %s failed=%s; a fault-free run ends with %s failed=%s "
                    "(in the first attempt %s call %d raised)" % (obs["second"]["scenarios"], obs["second"]["failed"],
                                                                   obs["fresh"]["scenarios"], obs["fresh"]["failed"],
                                                                   case["fault"][0], case["fault"][1]),
                    "hook-fault-outlives-attempt-result"))
    return out


def attempts_suite(tier, rnd):
    cases = []
    n = 160 if tier == "thorough" else 40
    for _ in range(n):
        scs = [[rnd.sample(["a", "b"], rnd.randint(0, 2)), rnd.randint(1, 3)] for _ in range(rnd.randint(1, 3))]
        kind = rnd.choice(RETRY_HOOKS)
        cases.append({"scenarios": scs, "fault": [kind, rnd.randint(1, 3)]})
    return {"name": "repeated_attempts", "cases": cases, "impl": impl_attempts, "oracle": oracle_attempts,
            "nontrivial": lambda c, o: o["first"]["log"] != o["fresh"]["log"] or o["first"]["scenarios"] != o["fresh"]["scenarios"],
            "bound": "%d features of 1-3 scenarios with 0-2 tags and 1-3 steps, run twice on the same objects: one raising "
                     "tag / scenario / step hook call in the first attempt, none in the second, compared with a fresh fault-free run" % n}


KINDS = [("pass", 10), ("fail", 2), ("error", 1), ("pending", 1), ("undefined", 1), ("skip", 1),
         ("abort", 0.3), ("kbd", 0.3), ("cleanupok", 1)]


def suites(tier, seed):
    rnd = random.Random(seed * 104729 + 12)
    thorough = tier == "thorough"
    nprog = 700 if thorough else 130
    cases = []
    for i in range(nprog):
        p = rc.gen_program(rnd, kinds=KINDS)
        p["cfg"]["hooks"] = list(runprog.HOOKS)
        p["cfg"]["continue_after_failed"] = False
        if i % 5 == 4:
            p["cfg"]["hooks"] = [h for h in runprog.HOOKS if rnd.random() < 0.6]
        cases.append({"prog": p})
        if p["cfg"]["dry_run"]:
            continue
        # every hook invocation of the fault-free run as an injection point
        common_sites = rc.hook_sites(p)
        free = None
        try:
            import common
            common._worker_init(common.REPO)
            free = runprog.run_program(p)
        except Exception:
            free = None
        invoked = []
        if free:
            for e in free["log"]:
                if e[0] == "hook" and (e[1], e[2]) not in invoked:
                    invoked.append((e[1], e[2]))
        sites = invoked or common_sites
        if not thorough and len(sites) > 14:
            sites = rnd.sample(sites, 14)
        for j, (h, k) in enumerate(sites):
            q = copy.deepcopy(p)
            q["cfg"]["faults"] = [[h, k]]
            q["cfg"]["fault_kind"] = "assertion" if j % 2 else "exception"
            cases.append({"prog": q})
        if thorough and len(invoked) >= 2:
            for _ in range(4):
                a, b = rnd.sample(invoked, 2)
                q = copy.deepcopy(p)
                q["cfg"]["faults"] = [list(a), list(b)]
                cases.append({"prog": q})
    return [{"name": "faults", "cases": cases, "impl": impl_pair, "oracle": oracle, "nontrivial": nontrivial,
             "histogram": hist, "shrink": shrink,
             "bound": "%d programs x every hook invocation of their fault-free run (%d runs)" % (nprog, len(cases)),
             "coq": dict(rc.COQ, enc=enc)},
            attempts_suite(tier, rnd)]
