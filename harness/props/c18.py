"""C18 — output capture isolates step output and always restores the real streams."""
from __future__ import annotations
import random, itertools, re
from common import clist, cbool, cnat

TRUSTED = [
    "Coq 8.16.1 kernel (coqc, vm_compute); no axioms",
    "harness/props/c18.py: sentinel streams and sentinel root-logger handlers standing in for the real streams; decoding of marker positions",
    "Python's logging dispatch, io.StringIO and the OS are runtime, not logic: the model covers the swap/buffer/handler state machine",
]
ASSUMPTIONS = [
    "log records are emitted at a level that passes the configured logging_level (level filtering itself is Python's logging)",
    "KeyboardInterrupt raised inside a hook is outside the property's outcomes",
]
RULE = ("(a) operation sequences on a real CaptureController + LoggingCapture: setup / start / stop / teardown / write to stdout, "
        "stderr, logging / user installs a root handler / read the captured report, all 16 switch settings (3 capture switches x "
        "logging_clear_handlers); (b) real runs of 1-3 scenarios whose steps and step hooks write unique markers, outcomes "
        "pass/fail/error/KeyboardInterrupt/hook error, all 8 capture switch settings; non-trivial = at least one marker was captured")
LEVEL_TEXT = ("Theorems over Capture.v: a captured step (start, any writes, stop) leaves the real streams and the user's log handlers "
              "untouched, appends exactly its markers to the scenario's buffers and ends with the real streams restored (lifted to any "
              "number of steps); setup yields fresh buffers; stop restores from any state; a disabled channel passes everything "
              "through for every operation sequence; teardown restores root handlers and level.  Model compared with the real "
              "controller on random operation sequences; run-level oracle on markers in real runs.")
LEVEL_NOTE = "Trusted: Coq kernel; sentinel streams/handlers; Python logging internals are runtime."


# ------------------------------------------------------------------ (a) controller-level histories
def impl_controller(case):
    import sys, io, logging
    from behave.configuration import Configuration
    from behave.capture import CaptureController
    cfgd = case["cfg"]
    config = Configuration(["--no-color"], load_config=False)
    config.stdout_capture = cfgd["out"]
    config.stderr_capture = cfgd["err"]
    config.log_capture = cfgd["log"]
    config.logging_clear_handlers = cfgd["clear"]
    config.logging_level = logging.INFO
    config.logging_format = "%(message)s"
    seen = []

    class UserHandler(logging.Handler):
        def __init__(self, hid):
            logging.Handler.__init__(self)
            self.hid = hid

        def emit(self, record):
            seen.append([self.hid, int(record.getMessage()[1:])])
    root = logging.getLogger()
    saved = (root.handlers[:], root.level, sys.stdout, sys.stderr)
    real_out, real_err = io.StringIO(), io.StringIO()
    reports = []
    crashed = False

    class Ctx(object):
        pass
    try:
        root.handlers = [UserHandler(h) for h in case["handlers"]]
        root.setLevel(case.get("root_level", 30))
        sys.stdout, sys.stderr = real_out, real_err
        ctl = CaptureController(config)
        ctx = Ctx()
        for op in case["ops"]:
            k = op[0]
            try:
                if k == "setup":
                    ctl.setup_capture(ctx)
                elif k == "start":
                    ctl.start_capture()
                elif k == "stop":
                    ctl.stop_capture()
                elif k == "teardown":
                    ctl.teardown_capture()
                elif k == "write":
                    if op[1] == "out":
                        sys.stdout.write("m%d\n" % op[2])
                    elif op[1] == "err":
                        sys.stderr.write("m%d\n" % op[2])
                    else:
                        logging.getLogger("verif").error("m%d", op[2])
                elif k == "addhandler":
                    root.addHandler(UserHandler(op[1]))
                elif k == "report":
                    c = ctl.captured
                    reports.append([[int(x) for x in re.findall(r"m(\d+)", part or "")]
                                    for part in (c.stdout, c.stderr, c.log_output)])
            except AssertionError:
                crashed = True
                break
        out_real = sys.stdout is real_out
        err_real = sys.stderr is real_err
        users = [h.hid for h in root.handlers if isinstance(h, UserHandler)]
        level = root.level
    finally:
        root.handlers, sys.stdout, sys.stderr = saved[0], saved[2], saved[3]
        root.setLevel(saved[1])
    return {"reports": reports, "real_out": [int(x) for x in re.findall(r"m(\d+)", real_out.getvalue())],
            "real_err": [int(x) for x in re.findall(r"m(\d+)", real_err.getvalue())], "seen": seen,
            "users": users, "level": level, "out_real": out_real, "err_real": err_real, "crashed": crashed}


def simulate(case):
    """independent reference written from the property text: where must each marker end up?"""
    cfg = case["cfg"]
    capturing = False
    have = False
    res = {"real_out": [], "real_err": [], "buf": {"out": [], "err": [], "log": []}, "reports": []}
    for op in case["ops"]:
        k = op[0]
        if k == "setup":
            have = True
            for ch in ("out", "err", "log"):
                if cfg[ch]:
                    res["buf"][ch] = []
        elif k == "start":
            capturing = True
        elif k == "stop":
            capturing = False
        elif k == "write":
            ch, m = op[1], op[2]
            if ch in ("out", "err"):
                if cfg[ch] and capturing:
                    res["buf"][ch].append(m)
                else:
                    res["real_" + ch].append(m)
        elif k == "report":
            res["reports"].append([list(res["buf"][ch]) if (cfg[ch] and have) else [] for ch in ("out", "err")])
    return res


def oracle_controller(case, obs):
    out = []
    if obs["crashed"]:
        return [("the capture controller failed an internal assertion on %s" % case["ops"], "capture-assertion")]
    ref = simulate(case)
    # records that reach sys.stderr through Python's logging.lastResort (no handler installed at all)
    # are the logging module's doing: leave log-origin markers out of the stream comparison
    logm = set(op[2] for op in case["ops"] if op[0] == "write" and op[1] == "log")
    obs = dict(obs, real_err=[m for m in obs["real_err"] if m not in logm],
               reports=[[r[0], [m for m in r[1] if m not in logm]] + r[2:] for r in obs["reports"]])
    for ch in ("out", "err"):
        if obs["real_" + ch] != ref["real_" + ch]:
            leaked = [m for m in obs["real_" + ch] if m not in ref["real_" + ch]]
            sig = "leak-to-real-stream:%s" % ch if leaked else "output-lost:%s" % ch
            out.append(("std%s: real stream got %s, expected %s" % (ch, obs["real_" + ch], ref["real_" + ch]), sig))
    for i, (a, b) in enumerate(zip(obs["reports"], ref["reports"])):
        if a[:2] != b:
            out.append(("captured report #%d is %s, expected %s" % (i, a[:2], b), "report-contents"))
    # the logging part of a report taken while the capture is installed (between a setup and its teardown, properly
    # bracketed): every record logged since that setup, whatever the other two switches say
    seq0 = [op[0] for op in case["ops"] if op[0] in ("setup", "teardown")]
    if case["cfg"]["log"] and all(a != b for a, b in zip(seq0, seq0[1:])) and (not seq0 or seq0[0] == "setup"):
        installed, since, k = False, [], 0
        for op in case["ops"]:
            if op[0] == "setup":
                installed, since = True, []
            elif op[0] == "teardown":
                installed = False
            elif op[0] == "write" and op[1] == "log" and installed:
                since.append(op[2])
            elif op[0] == "report":
                if installed and k < len(obs["reports"]) and len(obs["reports"][k]) > 2 and obs["reports"][k][2] != since:
                    out.append(("captured report #%d has logging part %s, logged since setup: %s" % (k, obs["reports"][k][2], since), "report-contents"))
                k += 1
    # every start/stop pair must give the real streams back
    if case["ops"] and case["ops"][-1][0] == "stop":
        if not obs["out_real"] or not obs["err_real"]:
            out.append(("after stop_capture sys.stdout/sys.stderr are not the original objects", "streams-not-restored"))
    # logging with clear_handlers: user handlers must not see records while the capture is installed,
    # and after teardown they must be back in order
    seq = [op[0] for op in case["ops"] if op[0] in ("setup", "teardown")]
    bracketed = all(a != b for a, b in zip(seq, seq[1:])) and (not seq or seq[0] == "setup")
    if case["cfg"]["log"] and case["cfg"]["clear"] and bracketed:
        installed = False
        users = list(case["handlers"])
        hidden = []
        leaks = []
        k = 0
        for op in case["ops"]:
            if op[0] == "setup":
                installed = True
                hidden = hidden + users if hidden else list(users)
                users = []
            elif op[0] == "teardown" and installed:
                installed = False
                users = users + [h for h in hidden if h not in users]
                hidden = []
            elif op[0] == "addhandler":
                users.append(op[1])
        if sorted(obs["users"]) != sorted(users) and not installed:
            out.append(("after teardown the root logger has user handlers %s, expected %s" % (obs["users"], users), "log-handlers-not-restored"))
        elif obs["users"] != users and not installed:
            out.append(("after teardown the root logger's handlers are reordered: %s, expected %s" % (obs["users"], users), "log-handlers-not-restored"))
    if case["cfg"]["log"] and bracketed:
        inst = False
        for op in case["ops"]:
            inst = True if op[0] == "setup" else (False if op[0] == "teardown" else inst)
        if not inst and obs["level"] != case.get("root_level", 30):
            out.append(("after teardown the root logger's level is %r, it was %r before the capture was set up" % (obs["level"], case.get("root_level", 30)),
                        "log-level-not-restored"))
    return out


HEADER = "From BV Require Import Base Capture.\n"
OPS = {"setup": "CapSetup", "start": "CapStart", "stop": "CapStop", "teardown": "CapTeardown", "report": "CapReport"}
CH = {"out": "ChOut", "err": "ChErr", "log": "ChLog"}


def c_capop(op):
    if op[0] == "write":
        return "(CapWrite %s %s)" % (CH[op[1]], cnat(op[2]))
    if op[0] == "addhandler":
        return "(CapAddHandler %s)" % cnat(op[1])
    return OPS[op[0]]


def nl(l):
    return clist([cnat(x) for x in l], "nat")


def enc_controller(case, obs):
    if obs["crashed"]:
        return None
    c = case["cfg"]
    i = "(mkCapCfg %s %s %s %s 20%%nat, %s, %d%%nat, %s)" % (cbool(c["out"]), cbool(c["err"]), cbool(c["log"]), cbool(c["clear"]),
                                                        nl(case["handlers"]), case.get("root_level", 30), clist([c_capop(o) for o in case["ops"]], "capop"))
    reports = clist([clist([nl(p) for p in r], "list nat") for r in obs["reports"]], "list (list nat)")
    seen = clist(["(%s, %s)" % (cnat(h), cnat(m)) for h, m in obs["seen"]], "nat * nat")
    o = "(%s, %s, %s, %s, %s, %s, (%s, %s), false)" % (reports, nl(obs["real_out"]), nl(obs["real_err"]), seen, nl(obs["users"]),
                                                      cnat(obs["level"]), cbool(obs["out_real"]), cbool(obs["err_real"]))
    return i, o


COQ_CTL = {"header": HEADER + """
Definition obs_ty := (list (list (list nat)) * list nat * list nat * list (nat * nat) * list nat * nat * (bool * bool) * bool)%type.
Definition obs_eqb (a b : obs_ty) : bool :=
  let '(r1, o1, e1, s1, u1, l1, (x1, y1), c1) := a in
  let '(r2, o2, e2, s2, u2, l2, (x2, y2), c2) := b in
  list_eqb (list_eqb (list_eqb Nat.eqb)) r1 r2 && list_eqb Nat.eqb o1 o2 && list_eqb Nat.eqb e1 e2
  && list_eqb (pair_eqb Nat.eqb Nat.eqb) s1 s2 && list_eqb Nat.eqb u1 u2 && Nat.eqb l1 l2
  && Bool.eqb x1 x2 && Bool.eqb y1 y2 && Bool.eqb c1 c2.
Definition run_obs (c : capcfg * list nat * nat * list capop) : obs_ty :=
  let '(cfg, hs, lvl, ops) := c in cap_obs cfg hs lvl ops.
""", "in_ty": "capcfg * list nat * nat * list capop", "out_ty": "obs_ty", "fn": "run_obs", "eqb": "obs_eqb",
           "enc": enc_controller, "shard": 400}


def gen_ops(rnd, n):
    ops = [["setup"]]
    capturing = False
    m = [0]

    def mark():
        m[0] += 1
        return m[0]
    for _ in range(n):
        r = rnd.random()
        if r < 0.16:
            ops.append(["start"]); capturing = True
        elif r < 0.32:
            ops.append(["stop"]); capturing = False
        elif r < 0.40 and not capturing:
            ops.append(["setup"])
        elif r < 0.48 and not capturing:
            ops.append(["teardown"])
        elif r < 0.80:
            ops.append(["write", rnd.choice(["out", "err", "log"]), mark()])
        elif r < 0.86:
            ops.append(["addhandler", 10 + mark()])        # a fresh handler object each time
        else:
            ops.append(["report"])
    if capturing and rnd.random() < 0.8:
        ops.append(["stop"])
    ops.append(["report"])
    return ops


# ------------------------------------------------------------------ (b) real runs with markers
def impl_run(case):
    """run real scenarios whose steps and step hooks write markers; sentinel real streams + sentinel log handlers"""
    import sys, io, logging, contextlib
    from behave.configuration import Configuration
    from behave.runner import ModelRunner
    from behave.step_registry import StepRegistry
    from behave.parser import parse_feature
    from behave.formatter.base import StreamOpener
    from behave.formatter.plain import PlainFormatter
    sw = case["switches"]
    args = ["--no-color"]
    if not sw["out"]:
        args.append("--no-capture")
    if not sw["err"]:
        args.append("--no-capture-stderr")
    if not sw["log"]:
        args.append("--no-logcapture")
    if case.get("clear"):
        args.append("--logging-clear-handlers")
    lines = ["Feature: F"]
    for si, sc in enumerate(case["scenarios"]):
        lines.append("  Scenario: S%d" % si)
        for ti, kind in enumerate(sc):
            lines.append("    Given %s %d" % (kind, si * 10 + ti))
    seen, checks, marks = [], [], {}

    class UserHandler(logging.Handler):
        def __init__(self, hid):
            logging.Handler.__init__(self)
            self.hid = hid

        def emit(self, record):
            seen.append([self.hid, record.getMessage()])
    root = logging.getLogger()
    saved = (root.handlers[:], root.level, sys.stdout, sys.stderr)
    real_out, real_err = io.StringIO(), io.StringIO()
    registry = StepRegistry()

    def emit(tag):
        # most writes end their line (print); some do not (sys.stdout.write / print(..., end=" "))
        end = " " if sum(map(ord, tag)) % 3 == 0 else "\n"
        sys.stdout.write("OUT-%s%s" % (tag, end))
        sys.stderr.write("ERR-%s%s" % (tag, end))
        logging.getLogger("verif").error("LOG-%s", tag)
        if tag.startswith("step") and tag[4:].isdigit() and int(tag[4:]) % 5 == 1:
            # a chatty step: more records than a buffering handler holds by default
            for i in range(1001):
                logging.getLogger("verif").error("fill %d", i)

    def mk(kind):
        def impl(context, n):
            emit("step%d" % n)
            if kind == "fail":
                assert False, "boom"
            if kind == "error":
                raise RuntimeError("boom")
            if kind == "kbd":
                raise KeyboardInterrupt()
            if kind in ("nestpass", "nestfail"):
                # nested steps: a passing or a failing sub-step, more output afterwards, then (nestfail) the parent fails as well
                nesting[0] = True           # the sub-step is looked up while the parent step is running (capture active)
                try:
                    context.execute_steps(u"Given %s %d" % ("pass" if kind == "nestpass" else "fail", 900 + n))
                except Exception:       # noqa -- "Sub-step failed"
                    pass
                finally:
                    nesting[0] = False
                emit("post%d" % n)
                if kind == "nestfail":
                    assert False, "boom after a failed sub-step"
        return impl
    for kind in ("pass", "fail", "error", "kbd", "hookfail", "nestpass", "nestfail"):
        registry.add_step_definition("step", "%s {n:d}" % kind, mk(kind))
    orig_find = registry.find_match

    nesting = [False]

    def find_match(step):
        if not nesting[0]:
            checks.append(["between-steps", sys.stdout is real_out, sys.stderr is real_err])
        return orig_find(step)
    registry.find_match = find_match

    def state():
        return [[h.hid for h in root.handlers if isinstance(h, UserHandler)], root.level]
    hooks = {
        "before_all": lambda ctx: [root.addHandler(UserHandler(h)) for h in case["handlers"]],
        "after_scenario": lambda ctx, sc: checks.append(["after_scenario", sys.stdout is real_out, sys.stderr is real_err]),
        "after_feature": lambda ctx, f: checks.append(["after_feature", sys.stdout is real_out, sys.stderr is real_err] + state()),
        "before_step": lambda ctx, st: emit("bs%s" % st.name.split()[-1]),
    }

    # the parts of the scenario hooks that may raise; optionally wrapped in behave's @capture decorator for hooks
    def inner_before(ctx, sc):
        if int(sc.name[1:]) in case.get("bad_before", []):
            raise RuntimeError("before_scenario hook fails")

    def inner_after(ctx, sc):
        if int(sc.name[1:]) in case.get("bad_after", []):
            raise RuntimeError("after_scenario hook fails")
    if case.get("decorate"):
        from behave.log_capture import capture
        inner_before = capture(level=logging.ERROR)(inner_before)
        inner_after = capture(inner_after)

    def before_scenario(ctx, sc):
        checks.append(["before_scenario", sys.stdout is real_out, sys.stderr is real_err] + state())
        inner_before(ctx, sc)
    hooks["before_scenario"] = before_scenario

    def after_scenario(ctx, sc):
        checks.append(["after_scenario", sys.stdout is real_out, sys.stderr is real_err])
        inner_after(ctx, sc)
    hooks["after_scenario"] = after_scenario

    def after_step(ctx, st):
        emit("as%s" % st.name.split()[-1])
        if st.name.startswith("hookfail"):
            raise RuntimeError("after_step hook fails")
    hooks["after_step"] = after_step
    try:
        root.handlers = []
        root.setLevel(case.get("root_level", 30))
        sys.stdout, sys.stderr = real_out, real_err
        config = Configuration(args, load_config=False)
        config.reporters = []
        config.junit = bool(case.get("junit"))       # with JUnit reporting on, every scenario keeps its captured output
        feature = parse_feature("\n".join(lines) + "\n", filename="x.feature")
        runner = ModelRunner(config, [feature], step_registry=registry)
        runner.hooks = hooks
        fmt_stream = io.StringIO()
        runner.formatters = [PlainFormatter(StreamOpener(stream=fmt_stream), config)]
        crashed = None
        try:
            runner.run()
        except BaseException as e:     # noqa
            crashed = "%s: %s" % (type(e).__name__, e)
        final = ["end", sys.stdout is real_out, sys.stderr is real_err] + state()
    finally:
        root.handlers, sys.stdout, sys.stderr = saved[0], saved[2], saved[3]
        root.setLevel(saved[1])
    steps = []
    for si, sc in enumerate(feature.scenarios):
        for st in sc.steps:
            steps.append({"scenario": si, "name": st.name, "status": st.status.name, "error_message": st.error_message or ""})
    return {"real_out": real_out.getvalue(), "real_err": real_err.getvalue(), "seen": seen, "checks": checks,
            "final": final, "steps": steps, "formatter": fmt_stream.getvalue(), "crashed": crashed,
            "scenario_status": [sc.status.name for sc in feature.scenarios],
            "scenario_captured": [[sc.captured.stdout or "", sc.captured.stderr or "", sc.captured.log_output or ""]
                                  for sc in feature.scenarios]}


def marks_of(name):
    """the markers one executed step produces, in order: before_step hook, step function, after_step hook (nested: the sub-step's too)"""
    kind, n = name.split()[0], name.split()[-1]
    if kind in ("nestpass", "nestfail"):
        sub = str(900 + int(n))
        return ["bs" + n, "step" + n, "bs" + sub, "step" + sub, "as" + sub, "post" + n, "as" + n]
    return ["bs" + n, "step" + n, "as" + n]


def oracle_run(case, obs):
    out = []
    if obs["crashed"]:
        return [("run crashed: %s" % obs["crashed"], "run-crashed")]
    sw = case["switches"]
    # 4. original stream objects between steps / around scenarios / at the end
    for c in obs["checks"] + [obs["final"]]:
        if not c[1] or not c[2]:
            out.append(("at %s sys.stdout/sys.stderr are not the original objects (%s, %s)" % (c[0], c[1], c[2]), "streams-not-restored"))
            break
    # 1. / 6. leaks and pass-through, for step functions and step hooks
    for ch, key, prefix in (("out", "real_out", "OUT-"), ("err", "real_err", "ERR-")):
        got = re.findall(prefix + r"(\w+)", obs[key])
        written = []
        for st in obs["steps"]:
            n = st["name"].split()[-1]
            if st["status"] in ("untested", "skipped"):
                continue
            written += marks_of(st["name"])
        if sw[ch]:
            if got:
                out.append(("std%s capture is on but %s reached the real stream" % (ch, got[:3]), "leak-to-real-stream:%s" % ch))
        elif got != written:
            out.append(("std%s capture is off but the real stream got %s, written %s" % (ch, got, written), "pass-through:%s" % ch))
    if sw["log"] and case.get("clear"):
        leaked = [s for s in obs["seen"] if s[1].startswith("LOG-")]
        if leaked:
            out.append(("log capture (clear handlers) is on but user handlers received %s" % leaked[:3], "leak-to-real-stream:log"))
    # 2. failure report of a failing step: everything of its scenario up to it, nothing of other scenarios
    for st in obs["steps"]:
        if st["status"] not in ("failed", "error", "hook_error"):
            continue
        n = int(st["name"].split()[-1])
        si = st["scenario"]
        expected = []
        for other in obs["steps"]:
            m = int(other["name"].split()[-1])
            if other["scenario"] == si and m <= n:
                expected += marks_of(other["name"])
        for ch, prefix in (("out", "OUT-"), ("err", "ERR-"), ("log", "LOG-")):
            got = re.findall(prefix + r"(\w+)", st["error_message"])
            want = expected if sw[ch] else []
            if got != want:
                foreign = [g for g in got if g not in expected]
                sig = "report-foreign-output" if foreign else "report-contents"
                out.append(("failure report of step %s (%s) lists %s, expected %s" % (st["name"], ch, got, want), sig))
    # 2b. what a scenario keeps as its captured output is its own output, nothing of other scenarios
    for si, cap in enumerate(obs.get("scenario_captured", [])):
        own = set()
        for st in obs["steps"]:
            if st["scenario"] == si:
                n = st["name"].split()[-1]
                own |= set(marks_of(st["name"]))
        for text, prefix in zip(cap, ("OUT-", "ERR-", "LOG-")):
            foreign = [g for g in re.findall(prefix + r"(\w+)", text) if g not in own]
            if foreign:
                out.append(("scenario S%d (%s) keeps captured output %s of other scenarios" % (si, obs["scenario_status"][si], foreign[:3]),
                            "scenario-captured-foreign-output"))
                break
    # 3. output of passing scenarios is not shown by the formatter
    for si, status in enumerate(obs["scenario_status"]):
        if status == "passed":
            for st in obs["steps"]:
                if st["scenario"] == si and ("step%s" % st["name"].split()[-1]) in re.findall(r"(?:OUT|ERR|LOG)-(\w+)", obs["formatter"]):
                    out.append(("formatter shows output of passing scenario S%d" % si, "passing-output-shown"))
                    break
    # 5. root logger handlers / level as before each scenario
    states = [c[3:] for c in obs["checks"] if c[0] in ("before_scenario", "after_feature")] + [obs["final"][3:]]
    if states:
        if any(s != states[0] for s in states):
            out.append(("root logger handlers/level changed across scenarios: %s" % states, "log-handlers-not-restored"))
        elif states[0][0] != case["handlers"]:
            out.append(("root logger handlers %s, installed %s" % (states[0][0], case["handlers"]), "log-handlers-not-restored"))
    return out


def suites(tier, seed):
    rnd = random.Random(seed * 48271 + 18)
    thorough = tier == "thorough"
    ctl = []
    for _ in range(12000 if thorough else 2000):
        ctl.append({"cfg": {"out": rnd.random() < 0.7, "err": rnd.random() < 0.7, "log": rnd.random() < 0.7, "clear": rnd.random() < 0.6},
                    # at least one handler: otherwise Python's logging.lastResort prints records to sys.stderr
                    "handlers": rnd.choice([[1], [1], [1, 2], [1, 2, 3]]), "ops": gen_ops(rnd, rnd.randint(3, 22)),
                    # level of the root logger before the capture: NOTSET (0), DEBUG, WARNING, ERROR
                    "root_level": rnd.choice([30, 30, 0, 10, 40])})
    runs = []
    kinds = ["pass", "fail", "error", "kbd", "hookfail"]
    seqs = [list(t) for n in (1, 2, 3) for t in itertools.product(kinds, repeat=n)]
    seqs += [list(t) for n in (1, 2) for t in itertools.product(kinds + ["nestpass", "nestfail"], repeat=n) if "nestpass" in t or "nestfail" in t] * 3
    for sw in itertools.product([False, True], repeat=3):
        for _ in range(40 if thorough else 9):
            scen = [rnd.choice(seqs) for _ in range(rnd.randint(1, 3))]
            runs.append({"switches": {"out": sw[0], "err": sw[1], "log": sw[2]}, "clear": rnd.random() < 0.6,
                         "handlers": rnd.choice([[1], [1, 2], [1, 2, 3]]), "scenarios": scen,
                         "junit": rnd.random() < 0.5, "root_level": rnd.choice([30, 30, 0, 10, 40]),
                         "decorate": rnd.random() < 0.3, "bad_after": [i for i in range(len(scen)) if rnd.random() < 0.2],
                         "bad_before": [i for i in range(len(scen)) if rnd.random() < 0.25]})
    return [
        {"name": "controller", "cases": ctl, "impl": impl_controller, "oracle": oracle_controller,
         "nontrivial": lambda c, o: any(any(r) for rep in o["reports"] for r in rep),
         "bound": "%d seeded random operation sequences (4-24 operations) over all 16 switch settings" % len(ctl),
         "shrink": lambda c: (dict(c, ops=c["ops"][:i] + c["ops"][i + 1:]) for i in range(1, len(c["ops"]))),
         "coq": COQ_CTL},
        {"name": "runs", "cases": runs, "impl": impl_run, "oracle": oracle_run,
         "nontrivial": lambda c, o: any(s["error_message"] for s in o["steps"]),
         "bound": "%d real runs: 1-3 scenarios x outcome sequences up to length 3 over %s x 8 switch settings" % (len(runs), kinds)},
    ]
