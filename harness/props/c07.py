"""C07 — tag expressions (v2) mean their Boolean formula; printing preserves meaning."""
from __future__ import annotations
import random
import tagx
from tagx import SUBSETS, truth, canonical, render_min, render_full, trees, rnd_tree, atoms
from common import clist, cbool, cstr

TRUSTED = [
    "Coq 8.16.1 kernel (coqc, vm_compute); no axioms",
    "third-party code modelled, not verified: cucumber_tag_expressions 11 (tokenizer, shunting-yard parser, Literal.__str__), fnmatch.fnmatchcase, glob.has_magic",
    "harness/tagx.py: renderers of abstract expression trees and the independent truth-table evaluator",
]
ASSUMPTIONS = ["bracket patterns use ascending ranges; operand names contain no '@' (the builder deletes every '@')"]
RULE = ("all expression trees up to depth 2 over 3 literals + 2 wildcard patterns (exhaustive), seeded random trees up to depth 4 over "
        "4 literals + 5 patterns, each in 5 renderings (canonical str, minimal parentheses, with @, redundant parentheses and extra "
        "blanks, list of terms) x ALL 64 subsets of a 6-tag universe; plus a malformed stream of token soups; non-trivial = the "
        "truth table is neither constant true nor constant false")
LEVEL_TEXT = ("Theorems over TagExpr.v: evaluation is the Boolean formula with a wildcard operand true iff some tag glob-matches; the empty "
              "expression selects everything; str of an expression tokenizes back to the printer's token list and the shunting-yard parser "
              "rebuilds the same tree (for printable operand names), so printing and re-parsing preserves the meaning.  The model "
              "(tokenizer, parser, printers, glob matcher) is compared with the implementation on every rendering, complete truth tables.")
LEVEL_NOTE = "Trusted: Coq kernel; third-party tokenizer/parser and fnmatch are modelled and compared, not verified."
EXHAUSTIVE = True


def oracle(case, obs):
    out = []
    tree = case.get("tree")
    if tree is None:
        if not obs["ok"] and obs.get("err") != "TagExpressionError":
            out.append(("malformed text %r raised %s instead of a tag-expression error" % (case["text"], obs.get("err")), "v2-internal-exception"))
        return out
    if not obs["ok"]:
        return [("well-formed %r (%s) was rejected: %s" % (case["text"], case["rendering"], obs.get("err")), "v2-rejects-wellformed")]
    want = truth(tree)
    if obs["truth"] != want:
        i = [k for k, (a, b) in enumerate(zip(obs["truth"], want)) if a != b][0]
        out.append(("%r selects tags %s: %s, its formula says %s" % (case["text"], SUBSETS[i], obs["truth"][i], want[i]), "v2-meaning"))
    for label in ("str", "pretty"):
        r = obs.get("reparse_" + label)
        if r != want:
            out.append(("printing %r as %r and parsing that again gives %s" % (
                case["text"], obs.get(label), r if isinstance(r, str) else "a different truth table"), "v2-print-parse"))
    return out


def enc(case, obs):
    if obs.get("ok") is None or case.get("protocol") == "auto":
        return None
    text = case["text"]
    if isinstance(text, list):
        i = "(true, %s)" % clist([cstr(t) for t in text], "ustr")
    else:
        i = "(false, %s)" % clist([cstr(text)], "ustr")
    if not obs["ok"]:
        if obs.get("err") != "TagExpressionError":
            return None
        return i, "(false, (@nil N), (@nil N), (@nil bool))"
    return i, "(true, %s, %s, %s)" % (cstr(obs["str"]), cstr(obs["pretty"]), clist([cbool(b) for b in obs["truth"]], "bool"))


SOUP = ["a", "b.c", "and", "or", "not", "(", ")", "a*", "\\(", "\\ x", "  ", "\t", "@a", "\\q", "(a", "b)", "x\\)y"]


def suites(tier, seed):
    rnd = random.Random(seed * 8191 + 7)
    thorough = tier == "thorough"
    cases = []
    base = trees(2 if not thorough else 2, atoms())
    if not thorough:
        base = [t for i, t in enumerate(base) if i % 9 == 0 or i < 40]
    extra = [rnd_tree(rnd, rnd.randint(2, 4)) for _ in range(2500 if thorough else 250)]
    extra += [rnd_tree(rnd, rnd.randint(1, 3), hostile=True) for _ in range(600 if thorough else 120)]
    for t in base + extra:
        rends = [("canonical", canonical(t)), ("minimal", render_min(t)), ("at", render_min(t, None, True)),
                 ("redundant", render_full(t)), ("spaced", render_min(t, rnd))]
        for name, txt in rends:
            cases.append({"text": txt, "protocol": "v2", "tree": t, "rendering": name})
        # parentheses written directly against their neighbour words ("a and(b)", "(a)or c"): the same formula, also when
        # the dialect is left to auto-detection (the default)
        glued = render_full(t).replace("( ", "(").replace(" )", ")")
        for k in ("and", "or", "not"):
            glued = glued.replace(k + " (", k + "(").replace(") " + k, ")" + k)
        if glued != render_full(t):
            cases.append({"text": glued, "protocol": "v2", "tree": t, "rendering": "glued"})
            if any(w in glued.split() or ("(" + w) in glued or (w + "(") in glued for w in ("and", "or", "not")):
                cases.append({"text": glued, "protocol": "auto", "tree": t, "rendering": "glued-auto"})
        if t[0] == "and":           # list-of-terms form: every argument is one term, AND-ed
            cases.append({"text": [render_min(t[1]), render_min(t[2], None, True)], "protocol": "v2", "tree": t, "rendering": "list"})
            # terms in their redundant / canonical renderings: "(a) or (b)" starts and ends with a parenthesis without being one group
            cases.append({"text": [render_full(t[1]), render_full(t[2])], "protocol": "v2", "tree": t, "rendering": "list-redundant"})
            cases.append({"text": [canonical(t[2]), render_full(t[1])], "protocol": "v2", "tree": ("and", t[2], t[1]), "rendering": "list-mixed"})

            def open_top(e):            # "(l) op (r)": parenthesised operands, no parentheses around the whole term
                return "(%s) %s (%s)" % (render_min(e[1]), e[0], render_min(e[2])) if e[0] in ("and", "or") else render_min(e)
            cases.append({"text": [open_top(t[1]), open_top(t[2])], "protocol": "v2", "tree": t, "rendering": "list-open"})
    # ... and with one side glued only, so that no keyword or parenthesis stands alone between blanks: "a and(b)", "(a)or (b)"
    simple = [a for a in atoms()]
    for x in simple:
        for y in simple:
            for op in ("and", "or"):
                tx, ty = render_min(x), render_min(y)
                for txt in ("%s %s(%s)" % (tx, op, ty), "(%s)%s (%s)" % (tx, op, ty), "%s %s(not %s)" % (tx, op, ty) if False else "%s %s(%s )" % (tx, op, ty)):
                    for proto in ("v2", "auto"):
                        cases.append({"text": txt, "protocol": proto, "tree": (op, x, y), "rendering": "half-glued"})
    cases.append({"text": "", "protocol": "v2", "tree": ("true",), "rendering": "empty"})
    cases.append({"text": [], "protocol": "v2", "tree": ("true",), "rendering": "empty-list"})
    for _ in range(3000 if thorough else 500):
        toks = [rnd.choice(SOUP) for _ in range(rnd.randint(1, 7))]
        cases.append({"text": rnd.choice([" ", "", "  "]).join(toks) if rnd.random() < 0.3 else " ".join(toks), "protocol": "v2"})
    return [{"name": "expressions", "cases": cases, "impl": tagx.impl_expr, "oracle": oracle, "exhaustive": True,
             "nontrivial": lambda c, o: bool(o.get("ok")) and 0 < sum(o["truth"]) < len(o["truth"]),
             "bound": "%d trees x renderings, %d cases" % (len(base) + len(extra), len(cases)),
             "shrink": lambda c: [],
             "coq": {"header": tagx.HEADER_V2, "in_ty": "bool * list ustr", "out_ty": "v2obs", "fn": "run_v2",
                     "eqb": "v2obs_eqb", "enc": enc, "shard": 250}}]
