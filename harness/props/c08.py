"""C08 — v1 tag expressions keep their meaning; dialect auto-detection never misreads."""
from __future__ import annotations
import random, itertools
import tagx
from tagx import SUBSETS, truth, render_min, rnd_tree
from common import clist, cbool, cstr

TRUSTED = [
    "Coq 8.16.1 kernel (coqc, vm_compute); no axioms",
    "harness/tagx.py + harness/props/c08.py: CNF renderer and independent truth tables",
    "int() of the limit suffix is modelled for plain decimal digits only",
]
ASSUMPTIONS = ["tag names are clean (no blank, comma, colon, parenthesis, wildcard or leading -/~ inside a name)"]
RULE = ("all CNF formulas with 1-2 argument groups x 1-2 alternatives over 4 tags with every negation/@ decoration (exhaustive), "
        "seeded random ones up to 3x3 with ':limit' suffixes, given as argument list or one blank-separated string (also with leading, trailing and repeated blanks), under protocols "
        "v1 and auto_detect; all v2 renderings of C07 under auto_detect; mixed texts (old negation prefix next to new-style operators, "
        "incl. directly behind a parenthesis); complete truth tables over 64 tag subsets")
LEVEL_TEXT = ("Theorems over TagExpr.v: the v1 check is the conjunction of the disjunctions it was built from; every decorated spelling of a tag "
              "normalizes to the same test; the auto-detection decision is v1 for texts with a comma / a negation prefix / several "
              "words and no v2 keyword, v2 for texts with an operator word, parenthesis or wildcard and no negation prefix, and an error "
              "for both.  Model compared with the implementation (decision, error class, truth tables); oracle evaluates the CNF directly.")
LEVEL_NOTE = "Trusted: Coq kernel, renderer. Known finding: a single old-style word with a ':limit' suffix is read as a v2 literal."
EXHAUSTIVE = True

TAGS = ["a", "foo", "b.c", "x-y=1"]


def cnf_truth(cnf):
    return [all(any((t not in s) if neg else (t in s) for (neg, t, _d, _l) in grp) for grp in cnf) for s in SUBSETS]


def render_alt(alt):
    neg, tag, deco, limit = alt          # deco: (prefix char for negation, with_at)
    negch, at = deco
    s = (negch if neg else "") + ("@" if at else "") + tag
    if limit is not None:
        s += ":%d" % limit
    return s


def render_cnf(cnf):
    return [",".join(render_alt(a) for a in grp) for grp in cnf]


def oracle(case, obs):
    out = []
    kind = case["kind"]
    if kind == "cnf":
        want = cnf_truth(case["cnf"])
        if not obs["ok"]:
            return [("old-style expression %r (%s) was rejected: %s" % (case["text"], case["protocol"], obs.get("err")), "v1-rejected")]
        if obs["truth"] != want:
            i = [k for k, (a, b) in enumerate(zip(obs["truth"], want)) if a != b][0]
            single_limit = (case["protocol"] == "auto" and len(case["cnf"]) == 1 and len(case["cnf"][0]) == 1
                            and case["cnf"][0][0][3] is not None and not case["cnf"][0][0][0])
            sig = "auto-single-word-with-limit-read-as-v2" if single_limit else ("v1-meaning" if case["protocol"] == "v1" else "auto-misreads-v1")
            out.append(("%r under %s selects %s: %s, the CNF says %s" % (case["text"], case["protocol"], SUBSETS[i], obs["truth"][i], want[i]), sig))
    elif kind == "v2":
        want = truth(case["tree"])
        if obs.get("selected") != "v2":
            out.append(("new-style %r was detected as %s" % (case["text"], obs.get("selected")), "auto-misreads-v2"))
        elif not obs["ok"] or obs["truth"] != want:
            out.append(("new-style %r under auto_detect does not have its formula's meaning" % (case["text"],), "auto-misreads-v2"))
    elif kind == "mixed":
        if obs["ok"] or obs.get("err") != "TagExpressionError":
            out.append(("mixed text %r was accepted (%s) instead of a tag-expression error" % (case["text"], obs.get("repr") or obs.get("err")), "mixed-not-rejected"))
    return out


# ------------------------------------------------------------------ Coq side
HEADER = tagx.HEADER_V2 + """
Definition dialect_eqb (a b : dialect) : bool :=
  match a, b with DV1, DV1 | DV2, DV2 | DMixed, DMixed => true | _, _ => false end.
Definition v1obs := (dialect * bool * list bool)%type.
Definition v1obs_eqb (a b : v1obs) : bool :=
  let '(d1, o1, t1) := a in let '(d2, o2, t2) := b in dialect_eqb d1 d2 && Bool.eqb o1 o2 && list_eqb Bool.eqb t1 t2.
Definition run_v1_parts (parts : list ustr) : bool * list bool :=
  match v1_groups parts with
  | Some ands => (true, map (v1_check (filter (fun g => negb (match g with [] => true | _ => false end)) ands)) subsets)
  | None => (false, [])
  end.
(* c = (auto?, is_list?, texts) *)
Definition run_any (c : bool * bool * list ustr) : v1obs :=
  let '(auto, is_list, texts) := c in
  let text := join [cSP] texts in
  let parts := if is_list then texts else split_ws text in
  if auto then
    match select_auto text with
    | DMixed => (DMixed, false, [])
    | DV1 => let r := run_v1_parts parts in (DV1, fst r, snd r)
    | DV2 => let o := (if is_list then obs_of (parse_v2_list texts) else obs_of (parse_v2 text)) in
             (DV2, fst (fst (fst o)), snd o)
    end
  else let r := run_v1_parts parts in (DV1, fst r, snd r).
"""


def enc(case, obs):
    text = case["text"]
    is_list = isinstance(text, list)
    texts = text if is_list else [text]
    auto = case["protocol"] == "auto"
    i = "(%s, %s, %s)" % (cbool(auto), cbool(is_list), clist([cstr(t) for t in texts], "ustr"))
    if auto:
        sel = obs.get("selected")
        if sel not in ("v1", "v2", "mixed"):
            return None
        d = {"v1": "DV1", "v2": "DV2", "mixed": "DMixed"}[sel]
    else:
        d = "DV1"
    if not obs["ok"]:
        if obs.get("err") not in ("TagExpressionError", "ValueError", "Exception"):
            return None
        return i, "(%s, false, (@nil bool))" % d
    return i, "(%s, true, %s)" % (d, clist([cbool(b) for b in obs["truth"]], "bool"))


# ------------------------------------------------------------------ several configurations built one after another
def impl_sequence(case):
    import contextlib, io
    from behave.configuration import Configuration
    outs = []
    for proto, args, _kind, _sem in case["steps"]:
        kw = {} if proto is None else {"tag_expression_protocol": proto}
        try:
            with contextlib.redirect_stdout(io.StringIO()), contextlib.redirect_stderr(io.StringIO()):
                cfg = Configuration(["--tags=" + a for a in args], load_config=False, **kw)
            outs.append({"ok": True, "truth": [bool(cfg.tag_expression.check(list(su))) for su in SUBSETS]})
        except BaseException as e:      # noqa
            outs.append({"ok": False, "err": type(e).__name__})
    return {"outs": outs}


def oracle_sequence(case, obs):
    out = []
    for i, ((proto, args, kind, sem), o) in enumerate(zip(case["steps"], obs["outs"])):
        hist = [(p or "default", a) for p, a, _k, _s in case["steps"][:i]]
        if kind == "mixed":
            if o["ok"] or o.get("err") != "TagExpressionError":
                out.append(("configuration #%d (protocol %s, --tags %r, after %r): mixed text accepted or wrong error (%s)" % (
                    i, proto or "default", args, hist, o.get("err")), "sequence-mixed-not-rejected"))
            continue
        want = cnf_truth(sem) if kind == "cnf" else truth(sem)
        if not o["ok"]:
            out.append(("configuration #%d (protocol %s, --tags %r, after %r) was rejected: %s" % (i, proto or "default", args, hist, o.get("err")),
                        "sequence-rejected"))
        elif o["truth"] != want:
            k = [j for j, (a, b) in enumerate(zip(o["truth"], want)) if a != b][0]
            out.append(("configuration #%d (protocol %s, --tags %r) built after %r selects %s: %s, its own meaning says %s" % (
                i, proto or "default", args, hist, SUBSETS[k], o["truth"][k], want[k]), "sequence-depends-on-history"))
    return out


def gen_sequences(rnd, n):
    decos = [("-", False), ("-", True), ("~", False), ("~", True)]
    cases = []
    for _ in range(n):
        steps = []
        for _k in range(rnd.randint(2, 4)):
            r = rnd.random()
            if r < 0.4:
                cnf = [[(rnd.random() < 0.4, rnd.choice(TAGS[:3]), rnd.choice(decos), None) for _a in range(rnd.randint(1, 2))]
                       for _g in range(rnd.randint(1, 2))]
                cnf = [[(neg, t, d if neg else ("", rnd.random() < 0.5), l) for neg, t, d, l in g] for g in cnf]
                if len(cnf) == 1 and len(cnf[0]) == 1 and not cnf[0][0][0]:
                    cnf[0].append((True, "foo", ("-", True), None))          # one positive word alone is not recognisably old-style
                steps.append([rnd.choice([None, "v1", "auto_detect"]), render_cnf(cnf), "cnf", cnf])
            elif r < 0.85:
                t = rnd_tree(rnd, rnd.randint(1, 2))
                if t[0] in ("lit", "mat"):
                    t = ("not", t)
                steps.append([rnd.choice([None, "v2", "auto_detect"]), [render_min(t, None, rnd.random() < 0.5)], "v2", t])
            else:
                steps.append([rnd.choice([None, "auto_detect"]), ["-a and foo"], "mixed", None])
        cases.append({"steps": steps})
    return cases


def suites(tier, seed):
    rnd = random.Random(seed * 524287 + 8)
    thorough = tier == "thorough"
    cases = []
    decos = [("-", False), ("-", True), ("~", False), ("~", True)]

    def add_cnf(cnf):
        parts = render_cnf(cnf)
        for proto in ("v1", "auto"):
            cases.append({"kind": "cnf", "cnf": cnf, "text": parts, "protocol": proto})
            cases.append({"kind": "cnf", "cnf": cnf, "text": " ".join(parts), "protocol": proto})
        if len(cases) % 5 < 2:
            # the one-string form laid out differently: leading / trailing / repeated blanks
            k = len(cases) // 5
            # (blanks only: the property speaks of one space-separated string; tabs reach the third-party v2 tokenizer, which
            #  turns every white-space character other than a blank into a token of its own)
            lay = [lambda ps: " " + " ".join(ps), lambda ps: " ".join(ps) + " ", lambda ps: "  ".join(ps) + ("" if len(ps) > 1 else "  "),
                   lambda ps: "  " + "   ".join(ps), lambda ps: " " + "  ".join(ps) + " "][k % 5]
            for proto in ("v1", "auto"):
                cases.append({"kind": "cnf", "cnf": cnf, "text": lay(parts), "protocol": proto})
        if any(len(g) > 1 for g in cnf) and len(cases) % 3 == 0:
            # blanks around the commas of an argument (only possible in the argument-list form) do not change its meaning
            seps = [",", ", ", " ,", " , ", ",  "]
            spaced = []
            for grp in cnf:
                t = render_alt(grp[0])
                for a in grp[1:]:
                    t += seps[(len(cases) + len(t)) % len(seps)] + render_alt(a)
                spaced.append((" " if len(t) % 2 else "") + t + (" " if len(t) % 3 == 0 else ""))
            for proto in ("v1", "auto"):
                cases.append({"kind": "cnf", "cnf": cnf, "text": spaced, "protocol": proto})
    alts = [(neg, t, d, None) for t in TAGS[:3] for neg in (False, True) for d in (decos if neg else [("", False), ("", True)])]
    small = [[list(g)] for n in (1, 2) for g in itertools.product(alts, repeat=n)]
    if not thorough:
        small = [c for i, c in enumerate(small) if i % 4 == 0 or len(c[0]) == 1]
    for cnf in small:
        add_cnf(cnf)
    for _ in range(1500 if thorough else 250):
        cnf = []
        for _g in range(rnd.randint(1, 3)):
            grp = []
            for _a in range(rnd.randint(1, 3)):
                neg = rnd.random() < 0.4
                grp.append((neg, rnd.choice(TAGS), rnd.choice(decos) if neg else ("", rnd.random() < 0.5),
                            rnd.choice([None, None, None, 3])))
            cnf.append(grp)
        # limits for one tag must be consistent
        add_cnf(cnf)
    # empty alternatives: an empty --tags= value next to other arguments, and a leading / trailing / doubled comma inside one
    # argument. An empty alternative carries no negation prefix, so it is an ordinary (never satisfied) alternative: 'a,' means a,
    # ['a,b', ''] selects nothing. Only shapes whose other parts force the old dialect are asked of auto_detect.
    EMPTY = (False, "", ("", False), None)
    bases = [[(False, "a", ("", False), None)], [(False, "a", ("", True), None), (False, "foo", ("", False), None)],
             [(True, "a", ("-", False), None)], [(True, "foo", ("~", True), None), (False, "b.c", ("", False), None)]]
    for bi, base in enumerate(bases):
        for where in ("trailing", "leading", "inner"):
            grp = {"trailing": base + [EMPTY], "leading": [EMPTY] + base, "inner": base[:1] + [EMPTY] + base[1:]}[where]
            for extra in ([], [[(False, "b.c", ("", False), None)]], [[(True, "x-y=1", ("-", False), None)]]):
                cnf = [grp] + extra
                parts = render_cnf(cnf)
                for proto in ("v1", "auto"):
                    cases.append({"kind": "cnf", "cnf": cnf, "text": parts, "protocol": proto})
                    cases.append({"kind": "cnf", "cnf": cnf, "text": " ".join(parts), "protocol": proto})
        forced = len(base) > 1 or base[0][0]          # a comma or a negation prefix: the old dialect also under auto_detect
        for cnf in ([base, [EMPTY]], [[EMPTY], base], [base, [EMPTY], [(False, "b.c", ("", False), None)]]):
            cases.append({"kind": "cnf", "cnf": cnf, "text": render_cnf(cnf), "protocol": "v1"})
            if forced:
                cases.append({"kind": "cnf", "cnf": cnf, "text": render_cnf(cnf), "protocol": "auto"})
    cases.append({"kind": "cnf", "cnf": [[EMPTY]], "text": [""], "protocol": "v1"})
    # tags that are new-style operator words in another letter case (OR, And, NOT): ordinary tags in both dialects, so a text
    # made of them and of commas / negation prefixes / several words is pure old style
    for word in ("OR", "And", "NOT", "Or", "nOt"):
        for neg in (False, True):
            w = (neg, word, ("-", False) if neg else ("", False), None)
            for cnf in ([[(False, "a", ("", False), None), (False, "foo", ("", False), None)], [w]],
                        [[(False, "a", ("", False), None)], [w], [(False, "foo", ("", True), None)]],
                        [[w, (False, "a", ("", False), None)]],
                        [[w], [(True, "b.c", ("~", False), None)]]):
                add_cnf(cnf)
    for _ in range(1200 if thorough else 250):
        t = rnd_tree(rnd, rnd.randint(1, 3))
        if t[0] in ("lit",):
            continue
        cases.append({"kind": "v2", "tree": t, "text": render_min(t, None, rnd.random() < 0.5), "protocol": "auto"})
    for _ in range(600 if thorough else 150):
        t = rnd_tree(rnd, rnd.randint(1, 3))
        if t[0] in ("lit", "mat"):
            t = ("and", t, ("lit", "a"))
        txt = render_min(t, None, rnd.random() < 0.5)
        words = txt.split(" ")
        # put an old negation prefix on one operand: at a word start, possibly directly behind a parenthesis
        idx = [i for i, w in enumerate(words) if w not in ("and", "or", "not") and w.strip("()")]
        i = rnd.choice(idx)
        w = words[i]
        k = len(w) - len(w.lstrip("("))
        words[i] = w[:k] + rnd.choice("-~") + w[k:]
        cases.append({"kind": "mixed", "text": " ".join(words), "protocol": "auto"})
    seqs = gen_sequences(random.Random(seed * 131 + 88), 600 if thorough else 150)
    seq_suite = {"name": "configuration_sequences", "cases": seqs, "impl": impl_sequence, "oracle": oracle_sequence,
                 "nontrivial": lambda c, o: len(set(p for p, _a, _k, _s in c["steps"])) > 1,
                 "bound": "%d sequences of 2-4 configurations (protocol default / v1 / v2 / auto_detect x --tags in either dialect) built in one process" % len(seqs)}
    return [seq_suite, {"name": "dialects", "cases": cases, "impl": tagx.impl_expr, "oracle": oracle, "exhaustive": True,
             "nontrivial": lambda c, o: bool(o.get("ok")) and 0 < sum(o["truth"]) < len(o["truth"]),
             "bound": "%d cases (exhaustive small CNFs x 4 spellings, random CNFs, v2 and mixed texts under auto_detect)" % len(cases),
             "coq": {"header": HEADER, "in_ty": "bool * bool * list ustr", "out_ty": "v1obs", "fn": "run_any",
                     "eqb": "v1obs_eqb", "enc": enc, "shard": 250}}]
