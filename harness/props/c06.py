"""C06 — Scenario Outline expansion: one scenario per row, exact placeholder substitution."""
from __future__ import annotations
import random, re, copy
from common import clist, cbool, cstr, cnat

TRUSTED = [
    "Coq 8.16.1 kernel (coqc, vm_compute); no axioms",
    "harness/gen_more.py gen_outline: str.isalnum ranges, Tag.allowed_chars, default annotation schema; gen_unicode: str.isspace",
    "behave's Gherkin parser delivers the outline the harness rendered (names, tags, steps, doc-strings, tables, line numbers are compared "
    "with the renderer's own bookkeeping through the model input)",
    "copy.deepcopy (template immutability is checked on the implementation by the oracle, it is purity in the model)",
]
ASSUMPTIONS = [
    "str.format of the annotation schema: plain {field} replacement fields and {{ }} escapes only (no conversions / format specs)",
    "table cells and names carry no leading/trailing blanks, '|' or backslashes (that is the parser's business: C04/C05)",
    "cell values containing '<column>' of another column (chained substitution) are outside the property's quantifier: the model follows the code there, the oracle is silent",
]
RULE = ("seeded random outlines: placeholders (known, unknown, repeated, adjacent, column names with blanks/dots/non-ASCII) in the outline name, "
        "step names, doc-strings, step-table headings and cells, tags and background steps; 0-3 examples blocks with permuted column orders, "
        "names with placeholders, tags, 0-3 rows; cell values empty / unicode / blanks / other column names as plain text / '>' ; 6 annotation "
        "schemas incl. escapes and invalid ones; histories of scenarios-accesses interleaved with add_row / add_column / remove_column / clear "
        "on the examples tables")
LEVEL_TEXT = ("Theorems over Outline.v: build yields exactly one scenario per row in block-then-row order located at the row's line; its tags are "
              "the rendered outline tags followed by the block's tags; sequential str.replace over a template of literal and <hole> chunks equals "
              "filling the holes (under the stated no-'<' side conditions) and leaves text without placeholders unchanged; after any history of "
              "table-API operations and accesses every access returns build of the current tables.  Model compared with ScenarioOutline.scenarios "
              "on parsed features.")
LEVEL_NOTE = "Trusted: Coq kernel, generated character tables, the Gherkin parser for delivering the template."
EXHAUSTIVE = False

COLS = ["name", "n", "user name", "a.b", "Ü"]
VALUES = ["", "Alice", "two words", "Ünï cödé", "name", "n", "42", "x>y", "a-b_c", "it's", "Q&A", "semi;colon", "<unset>", "x<y>z", "1 < 2 > 0"]
# values with angle brackets around text that is no column or parameter name: nothing in them can be substituted again
SAFE_BRACKETED = ["<unset>", "x<y>z", "1 < 2 > 0"]
CHAINED = ["<n>", "<name>", "a<b"]
SCHEMAS = [None, "{name} -- @{row.id} {examples.name}", "{name} <{row.index}/{examples.index}>", "{{x}} {name} {row.id}",
           "{examples.name}:{name}", "{nope} {name}", "{name"]
KEYWORDS = ["Given", "When", "Then", "And", "But"]


# ---------------------------------------------------------------- rendering an abstract outline as Gherkin
def render_feature(case):
    """returns text; fills in the line numbers (steps, rows, tables) in a copy of the case"""
    c = copy.deepcopy(case)
    lines = ["Feature: F"]

    def emit(s):
        lines.append(s)
        return len(lines)

    def emit_step(st, indent):
        st["line"] = emit("%s%s %s" % (indent, st["keyword"], st["name"]))
        if st.get("doc") is not None:
            emit(indent + '  """')
            for ln in st["doc"].split("\n"):
                emit(indent + "  " + ln)
            emit(indent + '  """')
        if st.get("table") is not None:
            h, rows = st["table"]
            emit(indent + "  | " + " | ".join(h) + " |")
            for r in rows:
                emit(indent + "  | " + " | ".join(r) + " |")
    if c["background"]:
        emit("  Background:")
        for st in c["background"]:
            emit_step(st, "    ")
    if c.get("in_rule"):
        emit("  Rule: R")          # the outline lives in a Rule that inherits the feature's Background
    if c["tags"]:
        emit("  " + " ".join("@" + t for t in c["tags"]))
    emit("  Scenario Outline: " + c["name"])
    for st in c["steps"]:
        emit_step(st, "    ")
    for ex in c["examples"]:
        if ex["tags"]:
            emit("    " + " ".join("@" + t for t in ex["tags"]))
        emit("    Examples: " + ex["name"])
        if ex["table"] is not None:
            t = ex["table"]
            t["line"] = emit("      | " + " | ".join(t["head"]) + " |")
            gaps = t.pop("gaps", None) or [None] * len(t["rows"])
            rows = []
            for cells, gap in zip(t["rows"], gaps):
                if gap is not None:
                    emit(gap)
                rows.append([cells, emit("      | " + " | ".join(cells) + " |")])
            t["rows"] = rows
    return "\n".join(lines) + "\n", c


# ---------------------------------------------------------------- implementation
def table_headings(table):
    """The heading line of a step table as its users see it: through the table and through each of its rows (row[...],
    row.get, row.as_dict go through row.headings). When the two views differ both are reported."""
    head = list(table.headings)
    stale = [list(r.headings) for r in table.rows if list(r.headings) != head]
    return head if not stale else {"table.headings": head, "row.headings": stale[0]}


def describe_step(st):
    return {"keyword": st.keyword, "name": st.name, "doc": (str(st.text) if st.text is not None else None),
            "table": ([table_headings(st.table), [list(r.cells) for r in st.table.rows]] if st.table is not None else None),
            "line": st.line}


def describe(sc):
    return {"name": sc.name, "tags": [str(t) for t in sc.tags], "line": sc.line, "keyword": sc.keyword,
            "steps": [describe_step(s) for s in sc.steps], "background": [describe_step(s) for s in sc.background_steps]}


def impl_outline(case):
    import io, contextlib
    from behave.parser import parse_feature
    from behave.model import ScenarioOutline
    text, filled = render_feature(case)
    feature = parse_feature(text, filename="f.feature")
    holders = [feature] + list(getattr(feature, "rules", []))
    outline = [s for h in holders for s in h.run_items if isinstance(s, ScenarioOutline)][0]
    if case["schema"] is not None:
        outline.annotation_schema = case["schema"]
    template_before = [describe_step(s) for s in outline.steps]
    parsed = {"name": outline.name, "tags": [str(t) for t in outline.tags], "steps": template_before,
              "examples": [{"name": e.name, "tags": [str(t) for t in e.tags],
                            "table": ({"head": list(e.table.headings), "rows": [[list(r.cells), r.line] for r in e.table.rows], "line": e.table.line}
                                      if e.table is not None else None)} for e in outline.examples]}
    outs = []
    for h in case["history"]:
        if h[0] == "access":
            try:
                with contextlib.redirect_stdout(io.StringIO()):
                    outs.append([describe(s) for s in outline.scenarios])
            except Exception as e:   # noqa
                outs.append({"error": type(e).__name__})
        else:
            _, i, op = h
            t = outline.examples[i].table
            if t is None:
                continue
            try:
                if op[0] == "add_row":
                    t.add_row(list(op[1]), op[2]) if op[2] is not None else t.add_row(list(op[1]))
                elif op[0] == "add_column":
                    t.add_column(op[1], values=(list(op[2]) if op[2] is not None else None), default_value=op[3])
                elif op[0] == "remove_column":
                    t.remove_column(op[1])
                elif op[0] == "clear":
                    t.clear()
            except (AssertionError, KeyError):
                pass
    return {"outs": outs, "template_after": [describe_step(s) for s in outline.steps], "template_before": template_before,
            "parsed": parsed, "filled": filled}


# ---------------------------------------------------------------- oracle: simultaneous hole filling
def fill(text, mapping):
    return re.sub(r"<([^<>]*)>", lambda m: mapping.get(m.group(1), m.group(0)), text)


def doc_tag_name(text):
    out = []
    for ch in text.replace("\\t", "\t").replace("\\n", "\n"):
        if ch.isalnum() or ch in "._-=:,;()":
            out.append(ch)
        elif ch.isspace():
            out.append("_")
    return "".join(out)


class _Data(object):
    def __init__(self, name, index):
        self.name = name
        self.index = index
        self.id = name


def expected_scenarios(case, tables, schema):
    """tables: per examples block None or {"head": [...], "rows": [[cells, line]...]}"""
    res = []
    schema = schema if schema is not None else "{name} -- @{row.id} {examples.name}"
    for ei, (ex, t) in enumerate(zip(case["examples"], tables), 1):
        if t is None:
            continue
        for ri, (cells, line) in enumerate(t["rows"], 1):
            row = {}
            for h, c in zip(t["head"], cells):
                row.setdefault(h, c)        # a repeated heading: row[name] is the first such cell
            params = {"examples.index": str(ei), "row.index": str(ri), "row.id": "%d.%d" % (ei, ri)}
            full = dict(params)
            full.update(row)
            ex_name = fill(ex["name"], dict(full, **{"examples.name": ex["name"]}))
            full["examples.name"] = ex_name
            full.update(row)
            name = schema.format(name=fill(case["name"], full), examples=_Data(ex_name, ei), row=_Data(params["row.id"], ri))
            tags = []
            for tg in case["tags"]:
                if "<" in tg and ">" in tg:
                    s = fill(tg, full)
                    if "<" in s and ">" in s:
                        continue
                    tags.append(doc_tag_name(s))
                else:
                    tags.append(tg)
            tags += ex["tags"]

            def st(s, with_params=True):
                return {"keyword": s["keyword"], "name": fill(s["name"], full),
                        "doc": (fill(s["doc"], row) if s.get("doc") is not None else None),
                        "table": ([[fill(x, row) for x in s["table"][0]], [[fill(x, row) for x in r] for r in s["table"][1]]]
                                  if s.get("table") is not None else None), "line": s["line"]}
            bg_param = any("<" in s["name"] and ">" in s["name"] for s in case["background"])
            res.append({"name": name, "tags": tags, "line": line, "steps": [st(s) for s in case["steps"]],
                        "background": [st(s) if bg_param else dict(keyword=s["keyword"], name=s["name"], doc=s.get("doc"), table=s.get("table"), line=s["line"])
                                       for s in case["background"]]})
    return res


def apply_op(t, op):
    if op[0] == "add_row":
        t["rows"].append([list(op[1]), op[2] if op[2] is not None else t["line"] + len(t["rows"]) + 1])
    elif op[0] == "add_column":
        if op[1] in t["head"]:
            return
        vals = list(op[2]) if op[2] is not None else []
        for i, r in enumerate(t["rows"]):
            r[0] = r[0] + [vals[i] if i < len(vals) else op[3]]
        t["head"] = t["head"] + [op[1]]
    elif op[0] == "remove_column":
        if op[1] not in t["head"]:
            return
        i = t["head"].index(op[1])
        t["head"] = t["head"][:i] + t["head"][i + 1:]
        for r in t["rows"]:
            r[0] = r[0][:i] + r[0][i + 1:]
    elif op[0] == "clear":
        t["rows"] = []


def ex_tags_of(filled, line):
    for e in filled["examples"]:
        if e["table"] and any(r[1] == line for r in e["table"]["rows"]):
            return e["tags"]
    return []


def chained(case, tables):
    vals = [v for t in tables if t for r in t["rows"] for v in r[0]] + [h for t in tables if t for h in t["head"]]
    return any("<" in v and v not in SAFE_BRACKETED for v in vals)


def oracle(case, obs):
    out = []
    filled = obs["filled"]
    if obs["template_after"] != obs["template_before"]:
        out.append(("expanding the outline changed the outline's own steps: %r -> %r" % (obs["template_before"], obs["template_after"]),
                    "template-mutated"))
    tables = [copy.deepcopy(e["table"]) for e in filled["examples"]]
    k = 0
    for h in case["history"]:
        if h[0] != "access":
            if tables[h[1]] is not None:
                apply_op(tables[h[1]], h[2])
            continue
        got = obs["outs"][k]
        k += 1
        try:
            want = expected_scenarios(filled, tables, case["schema"])
        except (KeyError, AttributeError, ValueError, IndexError):
            continue        # the annotation schema itself is invalid: outside the property
        if isinstance(got, dict):
            out.append(("building the scenarios raised %s (history %r)" % (got["error"], case["history"]), "build-raises:" + got["error"]))
            continue
        if len(got) != len(want):
            out.append(("access #%d: %d scenarios for %d rows (rows per block: %r)" % (
                k, len(got), len(want), [len(t["rows"]) if t else None for t in tables]), "scenario-count"))
            continue
        if [g["line"] for g in got] != [w["line"] for w in want]:
            out.append(("access #%d: scenario lines %r, row lines in block-then-row order %r" % (
                k, [g["line"] for g in got], [w["line"] for w in want]), "scenario-order-or-line"))
            continue
        if chained(filled, tables):
            continue
        for g, w in zip(got, want):
            for key, sig in (("name", "name-substitution"), ("tags", "tags-substitution"), ("steps", "step-substitution"),
                             ("background", "background-substitution")):
                if g[key] != w[key]:
                    gv, wv = g[key], w[key]
                    if key in ("steps", "background"):
                        bad = [(a, b) for a, b in zip(gv, wv) if a != b][:1]
                        gv, wv = (bad[0] if bad else (gv, wv))
                    sig2 = sig
                    if key == "tags":
                        # would the tags agree if the sanitising of parametrised tags were applied to the plain ones too?
                        n_ex = len(w["tags"]) - len([t for t in filled["tags"] if not ("<" in t and ">" in t and "<" in fill(t, {}))])
                        alt = [doc_tag_name(t) for t in w["tags"][:len(w["tags"]) - len(g["tags"][len(g["tags"]):])]]
                        own = len(w["tags"]) - len(ex_tags_of(filled, g["line"]))
                        if [doc_tag_name(t) for t in w["tags"][:own]] + w["tags"][own:] == g["tags"]:
                            sig2 = "plain-tag-rewritten"
                    out.append(("access #%d, row at line %d: %s is %r, exact substitution gives %r" % (k, g["line"], key, gv, wv), sig2))
                    break
    return out


# ---------------------------------------------------------------- Coq encoding
HEADER = "From BV Require Import Base UStr Outline.\nFrom BVGen Require Import OutlineTables.\n"


def c_strs(l):
    return clist([cstr(x) for x in l], "ustr")


def c_step(s):
    doc = "None" if s.get("doc") is None else "(Some %s)" % cstr(s["doc"])
    tab = "None" if s.get("table") is None else "(Some (%s, %s))" % (c_strs(s["table"][0]), clist([c_strs(r) for r in s["table"][1]], "list ustr"))
    return "(mkStep %s %s %s %s %s)" % (cstr(s["keyword"]), cstr(s["name"]), doc, tab, cnat(s["line"]))


def c_steps(l):
    return clist([c_step(s) for s in l], "step")


def c_table(t):
    if t is None:
        return "None"
    return "(Some (mkTable %s %s %s true))" % (c_strs(t["head"]), clist(["(%s, %s)" % (c_strs(r[0]), cnat(r[1])) for r in t["rows"]], "list ustr * nat"),
                                               cnat(t["line"]))


def c_op(op):
    if op[0] == "add_row":
        return "(AddRow %s %s)" % (c_strs(op[1]), "None" if op[2] is None else "(Some %s)" % cnat(op[2]))
    if op[0] == "add_column":
        return "(AddColumn %s %s %s)" % (cstr(op[1]), "None" if op[2] is None else "(Some %s)" % c_strs(op[2]), cstr(op[3]))
    if op[0] == "remove_column":
        return "(RemoveColumn %s)" % cstr(op[1])
    return "Clear"


def c_scenario(s):
    return "(mkScenario %s %s %s %s %s)" % (cstr(s["name"]), c_strs(s["tags"]), cnat(s["line"]), c_steps(s["steps"]), c_steps(s["background"]))


def enc(case, obs):
    f = obs["filled"]
    schema = case["schema"]
    o = "(mkOutline %s %s %s %s %s %s (@nil scenario))" % (
        cstr(f["name"]), c_strs(f["tags"]), c_steps(f["steps"]), c_steps(f["background"]),
        clist(["(mkExamples %s %s %s)" % (cstr(e["name"]), c_strs(e["tags"]), c_table(e["table"])) for e in f["examples"]], "examples"),
        cstr(schema) if schema is not None else "default_annotation_schema")
    hist = clist(["HAccess" if h[0] == "access" else "(HTable %s %s)" % (cnat(h[1]), c_op(h[2])) for h in case["history"]], "hist_op")
    outs = clist(["(@None (list scenario))" if isinstance(x, dict) else "(Some %s)" % clist([c_scenario(s) for s in x], "scenario")
                  for x in obs["outs"]], "option (list scenario)")
    return "(%s, %s)" % (o, hist), outs


EQB = """
Definition opt_eqb {A} (e : A -> A -> bool) (a b : option A) : bool :=
  match a, b with Some x, Some y => e x y | None, None => true | _, _ => false end.
Definition strs_eqb := list_eqb ustr_eqb.
Definition step_eqb (a b : step) : bool :=
  ustr_eqb (s_keyword a) (s_keyword b) && ustr_eqb (s_text_name a) (s_text_name b) && opt_eqb ustr_eqb (s_doc a) (s_doc b) &&
  opt_eqb (fun x y => strs_eqb (fst x) (fst y) && list_eqb strs_eqb (snd x) (snd y)) (s_table a) (s_table b) && Nat.eqb (s_line a) (s_line b).
Definition scenario_eqb (a b : scenario) : bool :=
  ustr_eqb (sc_name a) (sc_name b) && strs_eqb (sc_tags a) (sc_tags b) && Nat.eqb (sc_line a) (sc_line b) &&
  list_eqb step_eqb (sc_steps a) (sc_steps b) && list_eqb step_eqb (sc_background a) (sc_background b).
Definition outs_eqb := list_eqb (opt_eqb (list_eqb scenario_eqb)).
"""


# ---------------------------------------------------------------- generators
def gen_text(rnd, cols, extra=(), p_hole=0.5):
    parts = []
    for _ in range(rnd.randint(1, 4)):
        r = rnd.random()
        if r < p_hole and cols:
            parts.append("<%s>" % rnd.choice(list(cols) + list(extra)))
        elif r < p_hole + 0.08:
            parts.append("<unknown>")
        elif r < p_hole + 0.12:
            parts.append(rnd.choice(["a < b", "x > 1", "<>", "< name >"]))
        else:
            parts.append(rnd.choice(["hello", "the user", "has", "items", "and", "Ünï", "name", "n"]))
    sep = rnd.choice([" ", " ", " ", ""])
    return sep.join(parts).strip() or "x"


def gen_step(rnd, cols, line_hint=0, params=()):
    st = {"keyword": rnd.choice(KEYWORDS), "name": gen_text(rnd, cols, params), "line": 0}
    r = rnd.random()
    if r < 0.2 or r > 0.92:             # (r > 0.92: a step may carry a doc-string AND a table)
        st["doc"] = "\n".join(gen_text(rnd, cols) for _ in range(rnd.randint(1, 3)))
    if 0.2 <= r < 0.4 or r > 0.92:
        w = rnd.randint(1, 3)
        st["table"] = [[gen_text(rnd, cols, p_hole=0.3).replace("|", "/") for _ in range(w)],
                       [[gen_text(rnd, cols, p_hole=0.6) if rnd.random() < 0.8 else "" for _ in range(w)] for _ in range(rnd.randint(0, 2))]]
    return st


def first_is_real(steps):
    if steps and steps[0]["keyword"] in ("And", "But"):
        steps[0]["keyword"] = "Given"
    return steps


def gen_case(rnd, allow_chained=False):
    cols = rnd.sample(COLS, rnd.randint(1, 3))
    params = ["row.id", "row.index", "examples.index", "examples.name"]
    tags = []
    for _ in range(rnd.choice([0, 1, 2, 3])):
        tc = [c for c in cols if " " not in c] or ["name"]
        tags.append(rnd.choice(["t1", "slow", "user_<%s>" % tc[0], "<%s>" % rnd.choice(tc), "n<%s>x<%s>" % (tc[0], tc[-1]), "a+b", "issue#12",
                                "<unknown>", "row<row.id>", "k=<%s>" % tc[0], "p(1)", "semi;x", "dot.ted-dash_us", "q'uote", "a+<%s>" % tc[0]]))
    examples = []
    for _ in range(rnd.choice([0, 1, 1, 2, 2, 3])):
        if rnd.random() < 0.07:
            examples.append({"name": "no table", "tags": [], "table": None})
            continue
        head = cols[:]
        rnd.shuffle(head)
        if rnd.random() < 0.2:
            head.append("extra")
        if rnd.random() < 0.15:
            # a heading written twice: the row's cell for that column is the one the Row API gives (row[name]: the first)
            head.insert(rnd.randint(0, len(head)), rnd.choice(head))
        pool = VALUES + (CHAINED if allow_chained else [])
        rows = [[rnd.choice(pool) for _ in head] for _ in range(rnd.choice([0, 1, 2, 2, 3]))]
        examples.append({"name": rnd.choice(["", "E", "for <%s>" % cols[0], "block <examples.index>", "Ünï"]),
                         "tags": rnd.sample(["ex1", "ex2", "with_<%s>" % ([c for c in cols if " " not in c] or ["name"])[0]], rnd.choice([0, 0, 1, 2])),
                         "table": {"head": head, "rows": rows, "line": 0,
                                   # comment / blank lines in front of a row: the row's line is where it is written
                                   "gaps": [rnd.choice([None, None, None, "      # note", "", "# c"]) for _ in rows]}})
    case = {"name": gen_text(rnd, cols, params if rnd.random() < 0.3 else ()), "tags": tags,
            "steps": first_is_real([gen_step(rnd, cols, params=(params if rnd.random() < 0.2 else ())) for _ in range(rnd.randint(1, 4))]),
            "background": first_is_real([gen_step(rnd, cols if rnd.random() < 0.5 else []) for _ in range(rnd.randint(1, 2))] if rnd.random() < 0.3 else []),
            "examples": examples, "schema": rnd.choice(SCHEMAS[:5] + SCHEMAS[:2] + (SCHEMAS[5:] if rnd.random() < 0.3 else []))}
    case["in_rule"] = bool(case["background"]) and rnd.random() < 0.5
    hist = [["access"]]
    withtab = [i for i, e in enumerate(examples) if e["table"] is not None]
    for _ in range(rnd.choice([0, 0, 1, 2, 4])):
        if withtab and rnd.random() < 0.75:
            i = rnd.choice(withtab + list(range(len(examples))))
            width = len(examples[i]["table"]["head"]) if examples[i]["table"] else 1
            kind = rnd.random()
            if kind < 0.4:
                op = ["add_row", [rnd.choice(VALUES) for _ in range(width)], rnd.choice([None, None, 99])]
            elif kind < 0.7:
                op = ["add_column", rnd.choice(["extra", "new", cols[0], "n"]), rnd.choice([None, ["v1"], ["v1", "v2", "v3", "v4"]]), rnd.choice(["", "dflt"])]
            elif kind < 0.9:
                op = ["remove_column", rnd.choice(cols + ["extra", "nope"])]
            else:
                op = ["clear"]
            hist.append(["table", i, op])
        else:
            hist.append(["access"])
    if hist[-1][0] != "access":
        hist.append(["access"])
    case["history"] = hist
    return case


def fix_widths(case):
    """add_row needs as many cells as the table has columns at that point; recompute from the history"""
    widths = [len(e["table"]["head"]) if e["table"] else 0 for e in case["examples"]]
    heads = [list(e["table"]["head"]) if e["table"] else [] for e in case["examples"]]
    rnd = random.Random(len(case["history"]))
    for h in case["history"]:
        if h[0] != "table" or not case["examples"][h[1]]["table"]:
            continue
        i, op = h[1], h[2]
        if op[0] == "add_row":
            op[1] = (op[1] + ["pad"] * 8)[:len(heads[i])]
        elif op[0] == "add_column" and op[1] not in heads[i]:
            heads[i].append(op[1])
        elif op[0] == "remove_column" and op[1] in heads[i]:
            heads[i].remove(op[1])
    return case


def histogram(cases, obs=None):
    h = {"examples_blocks": {}, "rows": {}, "history_len": {}, "with_background": 0, "with_table_ops": 0, "schemas": {}}
    for c in cases:
        h["examples_blocks"][len(c["examples"])] = h["examples_blocks"].get(len(c["examples"]), 0) + 1
        n = sum(len(e["table"]["rows"]) for e in c["examples"] if e["table"])
        h["rows"][n] = h["rows"].get(n, 0) + 1
        h["history_len"][len(c["history"])] = h["history_len"].get(len(c["history"]), 0) + 1
        h["with_background"] += bool(c["background"])
        h["with_table_ops"] += any(x[0] == "table" for x in c["history"])
        h["schemas"][str(c["schema"])] = h["schemas"].get(str(c["schema"]), 0) + 1
    return h


def shrink(case):
    for key in ("steps", "tags", "background", "examples"):
        for i in range(len(case[key])):
            if key == "steps" and len(case[key]) == 1:
                continue
            if key == "examples" and any(h[0] == "table" for h in case["history"]):
                continue
            yield dict(case, **{key: case[key][:i] + case[key][i + 1:]})
    for i in range(1, len(case["history"]) - 1):
        yield dict(case, history=case["history"][:i] + case["history"][i + 1:])
    for i, e in enumerate(case["examples"]):
        if e["table"] and len(e["table"]["rows"]) > 1 and not any(h[0] == "table" for h in case["history"]):
            for j in range(len(e["table"]["rows"])):
                t = dict(e["table"], rows=e["table"]["rows"][:j] + e["table"]["rows"][j + 1:])
                yield dict(case, examples=case["examples"][:i] + [dict(e, table=t)] + case["examples"][i + 1:])


def suites(tier, seed):
    rnd = random.Random(seed * 77 + 6)
    thorough = tier == "thorough"
    cases = [fix_widths(gen_case(rnd, allow_chained=(i % 10 == 9))) for i in range(4000 if thorough else 700)]
    main = {"name": "outlines", "cases": cases, "impl": impl_outline, "oracle": oracle, "shrink": shrink, "histogram": histogram,
            "nontrivial": lambda c, o: any(isinstance(x, list) and x for x in o["outs"]),
            "bound": "%d outlines x histories" % len(cases),
            "coq": {"header": HEADER + EQB, "in_ty": "outline * list hist_op", "out_ty": "list (option (list scenario))",
                    "fn": "fun c => snd (run_history (fst c) (snd c))", "eqb": "outs_eqb", "enc": enc, "shard": 50}}
    return [main]
