"""C20 — configuration precedence (command line over config file over defaults) and user data."""
from __future__ import annotations
import os, random, itertools, json
from common import clist, cbool, cstr, cZ

TRUSTED = [
    "Coq 8.16.1 kernel (coqc, vm_compute); no axioms",
    "harness/gen_more.py gen_config: argparse action table read from setup_parser(), config-file schema from configfile_options_iter(None), "
    "Configuration.defaults, config_filenames() order, logging level names, configparser BOOLEAN_STATES, valid formatter names",
    "configparser / tomllib (file syntax: the model starts from the key/value pairs they deliver), argparse's argv tokenisation "
    "(the model starts from option occurrences), os.path.dirname/expanduser, re.compile, the tag-expression parser",
    "float rounding: the model gives the exact decimal value of the text; the check only verifies that the float returned lies within half an ulp of it",
]
ASSUMPTIONS = [
    "ASCII digits and ASCII case mapping in int()/float()/lower()/upper(); '\\n' is the only line break inside config values",
    "TOML arrays hold strings; no [DEFAULT] section, no %-interpolation outside logging_format/logging_datefmt",
    "positional paths are contiguous on the command line; the '{config.tags}' placeholder is not used",
    "several configuration files assigning the same option: the model follows the code (later file in the search order wins, "
    "a file without [behave.userdata] resets user data); the oracle is silent there because the property does not rank files",
]
RULE = ("seeded random configurations: 0-3 config files out of {cwd, home} x {behave.ini, .behaverc, setup.cfg, tox.ini, pyproject.toml} assigning "
        "random subsets of all 38 file-visible options (Booleans in every accepted spelling, scalars, choices, typed values incl. invalid ones, "
        "append options with 0-3 lines, format/outfiles coupling, relative/absolute/dotted paths, userdata and runner sections) x command lines "
        "over all 52 argparse actions (positive and --no- forms, short/long/= spellings, repeated options, -D defines, positionals, trailing "
        "--color) x BEHAVE_STAGE; all -D strings over {a,b,=,\",',blank} up to length 6 (exhaustive) and documented forms by construction; "
        "user-data values x getint/getfloat/getbool incl. missing names and pre-converted values")
LEVEL_TEXT = ("Theorems over Config.v/UserData.v with the option tables generated from the code: the parsed namespace gives every single-valued "
              "option the value of its last command-line occurrence, else the merged configuration-file value, else the built-in default "
              "(Booleans through their --x/--no-x pairs); append options keep file order followed by command-line order; files later in the "
              "search order override earlier ones; paths/outfiles of a file are resolved relative to it; -D defines override file user data; "
              "the run's tag expression is --tags over the file's tags over default_tags; parse_user_define on the documented forms; getters: converted value / default / ValueError.  Model compared with "
              "Configuration(args) built in scratch directories.")
LEVEL_NOTE = "Trusted: Coq kernel, generated tables, configparser/tomllib/argparse tokenisation."
EXHAUSTIVE = False

# ---------------------------------------------------------------- the option panel (written by hand from the documentation)
BOOLS = {  # dest: (positive flags, negative flags, built-in default)
    "dry_run": (["-d", "--dry-run"], [], False),
    "junit": (["--junit"], ["--no-junit"], False),
    "show_skipped": (["--show-skipped"], ["--no-skipped"], True),
    "show_snippets": (["--snippets"], ["--no-snippets"], True),
    "show_multiline": (["--multiline"], ["--no-multiline"], True),
    "stdout_capture": (["--capture"], ["--no-capture"], True),
    "stderr_capture": (["--capture-stderr"], ["--no-capture-stderr"], True),
    "log_capture": (["--logcapture"], ["--no-logcapture"], True),
    "logging_clear_handlers": (["--logging-clear-handlers"], [], False),
    "summary": (["--summary"], ["--no-summary"], True),
    "quiet": (["-q", "--quiet"], [], False),
    "show_source": (["--show-source"], ["--no-source"], True),
    "stop": (["--stop"], [], False),
    "show_timings": (["--show-timings"], ["-T", "--no-timings"], True),
    "verbose": (["-v", "--verbose"], [], False),
    "wip": (["-w", "--wip"], [], False),
    "steps_catalog": (["--steps-catalog"], [], False),
}
SCALARS = {  # dest: (flags, default, value pool, invalid pool)
    "color": (["--color"], "auto", ["auto", "on", "off", "always", "never"], ["purple"]),
    "exclude_re": (["-e", "--exclude"], None, ["foo", "a.*b", "x|y"], []),
    "include_re": (["-i", "--include"], None, ["feat", "^f.*e$"], []),
    "junit_directory": (["--junit-directory"], "reports", ["rep", "out/junit"], []),
    "jobs": (["-j", "--jobs", "--parallel"], 1, ["0", "3", "12", " 7", "1_0", "+2"], ["-1", "x", "", "1__0", "2.0"]),
    "logging_level": (["--logging-level"], 20, ["DEBUG", "info", "Warn", "CRITICAL", "notset"], ["bogus", "10"]),
    "logging_format": (["--logging-format"], "%(levelname)s:%(name)s:%(message)s", ["%(message)s", "L %(name)s"], []),
    "logging_datefmt": (["--logging-datefmt"], None, ["%H:%M", "iso"], []),
    "logging_filter": (["--logging-filter"], None, ["foo", "-bar,baz"], []),
    "runner": (["-r", "--runner"], "behave.runner:Runner", ["my.mod:Runner", "default"], []),
    "stage": (["--stage"], None, ["dev", "prod"], []),
    "lang": (["--lang"], None, ["de", "fr"], []),
    "default_format": ([], "pretty", ["plain", "progress"], []),
    "scenario_outline_annotation_schema": ([], "{name} -- @{row.id} {examples.name}", ["{name} <{row.id}>", " {name} "], []),
    "tag_expression_protocol": ([], "auto_detect", ["v1", "V2", "auto_detect", "strict"], ["any"]),
}
LISTS = {  # dest: (flags, value pool, invalid pool)
    "format": (["-f", "--format"], ["plain", "json", "progress", "pretty", "null"], ["bogus"]),
    "name": (["-n", "--name"], ["foo", "bar baz", "a|b"], []),
    "outfiles": (["-o", "--outfile"], ["out.txt", "o/../x.json", "/abs/o.log", "-", "sub//f.out"], []),
    "tags": (["-t", "--tags"], ["@a", "not @b", "@x or @y"], []),
    "default_tags": ([], ["@d", "not @e"], []),
    "paths": ([], ["features", "a/../b", "./x/", "/abs/p", "sub//dir", "..", "../up", "f/one.feature:3"], []),
}
INI_TRUE = ["1", "yes", "true", "on", "True", "YES", "On"]
INI_FALSE = ["0", "no", "false", "off", "False", "NO", "Off"]
FILE_NAMES = ["behave.ini", ".behaverc", "setup.cfg", "tox.ini", "pyproject.toml"]
LEVELS = {"DEBUG": 10, "INFO": 20, "WARN": 30, "WARNING": 30, "ERROR": 40, "CRITICAL": 50, "FATAL": 50, "NOTSET": 0}
PROTOS = {"V1": 0, "V2": 1, "AUTO_DETECT": 2, "STRICT": 1}
UD_NAMES = ["foo", "bar.x", "N"]
UD_VALUES = ["1", "two words", "", "yes", "x=y"]


# ---------------------------------------------------------------- rendering
def toml_value(v):
    if isinstance(v, bool):
        return "true" if v else "false"
    if isinstance(v, int):
        return str(v)
    if isinstance(v, list):
        return "[" + ", ".join(json.dumps(x) for x in v) + "]"
    return json.dumps(v)


def render_file(f):
    out = []
    if f["kind"] == "toml":
        if not f["has_tool"]:
            return "[project]\nname = \"x\"\n"
        out.append("[tool.behave]")
        for k, v in f["behave"]:
            out.append("%s = %s" % (k, toml_value(v)))
        for sect in ("userdata", "runners"):
            if f.get(sect) is not None:
                out.append("[tool.behave.%s]" % sect)
                for k, v in f[sect]:
                    out.append("%s = %s" % (json.dumps(k), toml_value(v)))
    else:
        out.append("[behave]")
        for k, v in f["behave"]:
            lines = v.split("\n")
            out.append("%s = %s" % (k, lines[0]))
            out.extend("    " + ln for ln in lines[1:])
        for sect in ("userdata", "runners"):
            if f.get(sect) is not None:
                out.append("[behave.%s]" % sect)
                for k, v in f[sect]:
                    out.append("%s = %s" % (k, v))
    return "\n".join(out) + "\n"


def render_argv(case):
    argv = []
    occs = case["argv"]
    for i, o in enumerate(occs):
        if o[0] == "":
            argv.append(o[1])
        elif o[1] is None:
            argv.append(o[0])
        elif o[2] == "eq":
            argv.append("%s=%s" % (o[0], o[1]))
        else:
            argv.extend([o[0], o[1]])
    return argv


def ini_values(f):
    """what configparser delivers for the rendered file (trusted library): key -> text, per section"""
    import configparser
    cp = configparser.ConfigParser()
    cp.optionxform = str
    cp.read_string(render_file(f))
    got = {}
    for sect, key in (("behave", "behave"), ("behave.userdata", "userdata"), ("behave.runners", "runners")):
        got[key] = [(k, cp.get(sect, k, raw=True)) for k in cp.options(sect)] if cp.has_section(sect) else None
    return got


# ---------------------------------------------------------------- implementation
def canon(v):
    from behave.tag_expression import TagExpressionProtocol
    if isinstance(v, TagExpressionProtocol):
        return ["proto", [m.name for m in TagExpressionProtocol].index(v.name)]
    if isinstance(v, tuple):
        return [canon(x) for x in v]
    if isinstance(v, list):
        return [canon(x) for x in v]
    if isinstance(v, dict):
        return {"dict": [[str(k), canon(x)] for k, x in v.items()]}
    if v is None or isinstance(v, (bool, int, str)):
        return v
    return {"repr": repr(v)}


def impl_config(case):
    import io, contextlib, tempfile, shutil, logging
    from behave.configuration import Configuration
    from behave.model import ScenarioOutline
    from behave.tag_expression import TagExpressionProtocol
    from behave.reporter.junit import JUnitReporter
    top = tempfile.mkdtemp(prefix="c20_")
    old_cwd = os.getcwd()
    saved_env = {k: os.environ.get(k) for k in ("HOME", "BEHAVE_STAGE", "BEHAVE_COLOR")}
    schema0 = ScenarioOutline.annotation_schema
    try:
        home, work = os.path.join(top, "r", "h"), os.path.join(top, "r", "h", "proj", "w")
        os.makedirs(work)
        for f in case["files"]:
            with open(os.path.join(home if f["home"] else work, f["name"]), "w", encoding="utf-8") as fh:
                fh.write(render_file(f))
        for p in case.get("mkdirs", []):
            os.makedirs(os.path.join(work, p), exist_ok=True)
        os.chdir(work)
        os.environ["HOME"] = home
        os.environ.pop("BEHAVE_COLOR", None)
        if case.get("env_stage") is None:
            os.environ.pop("BEHAVE_STAGE", None)
        else:
            os.environ["BEHAVE_STAGE"] = case["env_stage"]
        err, out = io.StringIO(), io.StringIO()
        try:
            with contextlib.redirect_stderr(err), contextlib.redirect_stdout(out):
                c = Configuration(render_argv(case))
        except SystemExit:
            return {"error": "SystemExit", "msg": err.getvalue()[-200:]}
        except Exception as e:      # noqa
            return {"error": type(e).__name__, "msg": str(e)[:200]}
        r = {}
        for k, v in c.__dict__.items():
            if k in ("defaults", "formatters", "tag_expression", "more_formatters"):
                continue
            if k in ("include_re", "exclude_re", "name_re"):
                v = getattr(v, "pattern", v)
            elif k == "outputs":
                v = [o.name if o.name else "<stdout>" for o in v]
            elif k == "reporters":
                v = ["junit" if isinstance(x, JUnitReporter) else "summary" for x in v]
            r[k] = canon(v)
        r["protocol_in_use"] = canon(TagExpressionProtocol.current())
        txt = json.dumps(r).replace(top, "/T")
        return {"attrs": json.loads(txt)}
    finally:
        os.chdir(old_cwd)
        for k, v in saved_env.items():
            if v is None:
                os.environ.pop(k, None)
            else:
                os.environ[k] = v
        shutil.rmtree(top, ignore_errors=True)
        ScenarioOutline.annotation_schema = schema0
        TagExpressionProtocol.use(TagExpressionProtocol.DEFAULT)


# ---------------------------------------------------------------- oracle: the precedence rule stated directly
def doc_parse_define(text):
    text = text.strip()
    if "=" not in text:
        return text, "true"

    def unq(t):
        return t[1:-1] if len(t) >= 1 and t[0] == t[-1] and t[0] in "\"'" else t
    name, value = unq(text).split("=", 1)
    return name.strip(), unq(value.strip())


def file_semantic(dest, f, raw):
    """documented meaning of a configuration-file value, or ("skip",) when it is not a documented spelling"""
    toml = f["kind"] == "toml"
    if dest in BOOLS:
        if toml:
            return ("v", raw) if isinstance(raw, bool) else ("skip",)
        t = raw.strip().lower()
        return ("v", t in ("1", "yes", "true", "on")) if t in ("1", "yes", "true", "on", "0", "no", "false", "off") else ("skip",)
    if dest in LISTS:
        if toml:
            return ("v", list(raw)) if isinstance(raw, list) else ("skip",)
        return ("v", [ln.strip() for ln in raw.strip().split("\n")] if raw.strip() else [])
    text = raw if isinstance(raw, str) else (str(raw) if not isinstance(raw, bool) else None)
    if text is None:
        return ("skip",)
    if not toml:
        text = text.strip()
    return scalar_semantic(dest, text)


def scalar_semantic(dest, text):
    if dest == "jobs":
        try:
            n = int(text)
        except ValueError:
            return ("skip",)
        return ("v", n) if n >= 0 else ("skip",)
    if dest == "logging_level":
        return ("v", LEVELS[text.upper()]) if text.upper() in LEVELS else ("skip",)
    if dest == "tag_expression_protocol":
        return ("v", PROTOS[text.upper()]) if text.upper() in PROTOS else ("skip",)
    return ("v", text)


def flag_table():
    tab = {}
    for d, (pos, neg, _) in BOOLS.items():
        for fl in pos:
            tab[fl] = (d, "const", True)
        for fl in neg:
            tab[fl] = (d, "const", False)
    for d, (flags, _, _, _) in SCALARS.items():
        for fl in flags:
            tab[fl] = (d, "value", None)
    tab["-C"] = tab["--no-color"] = ("color", "const", "off")
    for d, (flags, _, _) in LISTS.items():
        for fl in flags:
            tab[fl] = (d, "append", None)
    tab["-D"] = tab["--define"] = ("userdata_defines", "append", None)
    return tab


FLAGS = flag_table()


def config_dir(f):
    return "/T/r/h" if f["home"] else "."


def resolve(f, p):
    return os.path.normpath(os.path.join(config_dir(f), p))


def oracle(case, obs):
    out = []
    if "error" in obs:
        if case["valid"]:
            out.append(("a configuration in which every value is valid is rejected with %s (%s): files %s, argv %s" % (
                obs["error"], obs.get("msg", "").strip().splitlines()[-1:] or "", [(f["home"], f["name"], f["behave"]) for f in case["files"]],
                render_argv(case)), "valid-config-raises:" + obs["error"]))
        return out
    a = obs["attrs"]
    # --- what the sources say
    cmd_last, cmd_lists, defines = {}, {}, []
    for o in case["argv"]:
        if o[0] == "":
            cmd_lists.setdefault("paths", []).append(o[1])
            continue
        d, how, const = FLAGS[o[0]]
        if d == "userdata_defines":
            defines.append(o[1])
        elif how == "append":
            cmd_lists.setdefault(d, []).append(o[1])
        elif how == "const":
            cmd_last[d] = ("v", const)
        else:
            cmd_last[d] = ("v", "auto") if (d == "color" and o[1] is None) else scalar_semantic(d, o[1])
    in_files = {}
    for f in case["files"]:
        if f["kind"] == "toml" and not f["has_tool"]:
            continue
        vals = f["delivered"] if f["kind"] == "ini" else f["behave"]
        for k, raw in vals:
            in_files.setdefault(k, []).append((f, file_semantic(k, f, raw)))
    wip, catalog, junit = a.get("wip"), a.get("steps_catalog"), a.get("junit")
    quiet = a.get("quiet")
    forced = set()
    if catalog:
        forced |= {"default_format", "format", "dry_run", "summary", "show_skipped", "quiet", "show_source", "show_snippets"}
    if wip:
        forced |= {"default_format", "color", "stop", "log_capture", "stdout_capture", "tags"}
    if quiet:
        forced |= {"show_source", "show_snippets"}
    if junit:
        forced |= {"stdout_capture", "stderr_capture", "log_capture"}

    def say(dest, want, why, sig):
        got = a.get(dest)
        if dest == "tag_expression_protocol":
            got = a.get("protocol_in_use")
            want = ["proto", want]
        if got != want:
            out.append(("%s = %r, but %s says %r  [files %s; argv %s]" % (
                dest, got, why, want, [(("~" if f["home"] else ".") + "/" + f["name"], f["behave"]) for f in case["files"]], render_argv(case)), sig))

    # what the documented aliases force: -q is --no-snippets --no-source; --steps-catalog is --format=steps.catalog --dry-run
    # --no-summary -q
    if quiet or catalog:
        for d in ("show_source", "show_snippets"):
            if a.get(d) is not False:
                out.append(("%s = %r although %s is in force (-q is an alias for --no-snippets --no-source)  [argv %s]" % (
                    d, a.get(d), "--steps-catalog (which implies -q)" if catalog else "-q", render_argv(case)), "alias-not-applied:" + d))
    if catalog:
        for d, v in (("dry_run", True), ("summary", False), ("quiet", True)):
            if a.get(d) is not v:
                out.append(("%s = %r although --steps-catalog is in force (documented as --format=steps.catalog --dry-run --no-summary -q)"
                            "  [argv %s]" % (d, a.get(d), render_argv(case)), "alias-not-applied:" + d))
    for dest in list(BOOLS) + list(SCALARS):
        if dest in forced:
            continue
        default = BOOLS[dest][2] if dest in BOOLS else SCALARS[dest][1]
        if dest == "tag_expression_protocol":
            default = PROTOS["AUTO_DETECT"]
        if dest == "stage" and case.get("env_stage") is not None:
            default = case["env_stage"]
        if dest in cmd_last:
            if cmd_last[dest][0] == "v":
                say(dest, cmd_last[dest][1], "the command line", "cmdline-does-not-win:" + dest)
        elif dest in in_files:
            sems = [s for _, s in in_files[dest]]
            proj = [s for f, s in in_files[dest] if not f["home"]]
            if all(s[0] == "v" for s in sems) and all(s == sems[0] for s in sems):
                say(dest, sems[0][1], "the configuration file", "file-does-not-win:" + dest)
            elif len(proj) == 1 and all(s[0] == "v" for s in sems):
                # several files disagree: the one in the current directory ("good for per-project settings") is read after
                # those of the home directory, whatever the files are called
                say(dest, proj[0][1], "the configuration file of the current directory (files in the home directory say otherwise)",
                    "project-file-does-not-win:" + dest)
        else:
            say(dest, default, "the built-in default (option mentioned nowhere)", "default-not-kept:" + dest)
    # --- list-valued options
    def file_list(dest):
        if dest not in in_files:
            return None, []
        ent = in_files[dest]
        if len(ent) != 1 or ent[0][1][0] != "v":
            return None, None
        return ent[0][0], ent[0][1][1]
    for dest in ("format", "name"):
        if dest in forced:
            continue
        f, fl = file_list(dest)
        if fl is None:
            continue
        want = fl + cmd_lists.get(dest, [])
        got = a.get(dest) or []
        if got != want:
            out.append(("%s = %r, expected the file's values in file order followed by the command-line values: %r" % (dest, got, want),
                        "list-order:" + dest))
    f, fl = file_list("paths")
    if fl is not None:
        want = [os.path.normpath(p) for p in cmd_lists["paths"]] if cmd_lists.get("paths") else [resolve(f, p) for p in fl]
        if a.get("paths") != want:
            out.append(("paths = %r, expected %r (%s)" % (a.get("paths"), want, "command line" if cmd_lists.get("paths") else
                                                          ("relative to the configuration file in %s" % config_dir(f)) if f else "no configuration file names paths"), "paths-resolution"))
    f, fl = file_list("outfiles")
    ff, ffl = file_list("format")
    if fl is not None and ffl is not None and (f is None or ff is None or f is ff):
        src = f or ff
        named = [resolve(src, p) for p in fl]
        if src is not None and "format" in [k for k, _ in (src["delivered"] if src["kind"] == "ini" else src["behave"])]:
            # format/outfiles are coupled in a configuration file: one output file per formatter of the file
            named = named[:len(ffl)] + [resolve(src, "%s.output" % n) for n in ffl[len(named):]]
        want = named + cmd_lists.get("outfiles", [])
        got = a.get("outfiles") or []
        if got != want:
            out.append(("outfiles = %r, expected %r (file entries relative to %s, one per file formatter, then the command line's)" % (
                got, want, config_dir(src) if src else "-"), "outfiles-resolution"))
    if "tags" not in forced:
        f, fl = file_list("tags")
        g, gl = file_list("default_tags")
        if fl is not None and gl is not None:
            want = cmd_lists.get("tags") or fl or gl or ""
            if a.get("tags") != want:
                out.append(("tags = %r, expected %r (command line, else file tags, else default_tags)" % (a.get("tags"), want), "tags-precedence"))
    # --- user data
    ud = (a.get("userdata") or {}).get("dict")
    ud = dict((k, v) for k, v in ud) if ud is not None else None
    parsed = [doc_parse_define(t) for t in defines]
    if ud is None:
        out.append(("config.userdata is not a dictionary: %r" % (a.get("userdata"),), "userdata-type"))
    else:
        last = {}
        for n, v in parsed:
            last[n] = v
        for n, v in last.items():
            if ud.get(n) != v:
                out.append(("-D defines %r: userdata[%r] = %r, expected %r" % (defines, n, ud.get(n), v), "define-not-applied"))
        live = [f for f in case["files"] if not (f["kind"] == "toml" and not f["has_tool"])]
        if len(live) == 1 and live[0].get("userdata") is not None:
            for k, v in (live[0]["delivered_userdata"] if live[0]["kind"] == "ini" else live[0]["userdata"]):
                if k not in last and ud.get(k) != (v if isinstance(v, str) else str(v)):
                    out.append(("file user data %s=%r not in config.userdata (%r)" % (k, v, ud), "file-userdata-lost"))
        extra = set(ud) - set(last) - set(k for f in live if f.get("userdata") for k, _ in f["userdata"])
        if extra:
            out.append(("config.userdata has names nobody defined: %s" % sorted(extra), "userdata-extra"))
    return out


# ---------------------------------------------------------------- Coq encoding
HEADER = "From BV Require Import Base UStr ConfigTypes UserData Config.\n"


def copt_s(x):
    return "(@None ustr)" if x is None else "(Some %s)" % cstr(x)


def c_kvs(pairs):
    return clist(["(%s, %s)" % (cstr(k), cstr(v)) for k, v in pairs], "ustr * ustr")


def c_tval(v):
    if isinstance(v, bool):
        return "(TvBool %s)" % cbool(v)
    if isinstance(v, int):
        return "(TvInt %s)" % cZ(v)
    if isinstance(v, list):
        return "(TvArr %s)" % clist([cstr(x) for x in v], "ustr")
    return "(TvStr %s)" % cstr(v)


def c_tkvs(pairs):
    return clist(["(%s, %s)" % (cstr(k), c_tval(v)) for k, v in pairs], "ustr * tval")


def c_file(f):
    if f["kind"] == "ini":
        d = f["delivered_all"]
        body = "(FIni %s %s %s)" % (c_kvs(d["behave"] or []),
                                    "None" if d["userdata"] is None else "(Some %s)" % c_kvs(d["userdata"]),
                                    "None" if d["runners"] is None else "(Some %s)" % c_kvs(d["runners"]))
    else:
        body = "(FToml %s %s %s %s)" % (cbool(f["has_tool"]), c_tkvs(f["behave"]),
                                        "None" if f.get("userdata") is None else "(Some %s)" % c_tkvs(f["userdata"]),
                                        "None" if f.get("runners") is None else "(Some %s)" % c_tkvs(f["runners"]))
    return "(%s, %s, %s)" % (cbool(f["home"]), cstr(f["name"]), body)


def c_occ(o):
    if o[0] == "":
        return "(OPos %s)" % cstr(o[1])
    return "(OFlag %s %s)" % (cstr(o[0]), copt_s(o[1]))


def c_val(v):
    if v is None:
        return "VNone"
    if isinstance(v, bool):
        return "(VBool %s)" % cbool(v)
    if isinstance(v, int):
        return "(VInt %s)" % cZ(v)
    if isinstance(v, str):
        return "(VStr %s)" % cstr(v)
    if isinstance(v, dict) and "dict" in v:
        if all(isinstance(x, str) for _, x in v["dict"]):
            return "(VDefs %s)" % c_kvs(v["dict"])
        return None
    if isinstance(v, list) and len(v) == 2 and v[0] == "proto" and isinstance(v[1], int):
        return "(VProto %d)" % v[1]
    if isinstance(v, list) and all(isinstance(x, str) for x in v):
        return "(VStrs %s)" % clist([cstr(x) for x in v], "ustr")
    if isinstance(v, list) and all(isinstance(x, list) and len(x) == 2 and all(isinstance(y, str) for y in x) for x in v):
        return "(VDefs %s)" % c_kvs(v)
    return None


ERRS = {"SystemExit": "EExit", "ValueError": "EValue", "ArgumentTypeError": "EArgType", "ConfigParamTypeError": "EParamType",
        "IndexError": "EIndex"}


def enc(case, obs):
    cin = "(mkCase %s %s %s %s)" % (cstr("/T/r/h"), clist([c_file(f) for f in case["files"]], "bool * ustr * filedata"),
                                    copt_s(case.get("env_stage")), clist([c_occ(o) for o in case["argv"]], "occ"))
    if "error" in obs:
        return cin, "(inr %s)" % ERRS.get(obs["error"], "EOther")
    items = []
    for k, v in sorted(obs["attrs"].items()):
        t = c_val(v)
        if t is None:
            return None
        items.append("(%s, %s)" % (cstr(k), t))
    return cin, "(inl %s)" % clist(items, "ustr * cval")


# ---------------------------------------------------------------- generators
def gen_file_value(rnd, dest, toml, valid):
    if dest in BOOLS:
        if toml:
            r = rnd.random()
            return rnd.choice([True, False]) if r < 0.85 else rnd.choice([0, 1, "no", "", "yes"])
        if not valid and rnd.random() < 0.5:
            return "maybe"
        return rnd.choice(INI_TRUE + INI_FALSE)
    if dest in LISTS:
        pool, bad = LISTS[dest][1], LISTS[dest][2]
        n = rnd.choice([0, 1, 1, 2, 3])
        vals = [rnd.choice(pool) for _ in range(n)]
        if not valid and bad and rnd.random() < 0.5:
            vals.append(bad[0])
        if toml:
            if not valid and rnd.random() < 0.3:
                return "plain"
            return vals
        return "\n".join(vals)
    pool, bad = SCALARS[dest][2], SCALARS[dest][3]
    v = rnd.choice(bad) if (not valid and bad and rnd.random() < 0.7) else rnd.choice(pool)
    if toml and dest == "jobs" and rnd.random() < 0.5 and v.strip().isdigit():
        return int(v)
    return v


def gen_case(rnd, valid=True, focus=None):
    files = []
    nfiles = rnd.choice([0, 1, 1, 1, 2, 2, 3])
    slots = rnd.sample([(h, n) for h in (False, True) for n in FILE_NAMES], nfiles)
    all_dests = list(BOOLS) + list(SCALARS) + list(LISTS)
    for home, name in slots:
        toml = name.endswith(".toml")
        f = {"home": home, "name": name, "kind": "toml" if toml else "ini", "has_tool": True, "behave": []}
        if toml and rnd.random() < 0.08:
            f["has_tool"] = False
        k = rnd.choice([0, 1, 2, 3, 5, 8, 14])
        dests = rnd.sample(all_dests, min(k, len(all_dests)))
        if focus:
            dests = list(dict.fromkeys(dests + [d for d in focus if rnd.random() < 0.7]))
        for d in dests:
            v = gen_file_value(rnd, d, toml, valid or rnd.random() < 0.6)
            if not toml and v == "" and d not in LISTS:
                continue
            f["behave"].append((d, v))
        if rnd.random() < 0.4:
            names = rnd.sample(UD_NAMES, rnd.randint(0, 3))
            f["userdata"] = [(n, (rnd.choice(UD_VALUES[:2] + [7]) if toml else rnd.choice(UD_VALUES[:2] + UD_VALUES[3:]))) for n in names]
        if rnd.random() < 0.15:
            f["runners"] = [("fast", "my.mod:FastRunner")]
        if not toml:
            d = ini_values(f)
            f["delivered_all"] = d
            f["delivered"] = d["behave"] or []
            f["delivered_userdata"] = d["userdata"] or []
        files.append(f)
    argv = []
    n_opts = rnd.choice([0, 1, 2, 3, 4, 6, 9])
    flagnames = list(FLAGS)
    for _ in range(n_opts):
        fl = rnd.choice(flagnames)
        if focus and rnd.random() < 0.5:
            cands = [x for x in flagnames if FLAGS[x][0] in focus]
            if cands:
                fl = rnd.choice(cands)
        d, how, const = FLAGS[fl]
        if how == "const":
            argv.append([fl, None, "sp"])
            continue
        if d == "userdata_defines":
            val = rnd.choice(["foo=9", "bar.x = 'q r'", "flag", "\"N=x y\"", " foo = \"2\" ", "foo=", "k==v", "foo='"])
        elif d in SCALARS:
            pool, bad = SCALARS[d][2], SCALARS[d][3]
            val = rnd.choice(bad) if (not valid and bad and rnd.random() < 0.6) else rnd.choice(pool)
            if d == "color" and rnd.random() < 0.25:
                val = None
        else:
            pool, bad = LISTS[d][1], LISTS[d][2]
            val = bad[0] if (not valid and bad and rnd.random() < 0.4) else rnd.choice(pool)
        if val is None:
            argv.append([fl, None, "sp"])
        else:
            style = "eq" if (fl.startswith("--") and (rnd.random() < 0.4 or val.startswith("-") or val == "")) else "sp"
            if style == "sp" and (val.startswith("-") or val == ""):
                continue
            argv.append([fl, val, style])
    mkdirs = []
    npos = rnd.choice([0, 0, 0, 1, 2])
    pos = [rnd.choice(LISTS["paths"][1]) for _ in range(npos)]
    # a value-less --color must be the last token, or be followed by another option or by an existing path
    for i, o in enumerate(argv):
        if o[0] == "--color" and o[1] is None and i == len(argv) - 1 and pos and \
                any(x[0] == "--color" and x[2] == "sp" for x in argv[:i]):
            # make_command_args() looks at the *first* "--color" token only (documented HACK for `behave --color features/x`):
            # a second value-less --color directly before a path is outside what it supports
            o[1], o[2] = "auto", "eq"
        if o[0] == "--color" and o[1] is None and i == len(argv) - 1 and pos:
            if pos[0].startswith("/") or ":" in pos[0]:
                pos[0] = "features"
            mkdirs.append(pos[0])
    for p in pos:
        argv.append(["", p])
    env_stage = rnd.choice([None, None, None, "env", ""])
    return {"files": files, "argv": argv, "env_stage": env_stage, "valid": valid, "mkdirs": [m for m in mkdirs if not m.startswith("/")]}


def histogram(cases, obs=None):
    h = {"files": {}, "argv_options": {}, "invalid": 0, "toml": 0, "home": 0, "positional": 0, "defines": 0}
    for c in cases:
        h["files"][len(c["files"])] = h["files"].get(len(c["files"]), 0) + 1
        n = len([o for o in c["argv"] if o[0]])
        h["argv_options"][n] = h["argv_options"].get(n, 0) + 1
        h["invalid"] += 0 if c["valid"] else 1
        h["toml"] += any(f["kind"] == "toml" for f in c["files"])
        h["home"] += any(f["home"] for f in c["files"])
        h["positional"] += any(o[0] == "" for o in c["argv"])
        h["defines"] += any(o[0] in ("-D", "--define") for o in c["argv"])
    return h


def shrink(case):
    for i in range(len(case["files"])):
        c = dict(case, files=case["files"][:i] + case["files"][i + 1:])
        yield c
    for i in range(len(case["argv"])):
        c = dict(case, argv=case["argv"][:i] + case["argv"][i + 1:])
        yield c
    for i, f in enumerate(case["files"]):
        for j in range(len(f["behave"])):
            g = dict(f, behave=f["behave"][:j] + f["behave"][j + 1:])
            if g["kind"] == "ini":
                d = ini_values(g)
                g.update(delivered_all=d, delivered=d["behave"] or [], delivered_userdata=d["userdata"] or [])
            yield dict(case, files=case["files"][:i] + [g] + case["files"][i + 1:])


# ---------------------------------------------------------------- -D strings
def impl_define(case):
    from behave.userdata import parse_user_define
    try:
        n, v = parse_user_define(case["text"])
        return {"name": n, "value": v}
    except Exception as e:      # noqa
        return {"EXC": type(e).__name__}


def oracle_define(case, obs):
    if "EXC" in obs:
        return [("parse_user_define(%r) raised %s" % (case["text"], obs["EXC"]), "define-raises")]
    if "expect" in case and [obs["name"], obs["value"]] != list(case["expect"]):
        return [("parse_user_define(%r) = %r, documented form %s gives %r" % (
            case["text"], (obs["name"], obs["value"]), case["form"], tuple(case["expect"])), "define-documented-form")]
    # only a *pair* of surrounding quotes is stripped: text that begins with one quote character and ends with the other is
    # not quoted and is kept as written (around the whole definition as well as around the value)
    t = case["text"].strip()

    def mismatched(x):
        return len(x) >= 2 and x[0] in "\"'" and x[-1] in "\"'" and x[0] != x[-1]
    if "=" in t and (mismatched(t) or mismatched(t.split("=", 1)[1].strip())):
        want = doc_parse_define(case["text"])
        if (obs["name"], obs["value"]) != want:
            return [("parse_user_define(%r) = %r: the text begins with one quote character and ends with the other, which is no "
                     "surrounding pair; as written it means %r" % (case["text"], (obs["name"], obs["value"]), want), "define-mismatched-quotes")]
    return []


def documented_defines(rnd, n):
    names = ["foo", "a.b", "person", "x_1", "N"]
    values = ["bar", "Alice and Bob", "1", "a=b", "it's", "", "say \"hi\" now", "x  y"]
    pad = ["", " ", "  ", "\t"]
    cases = []

    def add(text, name, value, form):
        cases.append({"text": text, "expect": [name, value], "form": form})
    for name in names:
        add(name, name, "true", "{name}")
        add("  %s " % name, name, "true", "padded {name}")
        for value in values:
            add("%s=%s" % (name, value), name, value, "{name}={value}")
            add("\"%s=%s\"" % (name, value), name, value, "\"{name}={value}\"")
            add("'%s=%s'" % (name, value), name, value, "'{name}={value}'")
            add("%s=\"%s\"" % (name, value), name, value, "{name}=\"{value}\"")
            add("%s='%s'" % (name, value), name, value, "{name}='{value}'")
            add("%s=\" %s \"" % (name, value), name, " %s " % value, "{name}=\"{ value }\" (inner padding kept)")
            for _ in range(n):
                p = [rnd.choice(pad) for _ in range(4)]
                add("%s%s%s=%s%s%s" % (p[0], name, p[1], p[2], value, p[3]), name, value, "padded {name} = {value}")
                q = rnd.choice("\"'")
                add("%s%s%s=%s%s%s%s%s" % (p[0], name, p[1], p[2], q, value, q, p[3]), name, value, "padded {name} = quoted {value}")
                add("%s%s%s%s=%s%s%s%s%s%s" % (p[0], q, name, p[1], p[2], value, p[3], q, p[0], ""), name, value, "padded quoted pair with inner padding")
    return cases


def enc_define(case, obs):
    if "EXC" in obs:
        return None
    return cstr(case["text"]), "(%s, %s)" % (cstr(obs["name"]), cstr(obs["value"]))


# ---------------------------------------------------------------- getters
GETTER_TEXTS = ["12", " 7 ", "+3", "-4", "1_000", "1__0", "_1", "1_", "0x10", "", " ", "12.5", "1e3", "1E-2", ".5", "5.", ".", "e5", "1e", "1_0.2_5",
                "1._5", "inf", "-Infinity", "NaN", "nan ", "+nan", "infinit", "yes", "TRUE", " on ", "off", "No", "0", "1", "2", "maybe", "t", "0.1",
                "123456789012345678901234567890", "1e22", "0.30000000000000004", "-0", "-0.0", "1e-30", "9007199254740993", "٣", "1 2", "1e+5", "1e+-5"]


def impl_getter(case):
    from behave.userdata import UserData
    data = {}
    for k, v in case["data"]:
        data[k] = {"text": lambda x: x, "bool": bool, "int": int, "float": float}[v[0]](v[1])
    ud = UserData(data)
    default = object()
    try:
        r = getattr(ud, case["getter"])(case["name"], default)
    except ValueError:
        return {"kind": "ValueError"}
    except Exception as e:   # noqa
        return {"kind": "other", "exc": type(e).__name__}
    if r is default:
        return {"kind": "default"}
    if isinstance(r, bool):
        return {"kind": "bool", "v": r, "same": any(r is v for v in data.values())}
    if isinstance(r, int):
        return {"kind": "int", "v": r}
    if isinstance(r, float):
        import math
        if math.isnan(r):
            return {"kind": "float", "nan": True}
        if math.isinf(r):
            return {"kind": "float", "inf": r > 0}
        lo, hi = math.nextafter(r, -math.inf), math.nextafter(r, math.inf)
        from fractions import Fraction
        mid_lo = (Fraction(r) + Fraction(lo)) / 2 if not math.isinf(lo) else None
        mid_hi = (Fraction(r) + Fraction(hi)) / 2 if not math.isinf(hi) else None
        return {"kind": "float", "neg": math.copysign(1.0, r) < 0, "hex": r.hex(),
                "lo": [mid_lo.numerator, mid_lo.denominator] if mid_lo is not None else None,
                "hi": [mid_hi.numerator, mid_hi.denominator] if mid_hi is not None else None}
    return {"kind": "other", "exc": "type:" + type(r).__name__}


def oracle_getter(case, obs):
    present = dict((k, v) for k, v in case["data"])
    g = case["getter"]
    if case["name"] not in present:
        return [] if obs["kind"] == "default" else [("%s(%r) on a missing name does not return the given default: %r" % (g, case["name"], obs), "getter-default")]
    kind, val = present[case["name"]]
    if kind != "text":
        return []
    conv = {"getint": int, "getfloat": float}.get(g)
    if conv:
        try:
            want = conv(val)
        except ValueError:
            want = None
    else:
        t = val.lower().strip()
        want = True if t in ("yes", "true", "on", "1") else False if t in ("no", "false", "off", "0") else None
    if want is None:
        return [] if obs["kind"] == "ValueError" else [("%s on unconvertible text %r does not raise ValueError: %r" % (g, val, obs), "getter-no-valueerror")]
    if obs["kind"] in ("ValueError", "other", "default"):
        return [("%s on text %r gives %r, expected the converted value %r" % (g, val, obs, want), "getter-not-converted")]
    if g == "getfloat":
        ok = obs["kind"] == "float" and ((obs.get("nan") and want != want) or ("inf" in obs and want == (float("inf") if obs["inf"] else float("-inf")))
                                         or ("hex" in obs and want.hex() == obs["hex"]))
    else:
        ok = obs.get("v") == want and obs["kind"] == ("int" if g == "getint" else "bool")
    return [] if ok else [("%s on text %r gives %r, expected %r" % (g, val, obs, want), "getter-wrong-value")]


def c_uval(v):
    k, x = v
    if k == "text":
        return "(UText %s)" % cstr(x)
    if k == "bool":
        return "(UBool %s)" % cbool(x)
    if k == "int":
        return "(UInt %s)" % cZ(x)
    return "(UFloat 0)"


def enc_getter(case, obs):
    if any(v[0] == "text" and any(ord(ch) > 127 for ch in v[1]) for _, v in case["data"]):
        return None         # int()/float() accept non-ASCII decimal digits: outside the model (assumption)
    data = clist(["(%s, %s)" % (cstr(k), c_uval(v)) for k, v in case["data"]], "ustr * uval")
    g = {"getint": "0%nat", "getfloat": "1%nat", "getbool": "2%nat"}[case["getter"]]
    cin = "(%s, %s, %s)" % (g, data, cstr(case["name"]))
    k = obs["kind"]
    if k == "default":
        o = "XDefault"
    elif k == "ValueError":
        o = "XValueError"
    elif k == "other":
        o = "XOther"
    elif k == "bool":
        o = "(XBool %s)" % cbool(obs["v"])
    elif k == "int":
        o = "(XInt %s)" % cZ(obs["v"])
    elif obs.get("nan"):
        o = "XNan"
    elif "inf" in obs:
        o = "(XInf %s)" % cbool(not obs["inf"])
    else:
        if obs["lo"] is None or obs["hi"] is None:
            return None
        o = "(XFloat %s %s %s %s %s)" % (cbool(obs["neg"]), cZ(obs["lo"][0]), cZ(obs["lo"][1]), cZ(obs["hi"][0]), cZ(obs["hi"][1]))
    return "(%s, %s)" % (cin, o), "true"


GETTER_HEADER = HEADER + """
Inductive xres := XDefault | XValueError | XOther | XBool (b : bool) | XInt (z : Z) | XNan | XInf (neg : bool)
                | XFloat (neg : bool) (lon lod hin hid : Z).
Definition run_getter (c : nat * list (ustr * uval) * ustr) : gres :=
  let '(g, d, n) := c in match g with 0 => getint d n | 1 => getfloat d n | _ => getbool d n end.
(* lo <= m * 10^e <= hi, with lo = lon/lod and hi = hin/hid (denominators positive) *)
Definition within (m e lon lod hin hid : Z) : bool :=
  if (0 <=? e)%Z then ((lon <=? m * 10 ^ e * lod) && (m * 10 ^ e * hid <=? hin))%Z
  else ((lon * 10 ^ (- e) <=? m * lod) && (m * hid <=? hin * 10 ^ (- e)))%Z.
Definition getter_agrees (model : gres) (x : xres) : bool :=
  match model, x with
  | GDefault, XDefault | GValueError, XValueError | GOtherError, XOther => true
  | GKeep (UBool b), XBool b' | GBool b, XBool b' => Bool.eqb b b'
  | GKeep (UInt z), XInt z' | GInt z, XInt z' => Z.eqb z z'
  | GFloat FNan, XNan => true
  | GFloat (FInf n), XInf n' => Bool.eqb n n'
  | GFloat (FDec n m e), XFloat n' lon lod hin hid =>
      Bool.eqb n n' && (if n then within (- m) e lon lod hin hid else within m e lon lod hin hid)
  | _, _ => false
  end.
"""


def suites(tier, seed):
    rnd = random.Random(seed * 131 + 20)
    thorough = tier == "thorough"
    n = 6000 if thorough else 1100
    cases = []
    focus_sets = [None, ["show_skipped", "summary", "stdout_capture"], ["jobs", "logging_level", "color"], ["format", "outfiles", "paths"],
                  ["tags", "default_tags", "wip"], ["stage", "runner", "junit", "quiet", "steps_catalog"]]
    for i in range(n):
        cases.append(gen_case(rnd, valid=(i % 6 != 5), focus=focus_sets[i % len(focus_sets)]))
    # which file wins: one file in the home directory and one in the current directory, under different names, both
    # assigning the same options (the per-project file is read last whatever the two are called)
    k = 0
    while k < (400 if thorough else 90):
        c = gen_case(rnd, valid=True, focus=focus_sets[k % len(focus_sets)])
        fs = c["files"]
        if len(fs) == 2 and fs[0]["home"] != fs[1]["home"] and fs[0]["name"] != fs[1]["name"] and \
                set(d for d, _v in fs[0]["behave"]) & set(d for d, _v in fs[1]["behave"]):
            cases.append(c)
            k += 1
    # fixed probes: a value-less --color in every position, every Boolean pair against a file value, files at both depths
    for fl in (["--color", None, "sp"],):
        cases.append({"files": [], "argv": [fl], "env_stage": None, "valid": True, "mkdirs": []})
        cases.append({"files": [], "argv": [["-q", None, "sp"], fl], "env_stage": None, "valid": True, "mkdirs": []})
        cases.append({"files": [], "argv": [fl, ["-q", None, "sp"]], "env_stage": None, "valid": True, "mkdirs": []})
        cases.append({"files": [], "argv": [fl, ["", "features"]], "env_stage": None, "valid": True, "mkdirs": ["features"]})
    for dest, (pos, neg, default) in BOOLS.items():
        for home in (False, True):
            for filev in ("true", "false"):
                for fl in pos + neg:
                    f = {"home": home, "name": "behave.ini", "kind": "ini", "has_tool": True, "behave": [(dest, filev)]}
                    d = ini_values(f)
                    f.update(delivered_all=d, delivered=d["behave"], delivered_userdata=[])
                    cases.append({"files": [f], "argv": [[fl, None, "sp"]], "env_stage": None, "valid": True, "mkdirs": []})
    main = {"name": "configurations", "cases": cases, "impl": impl_config, "oracle": oracle, "shrink": shrink,
            "nontrivial": lambda c, o: bool(c["files"]) and bool(c["argv"]) and "attrs" in o, "histogram": histogram,
            "bound": "%d configurations (files x command lines), every Boolean flag against both file values at both directory depths" % len(cases),
            "coq": {"header": HEADER, "in_ty": "cfg_case", "out_ty": "res ns", "fn": "configure", "eqb": "result_agrees", "enc": enc, "shard": 60}}
    alphabet = "ab=\"' "
    texts = [""] + ["".join(t) for ln in range(1, 7 if thorough else 6) for t in itertools.product(alphabet, repeat=ln)]
    defs_all = {"name": "define_strings", "cases": [{"text": t} for t in texts], "impl": impl_define, "oracle": oracle_define, "exhaustive": True,
                "nontrivial": lambda c, o: "=" in c["text"],
                "bound": "all %d strings over {a,b,=,\",',blank} up to length %d" % (len(texts), 6 if thorough else 5),
                "coq": {"header": HEADER, "in_ty": "ustr", "out_ty": "ustr * ustr", "fn": "parse_user_define",
                        "eqb": "pair_eqb ustr_eqb ustr_eqb", "enc": enc_define, "shard": 3000}}
    doc = documented_defines(rnd, 6 if thorough else 2)
    defs_doc = {"name": "define_documented_forms", "cases": doc, "impl": impl_define, "oracle": oracle_define,
                "nontrivial": lambda c, o: True, "bound": "%d strings built from the documented forms and their combinations" % len(doc),
                "coq": {"header": HEADER, "in_ty": "ustr", "out_ty": "ustr * ustr", "fn": "parse_user_define",
                        "eqb": "pair_eqb ustr_eqb ustr_eqb", "enc": enc_define, "shard": 3000}}
    gcases = []
    for t in GETTER_TEXTS:
        for g in ("getint", "getfloat", "getbool"):
            gcases.append({"data": [("k", ("text", t)), ("other", ("text", "1"))], "getter": g, "name": "k"})
    for g in ("getint", "getfloat", "getbool"):
        gcases.append({"data": [("other", ("text", "1"))], "getter": g, "name": "k"})
        gcases.append({"data": [], "getter": g, "name": "k"})
        for pre in (("bool", True), ("bool", False), ("int", 5), ("int", -3), ("int", 0)):
            gcases.append({"data": [("k", pre)], "getter": g, "name": "k"})
    for _ in range(3000 if thorough else 400):
        t = "".join(rnd.choice("0123456789_.eE+- infaNyYtTrRuUoOfFsSlL") for _ in range(rnd.randint(1, 8)))
        gcases.append({"data": [("k", ("text", t))], "getter": rnd.choice(["getint", "getfloat", "getbool"]), "name": "k"})
    getters = {"name": "getters", "cases": gcases, "impl": impl_getter, "oracle": oracle_getter,
               "nontrivial": lambda c, o: o["kind"] not in ("default",),
               "bound": "%d (value, getter) pairs: %d hand-picked texts x 3 getters, missing names, pre-converted values, random numeric-looking texts" % (len(gcases), len(GETTER_TEXTS)),
               "coq": {"header": GETTER_HEADER, "in_ty": "(nat * list (ustr * uval) * ustr) * xres", "out_ty": "bool",
                       "fn": "fun cx => getter_agrees (run_getter (fst cx)) (snd cx)", "eqb": "Bool.eqb", "enc": enc_getter, "shard": 400}}
    return [main, defs_all, defs_doc, getters]
