#!/venv/bin/python
"""Regenerate MANIFEST.json from the per-property modules present in harness/props."""
import json, os, sys, importlib
HERE = os.path.dirname(os.path.abspath(__file__))
VERIF = os.path.dirname(HERE)
sys.path.insert(0, HERE)
ALL = ["C%02d" % i for i in range(1, 21)]

def main():
    checks, na = [], []
    for cid in ALL:
        path = os.path.join(HERE, "props", cid.lower() + ".py")
        if not os.path.exists(path):
            na.append({"property_id": cid, "reason": "check not built yet in this round (no technique switch: the design in DESIGN.md section 6 applies); not claimed until its Coq model, theorems and correspondence run exist"})
            continue
        mod = importlib.import_module("props." + cid.lower())
        checks.append({
            "property_id": cid,
            "quick_cmd": "/venv/bin/python harness/check.py %s --tier quick" % cid,
            "thorough_cmd": "/venv/bin/python harness/check.py %s --tier thorough" % cid,
            "evidence_file": "/verif/evidence/%s.json" % cid,
            "replay_cmd_template": "/venv/bin/python harness/check.py %s --replay {path}" % cid,
            "engine": "coq-proof+correspondence",
            "level_claimed": {"category": "proof", "text": getattr(mod, "LEVEL_TEXT", ""),
                              "design_ref": "DESIGN.md section 6, %s" % cid},
            "level_note": getattr(mod, "LEVEL_NOTE", ""),
            "technique": getattr(mod, "TECHNIQUE", "machine-checked proof in Coq 8.16 about an executable Gallina model; model tied to /repo by generated tables and by an in-Coq (vm_compute) correspondence run against the implementation"),
        })
    man = {
        "version": 1,
        "setup_cmd": "/venv/bin/python harness/build.py --all",
        "hooks": {"guard": "BEHAVE_VERIF", "enable": "no source hooks are needed: every observation point is public API (guard is nominal)",
                  "baseline_off_cmd": "/venv/bin/python /verif/harness/baseline.py", "source_commits": [], "add_only": True},
        "engines": [{"name": "coq-proof+correspondence", "path": "harness/check.py",
                     "serves_properties": [c["property_id"] for c in checks],
                     "kind_free_text": "Coq 8.16.1 theorems over hand-written Gallina models (coq/theories, coq/props) + tables generated from /repo (coq/gen) + correspondence: implementation outputs embedded in generated case files and compared with the model by vm_compute inside Coq + Python property oracle for the failing-input search"}],
        "checks": checks,
        "not_applicable": na,
        "notes": "See DESIGN.md. known_findings.json lists recorded findings (open) and repaired defects (fixed).",
    }
    json.dump(man, open(os.path.join(VERIF, "MANIFEST.json"), "w"), indent=1)
    print("MANIFEST.json: %d checks, %d not claimed" % (len(checks), len(na)))

main()
