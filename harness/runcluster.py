"""Run cluster: program generators, Coq encoders and observation decoders shared
by C01, C02, C03 (reachable part), C09, C12, C14, C15, C17."""
from __future__ import annotations
import random, re, copy, itertools
from common import clist, cbool, cnat
import runprog

KIND_COQ = {"pass": "KPass", "fail": "KFail", "error": "KError", "pending": "KPending",
            "undefined": "KUndefined", "skip": "KSkip", "kbd": "KKbd", "abort": "KAbort",
            "cleanupok": "KCleanOk", "cleanupraise": "KCleanRaise"}
HOOK_COQ = {"before_all": "HBeforeAll", "after_all": "HAfterAll", "before_feature": "HBeforeFeature",
            "after_feature": "HAfterFeature", "before_rule": "HBeforeRule", "after_rule": "HAfterRule",
            "before_scenario": "HBeforeScenario", "after_scenario": "HAfterScenario",
            "before_step": "HBeforeStep", "after_step": "HAfterStep", "before_tag": "HBeforeTag",
            "after_tag": "HAfterTag"}
WIP = 99
HEADER = ("From BV Require Import Base Status Rollup Runner RunnerEq.\n"
          "From BVGen Require Import StatusTable.\n")


def tag_id(t):
    return WIP if t == "wip" else int(t[1:])


def name_id(name):
    """element name -> nat id used by the model"""
    m = re.match(r"^O(\d+) -- @(\d+)\.(\d+) E(\d+)$", name)
    if m:
        oid, ei, ri = int(m.group(1)), int(m.group(2)) - 1, int(m.group(3)) - 1
        assert oid < 200 and ei < 4 and ri < 4, name
        return 200 + oid * 16 + ei * 4 + ri
    m = re.match(r"^[FRSO](\d+)$", name)
    if m:
        return int(m.group(1))
    raise ValueError("unexpected element name %r" % name)


def key_id(hook, key):
    if hook in ("before_all", "after_all"):
        return 0
    if hook in ("before_tag", "after_tag"):
        return tag_id(key)
    if hook in ("before_step", "after_step"):
        return int(key)
    return name_id(key)


# ------------------------------------------------------------------ program -> Coq
def c_tags(tags):
    return clist([cnat(tag_id(t)) for t in tags], "nat")


def c_step(s):
    return "(mkStep %s %s)" % (KIND_COQ[s["kind"]], cnat(s["id"]))


def c_steps(steps):
    return clist([c_step(s) for s in steps], "step")


def c_sitem(it):
    if it["kind"] == "scenario":
        return "(SScen (mkScen %s %s %s))" % (cnat(it["id"]), c_tags(it["tags"]), c_steps(it["steps"]))
    exs = clist(["(mkEx %s %s %s)" % (cnat(e["id"]), c_tags(e["tags"]), cnat(e["rows"])) for e in it["examples"]],
                "examples")
    return "(SOutline (mkOutline %s %s %s %s))" % (cnat(it["id"]), c_tags(it["tags"]), c_steps(it["steps"]), exs)


def c_bg(bg):
    return "(@None (list step))" if bg is None else "(Some %s)" % c_steps(bg)


def c_feature(f):
    items = []
    for it in f["items"]:
        if it["kind"] == "rule":
            items.append("(FRule (mkRule %s %s %s %s))" % (
                cnat(it["id"]), c_tags(it["tags"]), c_bg(it["bg"]),
                clist([c_sitem(x) for x in it["items"]], "sitem")))
        else:
            items.append("(FItem %s)" % c_sitem(it))
    return "(mkFeature %s %s %s %s)" % (cnat(f["id"]), c_tags(f["tags"]), c_bg(f["bg"]), clist(items, "fitem"))


def c_expr(e):
    if e is None:
        return "TTrue"
    k = e[0]
    if k == "raw":
        return c_expr(e[2])
    if k == "has":
        return "(THas %s)" % cnat(tag_id(e[1]))
    if k == "not":
        inner = e[1]
        if isinstance(inner, str):
            return "(TNot (THas %s))" % cnat(tag_id(inner))
        return "(TNot %s)" % c_expr(inner)
    return "(%s %s %s)" % ("TAnd" if k == "and" else "TOr", c_expr(e[1]), c_expr(e[2]))


def c_cfg(cfg):
    faults = clist(["(%s, %s)" % (HOOK_COQ[h], cnat(key_id(h, str(k)))) for h, k in cfg.get("faults", [])],
                   "hookname * nat")
    hcs = clist(["(%s, %s, [(%s, %s)])" % (HOOK_COQ[h], cnat(key_id(h, str(k))), cnat(cid), cbool(r))
                 for h, k, cid, r in cfg.get("hook_cleanups", [])], "hookname * nat * list (nat * bool)")
    expr, stop = cfg.get("expr"), cfg.get("stop")
    if cfg.get("wip_mode"):
        # --wip: the expression in force is (--tags ...) and wip; the run stops at the first failure
        expr = ["has", "wip"] if expr is None else ["and", (expr[2] if expr[0] == "raw" else expr), ["has", "wip"]]
        stop = True
    # exclude_tag: the before_feature hook calls element.skip() on every element carrying that tag (model: c_excl)
    excl = "(Some %s)" % cnat(tag_id(cfg["exclude_tag"])) if cfg.get("exclude_tag") else "None"
    # aborts: hook invocations that call context.abort() (model: c_aborts, event EAbort)
    aborts = clist(["(%s, %s)" % (HOOK_COQ[h], cnat(key_id(h, str(k)))) for h, k in cfg.get("aborts", [])], "hookname * nat")
    return "(mkCfgData %s %s %s %s %s %s %s %s %s %s %s)" % (
        cbool(cfg.get("dry_run")), cbool(stop), cbool(cfg.get("show_skipped")),
        c_expr(expr), clist([HOOK_COQ[h] for h in cfg.get("hooks", [])], "hookname"),
        faults, hcs, cnat(WIP), cbool(cfg.get("continue_after_failed", False)), excl, aborts)


def c_program(prog):
    return "(%s, %s)" % (c_cfg(prog["cfg"]), clist([c_feature(f) for f in prog["features"]], "feature"))


# ------------------------------------------------------------------ observation -> Coq
def c_scen_res(r):
    return "(mkScenRes %s (Some %s) %s %s)" % (cnat(name_id(r["name"])), r["status"], cbool(r["hook_failed"]),
                                               clist(r["steps"], "status"))


def c_item_res(r):
    if r["kind"] == "scenario":
        return "(RScen %s)" % c_scen_res(r)
    return "(ROutline %s %s %s)" % (cnat(name_id(r["name"])), r["status"],
                                    clist([c_scen_res(x) for x in r["rows"]], "scen_res"))


def c_feat_res(t):
    items = []
    for it in t["items"]:
        if it["kind"] == "rule":
            items.append("(RFRule (mkRuleRes %s %s %s %s))" % (
                cnat(name_id(it["name"])), it["status"], cbool(it["hook_failed"]),
                clist([c_item_res(x) for x in it["items"]], "item_res")))
        else:
            items.append("(RFItem %s)" % c_item_res(it))
    return "(mkFeatRes %s %s %s %s)" % (cnat(name_id(t["name"])), t["status"], cbool(t["hook_failed"]),
                                        clist(items, "fitem_res"))


def step_id_of(name):
    """'<kind> <id>' possibly followed by ' ~ <noise>'"""
    return int(name.split(" ~ ")[0].split()[-1])


def c_event(e):
    k = e[0]
    if k == "hook":
        return "(EHook %s %s %s)" % (HOOK_COQ[e[1]], cnat(key_id(e[1], e[2])), cbool(e[3]))
    if k == "step":
        return "(EStep %s %s %s %s)" % (KIND_COQ[e[1]], cnat(e[2]), cnat(name_id(e[3])), cbool(e[4]))
    if k == "undef":
        return "(EUndef %s)" % cnat(e[1])
    if k == "hookabort":
        return "(EAbort %s %s)" % (HOOK_COQ[e[1]], cnat(key_id(e[1], e[2])))
    if k == "cleanup":
        return "(ECleanup %s %s)" % (cnat(e[1]), cbool(e[2]))
    assert k == "fmt", e
    f = e[1]
    if f == "uri":
        return "(EFmt (FUri %s))" % cnat(int(e[2][1:].split(".")[0]))
    if f == "feature":
        return "(EFmt (FFeature %s))" % cnat(name_id(e[2]))
    if f == "rule":
        return "(EFmt (FRuleEv %s))" % cnat(name_id(e[2]))
    if f == "background":
        return "(EFmt (FBackground %s))" % clist([cnat(step_id_of(n)) for n in e[3]], "nat")
    if f == "scenario":
        return "(EFmt (FScenario %s))" % cnat(name_id(e[2]))
    if f == "step":
        return "(EFmt (FStepAnn %s))" % cnat(step_id_of(e[2]))
    if f == "match":
        return "(EFmt (FMatch %s))" % cbool(e[2])
    if f == "result":
        return "(EFmt (FResult %s %s))" % (cnat(step_id_of(e[2])), e[3])
    if f == "eof":
        return "(EFmt FEof)"
    if f == "close":
        return "(EFmt FClose)"
    raise ValueError(e)


def c_output(obs):
    return "(%s, %s, %s, %s)" % (clist([c_feat_res(t) for t in obs["tree"]], "feat_res"),
                                 cbool(obs["failed"]), cbool(obs["aborted"]),
                                 clist([c_event(e) for e in obs["log"] if e[0] != "excluded"], "event"))


def enc(prog, obs):
    if obs.get("crashed") or obs.get("failed") is None:
        return None
    try:
        return c_program(prog), c_output(obs)
    except (ValueError, KeyError, AssertionError):
        return None         # the observation names something the program does not contain (a tag, an element): the oracles judge it


COQ = {"header": HEADER, "in_ty": "cfgdata * list feature", "out_ty": "run_output",
       "fn": "run_case", "eqb": "run_output_eqb", "enc": enc, "shard": 150}


# ------------------------------------------------------------------ implementation
def impl_run(prog):
    obs = runprog.run_program(prog)
    return obs


# ------------------------------------------------------------------ generators
KIND_WEIGHTS = [("pass", 10), ("fail", 3), ("error", 2), ("pending", 2), ("undefined", 2), ("skip", 2),
                ("kbd", 1), ("abort", 1), ("cleanupok", 1), ("cleanupraise", 1)]
TAGS = ["t1", "t2", "t3"]
EXPRS = [None, None, None, ["has", "t1"], ["not", "t1"], ["has", "t2"], ["not", "t2"],
         ["and", ["has", "t1"], ["has", "t2"]], ["or", ["has", "t1"], ["has", "t3"]],
         ["and", ["has", "t1"], ["not", "t2"]], ["not", ["or", ["has", "t1"], ["has", "t2"]]],
         ["has", "wip"], ["not", "wip"]]


class Ids(object):
    def __init__(self):
        self.n = 0

    def next(self):
        self.n += 1
        return self.n


def rnd_kind(rnd, kinds=None):
    kinds = kinds or KIND_WEIGHTS
    tot = sum(w for _, w in kinds)
    x = rnd.uniform(0, tot)
    for k, w in kinds:
        x -= w
        if x <= 0:
            return k
    return kinds[-1][0]


def rnd_tags(rnd, p=0.35, wip=0.1):
    out = [t for t in TAGS if rnd.random() < p]
    if rnd.random() < wip:
        out.append("wip")
    return out


def gen_steps(rnd, sid, lo, hi, kinds=None):
    return [{"kind": rnd_kind(rnd, kinds), "id": sid.next()} for _ in range(rnd.randint(lo, hi))]


def gen_sitem(rnd, eid, sid, kinds=None, outline_p=0.3):
    if rnd.random() < outline_p:
        return {"kind": "outline", "id": eid.next(), "tags": rnd_tags(rnd),
                "steps": gen_steps(rnd, sid, 1, 3, kinds),
                "examples": [{"id": eid.next(), "tags": rnd_tags(rnd, 0.25, 0.05), "rows": rnd.randint(0, 2)}
                             for _ in range(rnd.randint(1, 2))]}
    return {"kind": "scenario", "id": eid.next(), "tags": rnd_tags(rnd), "steps": gen_steps(rnd, sid, 1, 4, kinds)}


def gen_feature(rnd, eid, sid, kinds=None, max_items=3, rule_p=0.35):
    f = {"id": eid.next(), "tags": rnd_tags(rnd, 0.25, 0.05),
         "bg": gen_steps(rnd, sid, 1, 2, kinds) if rnd.random() < 0.3 else None, "items": []}
    for _ in range(rnd.randint(1, max_items)):
        f["items"].append(gen_sitem(rnd, eid, sid, kinds))
    if rnd.random() < rule_p:
        for _ in range(rnd.randint(1, 2)):
            f["items"].append({"kind": "rule", "id": eid.next(), "tags": rnd_tags(rnd, 0.25, 0.05),
                               "bg": gen_steps(rnd, sid, 1, 2, kinds) if rnd.random() < 0.3 else None,
                               "items": [gen_sitem(rnd, eid, sid, kinds) for _ in range(rnd.randint(0, 2))]})
    return f


def gen_cfg(rnd, hooks_p=0.8):
    hooks = list(runprog.HOOKS) if rnd.random() < hooks_p else [h for h in runprog.HOOKS if rnd.random() < 0.5]
    return {"dry_run": rnd.random() < 0.15, "stop": rnd.random() < 0.25, "show_skipped": rnd.random() < 0.5,
            "expr": rnd.choice(EXPRS), "hooks": hooks, "faults": [], "hook_cleanups": [],
            "continue_after_failed": rnd.random() < 0.15, "async_steps": rnd.random() < 0.25}


def gen_program(rnd, kinds=None, nfeatures=None):
    eid, sid = Ids(), Ids()
    n = nfeatures or (1 if rnd.random() < 0.6 else 2)
    prog = {"features": [gen_feature(rnd, eid, sid, kinds) for _ in range(n)], "cfg": gen_cfg(rnd)}
    return runprog.normalize_program(prog)


def hook_sites(prog):
    """All statically possible hook sites (hook, key) of a program."""
    sites = [("before_all", 0), ("after_all", 0)]

    def tags(ts):
        for t in ts:
            sites.append(("before_tag", t))
            sites.append(("after_tag", t))

    def steps(ss):
        for s in ss:
            sites.append(("before_step", str(s["id"])))
            sites.append(("after_step", str(s["id"])))

    def sitem(it, bg):
        if it["kind"] == "scenario":
            tags(it["tags"])
            sites.append(("before_scenario", "S%d" % it["id"]))
            sites.append(("after_scenario", "S%d" % it["id"]))
            steps(bg + it["steps"])
        else:
            for ei, ex in enumerate(it["examples"]):
                tags(it["tags"] + ex["tags"])
                for r in range(ex["rows"]):
                    nm = "O%d -- @%d.%d E%d" % (it["id"], ei + 1, r + 1, ex["id"])
                    sites.append(("before_scenario", nm))
                    sites.append(("after_scenario", nm))
            steps(bg + it["steps"])
    for f in prog["features"]:
        tags(f["tags"])
        sites.append(("before_feature", "F%d" % f["id"]))
        sites.append(("after_feature", "F%d" % f["id"]))
        bg = f["bg"] or []
        for it in f["items"]:
            if it["kind"] == "rule":
                tags(it["tags"])
                sites.append(("before_rule", "R%d" % it["id"]))
                sites.append(("after_rule", "R%d" % it["id"]))
                for x in it["items"]:
                    sitem(x, bg + (it["bg"] or []))
            else:
                sitem(it, bg)
    out = []
    for s in sites:
        if s not in out:
            out.append(s)
    return out


def with_random_faults(rnd, prog, p_fault=0.5, p_cleanup=0.3):
    prog = copy.deepcopy(prog)
    sites = hook_sites(prog)
    if rnd.random() < p_fault:
        h, k = rnd.choice(sites)
        prog["cfg"]["faults"] = [[h, k]]
        if rnd.random() < 0.15:
            h2, k2 = rnd.choice(sites)
            if [h2, k2] not in prog["cfg"]["faults"]:
                prog["cfg"]["faults"].append([h2, k2])
    if rnd.random() < p_cleanup:
        h, k = rnd.choice([s for s in sites if not s[0].startswith("after_all")])
        prog["cfg"]["hook_cleanups"] = [[h, k, 500 + rnd.randint(0, 9), rnd.random() < 0.5]]
    return prog


def with_random_aborts(rnd, prog):
    """one or two hook invocations call context.abort() (without raising)"""
    prog = copy.deepcopy(prog)
    sites = hook_sites(prog)
    prog["cfg"]["aborts"] = [list(rnd.choice(sites))]
    if rnd.random() < 0.2:
        prog["cfg"]["aborts"].append(list(rnd.choice(sites)))
    return prog


def program_size(prog):
    n = 0
    for f in prog["features"]:
        for it in f["items"]:
            n += 1
            if it["kind"] == "rule":
                n += len(it["items"])
    return n


def shrink_program(prog):
    """Candidates one step smaller (used by the greedy shrinker)."""
    p = prog
    if len(p["features"]) > 1:
        for i in range(len(p["features"])):
            q = copy.deepcopy(p)
            del q["features"][i]
            yield q
    for fi, f in enumerate(p["features"]):
        for ii, it in enumerate(f["items"]):
            q = copy.deepcopy(p)
            del q["features"][fi]["items"][ii]
            yield q
            if it["kind"] == "rule":
                for ji in range(len(it["items"])):
                    q = copy.deepcopy(p)
                    del q["features"][fi]["items"][ii]["items"][ji]
                    yield q
            elif len(it["steps"]) > 1:
                for si in range(len(it["steps"])):
                    q = copy.deepcopy(p)
                    del q["features"][fi]["items"][ii]["steps"][si]
                    yield q
        if f["bg"]:
            q = copy.deepcopy(p)
            q["features"][fi]["bg"] = None
            yield q
    c = p["cfg"]
    for key in ("dry_run", "stop", "show_skipped", "continue_after_failed"):
        if c.get(key):
            q = copy.deepcopy(p)
            q["cfg"][key] = False
            yield q
    if c.get("expr") is not None:
        q = copy.deepcopy(p)
        q["cfg"]["expr"] = None
        yield q
    for key in ("faults", "hook_cleanups"):
        for i in range(len(c.get(key, []))):
            q = copy.deepcopy(p)
            del q["cfg"][key][i]
            yield q


def histogram(cases, obs):
    h = {"dry_run": 0, "stop": 0, "with_expr": 0, "with_fault": 0, "failed_runs": 0, "aborted_runs": 0,
         "programs_with_rule": 0, "programs_with_outline": 0, "step_kinds": {}}
    for c, o in zip(cases, obs):
        cfg = c["cfg"]
        h["dry_run"] += bool(cfg.get("dry_run"))
        h["stop"] += bool(cfg.get("stop"))
        h["with_expr"] += cfg.get("expr") is not None
        h["with_fault"] += bool(cfg.get("faults"))
        if isinstance(o, dict) and "failed" in o:
            h["failed_runs"] += bool(o["failed"])
            h["aborted_runs"] += bool(o.get("aborted"))
        rule = outline = False
        for f in c["features"]:
            for it in f["items"]:
                rule |= it["kind"] == "rule"
                outline |= it["kind"] == "outline"
                for x in (it["items"] if it["kind"] == "rule" else [it]):
                    for s in x.get("steps", []):
                        h["step_kinds"][s["kind"]] = h["step_kinds"].get(s["kind"], 0) + 1
        h["programs_with_rule"] += rule
        h["programs_with_outline"] += outline
    return h
