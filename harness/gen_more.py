"""Further generated tables (one function per generated .v file); imported by gen_tables.py."""
from __future__ import annotations
from gen_tables import STATUS_NAMES, cbool, clist, REPO


def gen_summary():
    from behave.model_core import Status
    from behave.summary import STATUS_ORDER
    from behave.reporter import summary as rs
    from behave.configuration import Configuration
    out = ["(* GENERATED from %s/behave/summary.py and reporter/summary.py by harness/gen_more.py — do not edit *)" % REPO,
           "From BV Require Import Base Status.", ""]
    names = lambda seq: clist([s.name for s in seq], "status")
    out.append("Definition status_order : list status := %s." % names(STATUS_ORDER))
    out.append("Definition optional_v1 : list status := %s." % names(rs.OPTIONAL_STATUS_PARTS_V1))
    out.append("Definition optional_v2 : list status := %s." % names(rs.OPTIONAL_STATUS_PARTS_V2))
    cfg = Configuration(["--no-color"], load_config=False)
    rep = rs.SummaryReporterV1(cfg)
    def keys(d):
        return clist([k for k in d.keys() if k != "all" and k in STATUS_NAMES], "status")
    out.append("Definition element_keys : list status := %s." % keys(rep.scenario_summary))
    out.append("Definition feature_keys : list status := %s." % keys(rep.feature_summary))
    out.append("Definition rule_keys : list status := %s." % keys(rep.rule_summary))
    out.append("Definition step_keys : list status := %s." % keys(rep.step_summary))
    from behave.summary import StatusCounts
    out.append("Definition collector_keys : list status := %s." % clist([k.name for k in StatusCounts.ZERO.keys()], "status"))
    out.append("Definition default_output_format_is_v1 : bool := %s." % cbool(rs.SummaryReporterV1.output_format == "v1"))
    out.append("Definition summary_reporter_is_v1 : bool := %s." % cbool(rs.SummaryReporter is rs.SummaryReporterV1))
    return "\n".join(out) + "\n"


def gen_unicode():
    """character classes of the running Python that the string models consult"""
    import sys
    space = [c for c in range(sys.maxunicode + 1) if chr(c).isspace()]
    # str.splitlines boundaries
    lines = [c for c in range(sys.maxunicode + 1) if len(("a" + chr(c) + "b").splitlines()) == 2]
    digits = [c for c in range(128) if chr(c).isdigit()]
    out = ["(* GENERATED from the running Python (str.isspace, str.splitlines) by harness/gen_more.py *)",
           "From BV Require Import Base.", "",
           "Definition space_cps : list N := %s." % clist(["%d%%N" % c for c in space], "N"),
           "Definition linebreak_cps : list N := %s." % clist(["%d%%N" % c for c in lines], "N"),
           "Definition ascii_digit_cps : list N := %s." % clist(["%d%%N" % c for c in digits], "N")]
    return "\n".join(out) + "\n"


def gen_activetag():
    import re
    from behave.tag_matcher import ActiveTagMatcher, BoolValueObject
    word = [c for c in range(0x250) if re.match(r"\w", chr(c))]
    out = ["(* GENERATED from %s/behave/tag_matcher.py and Python's re by harness/gen_more.py *)" % REPO,
           "From BV Require Import Base.", "",
           "Definition word_cps : list N := %s." % clist(["%d%%N" % c for c in word], "N"),
           "Definition at_prefixes : list ustr := %s." % clist([cstr_(p) for p in ActiveTagMatcher.tag_prefixes], "ustr"),
           "Definition at_separator : ustr := %s." % cstr_(ActiveTagMatcher.value_separator),
           "Definition at_negated : list bool := %s." % clist([cbool(ActiveTagMatcher(None).is_tag_negated(p)) for p in ActiveTagMatcher.tag_prefixes], "bool"),
           "Definition at_ignore_unknown : bool := %s." % cbool(ActiveTagMatcher.ignore_unknown_categories),
           "Definition bool_true_strings : list ustr := %s." % clist([cstr_(x) for x in sorted(BoolValueObject.TRUE_STRINGS)], "ustr"),
           "Definition bool_false_strings : list ustr := %s." % clist([cstr_(x) for x in sorted(BoolValueObject.FALSE_STRINGS)], "ustr"),
           "Definition lower_pairs : list (N * N) := %s." % clist(["(%d%%N, %d%%N)" % (c, ord(chr(c).lower())) for c in range(0x250)
                                                                  if len(chr(c).lower()) == 1 and ord(chr(c).lower()) != c], "N * N")]
    return "\n".join(out) + "\n"


def cstr_(s):
    if not s:
        return "(@nil N)"
    return "[" + "; ".join("%d%%N" % ord(c) for c in s) + "]"


def gen_config():
    """argparse actions of setup_parser(), the config-file schema of configfile_options_iter(None),
    Configuration.defaults, the file search order and the small tables the converters consult.
    Fail-closed: anything this translator does not understand raises."""
    import logging
    import configparser
    from behave import configuration as C
    from behave.userdata import parse_user_define
    from behave.tag_expression import TagExpressionProtocol
    from behave.formatter import _registry as freg

    def ctype(t):
        if t is None:
            return "TNone"
        if t is C.positive_number:
            return "TPosInt"
        if getattr(t, "__func__", None) is C.LogLevel.parse_type.__func__:
            return "TLogLevel"
        if getattr(t, "__func__", None) is TagExpressionProtocol.from_name.__func__:
            return "TProto"
        if t is parse_user_define:
            return "TDefine"
        raise ValueError("gen_config: unknown option type %r" % (t,))

    protos = [m.name for m in TagExpressionProtocol]

    def cval(v):
        if v is None:
            return "VNone"
        if isinstance(v, bool):
            return "(VBool %s)" % cbool(v)
        if isinstance(v, int):
            return "(VInt %d%%Z)" % v
        if isinstance(v, str):
            return "(VStr %s)" % cstr_(v)
        if isinstance(v, TagExpressionProtocol):
            return "(VProto %d)" % protos.index(v.name)
        if isinstance(v, dict) and not v:
            return "(VDefs (@nil (ustr * ustr)))"
        raise ValueError("gen_config: unknown default value %r" % (v,))

    actions = {"_StoreAction": "AStore", "_StoreTrueAction": "AStoreTrue", "_StoreFalseAction": "AStoreFalse",
               "_StoreConstAction": "AStoreConst", "_AppendAction": "AAppend"}
    parser = C.setup_parser()
    rows = []
    for a in parser._actions:
        kind = type(a).__name__
        if kind == "_HelpAction":
            continue
        if kind not in actions:
            raise ValueError("gen_config: unknown argparse action %s" % kind)
        if a.nargs not in (None, 0, "?", "*"):
            raise ValueError("gen_config: unknown nargs %r" % (a.nargs,))
        if a.nargs == "*" and a.option_strings:
            raise ValueError("gen_config: nargs=* on an option")
        rows.append("  mkOpt %s %s %s %s %s %s %s %s" % (
            clist([cstr_(f) for f in a.option_strings], "ustr"), cstr_(a.dest), actions[kind], ctype(a.type),
            cval(a.default), cval(a.const), cbool(a.nargs == "?"),
            clist([cstr_(c) for c in (a.choices or [])], "ustr")))
    fileacts = {"store": "AStore", "store_true": "AStoreTrue", "append": "AAppend"}
    frows = []
    for dest, action, vtype in C.configfile_options_iter(None):
        if action not in fileacts:
            raise ValueError("gen_config: unknown config-file action %s" % action)
        frows.append("  (%s, %s, %s)" % (cstr_(dest), fileacts[action], ctype(vtype)))
    defaults = ["  (%s, %s)" % (cstr_(k), cval(v)) for k, v in C.Configuration.defaults.items()]
    # file search order: which (directory, file name) pairs are read, first read first
    import os
    old_home, old_isfile = os.environ.get("HOME"), os.path.isfile
    os.environ["HOME"] = "/@HOME@"
    os.path.isfile = lambda p: True
    try:
        names = list(C.config_filenames())
    finally:
        os.path.isfile = old_isfile
        if old_home is None:
            del os.environ["HOME"]
        else:
            os.environ["HOME"] = old_home
    order = []
    for n in names:
        d, f = os.path.split(n)
        if d not in (".", "/@HOME@"):
            raise ValueError("gen_config: unexpected config directory %r" % d)
        ext = f.split(".")[-1]
        fn = C.CONFIG_FILE_PARSERS.get(ext)
        kind = {C.read_configparser: "KIni", getattr(C, "read_toml_config", None): "KToml", None: "KNone"}[fn]
        order.append("  (%s, %s, %s)" % (cbool(d != "."), cstr_(f), kind))
    levels = sorted((n, getattr(logging, n)) for n in dir(logging) if n == n.upper() and type(getattr(logging, n)) is int)
    fmts = sorted(n for n in freg._formatter_registry.keys()) if hasattr(freg, "_formatter_registry") else None
    if fmts is None:
        raise ValueError("gen_config: formatter registry layout changed")
    fmts = [n for n in fmts if freg.is_formatter_valid(n)]
    out = ["(* GENERATED from %s/behave/configuration.py (setup_parser(), configfile_options_iter(None)," % REPO,
           "   Configuration.defaults, config_filenames()), logging and configparser by harness/gen_more.py — do not edit *)",
           "From BV Require Import Base ConfigTypes.", "",
           "Definition cli_options : list opt := [\n%s\n]." % ";\n".join(rows), "",
           "Definition file_options : list (ustr * action * vtype) := [\n%s\n]." % ";\n".join(frows), "",
           "Definition class_defaults : list (ustr * cval) := [\n%s\n]." % ";\n".join(defaults), "",
           "(* (in home directory?, file name, reader) in the order the files are read: later files override earlier ones *)",
           "Definition file_order : list (bool * ustr * fkind) := [\n%s\n]." % ";\n".join(order), "",
           "Definition proto_names : list ustr := %s." % clist([cstr_(n) for n in protos], "ustr"),
           "Definition proto_strict : nat := %d." % protos.index(TagExpressionProtocol.STRICT.name),
           "Definition proto_default : nat := %d." % protos.index(TagExpressionProtocol.DEFAULT.name),
           "Definition level_names : list (ustr * Z) := %s." % clist(["(%s, %d%%Z)" % (cstr_(n), v) for n, v in levels], "ustr * Z"),
           "Definition ini_true : list ustr := %s." % clist([cstr_(k) for k, v in configparser.ConfigParser.BOOLEAN_STATES.items() if v], "ustr"),
           "Definition ini_false : list ustr := %s." % clist([cstr_(k) for k, v in configparser.ConfigParser.BOOLEAN_STATES.items() if not v], "ustr"),
           "Definition valid_formats : list ustr := %s." % clist([cstr_(n) for n in fmts], "ustr"),
           "Definition excluded_file_dests : list ustr := %s." % clist([cstr_(n) for n in sorted(C.CONFIGFILE_EXCLUDED_OPTIONS)], "ustr"),
           "Definition ascii_upper : list (N * N) := %s." % clist(["(%d%%N, %d%%N)" % (c, ord(chr(c).upper())) for c in range(128) if chr(c).upper() != chr(c)], "N * N"),
           "Definition ascii_lower : list (N * N) := %s." % clist(["(%d%%N, %d%%N)" % (c, ord(chr(c).lower())) for c in range(128) if chr(c).lower() != chr(c)], "N * N"),
           "Definition default_runner : ustr := %s." % cstr_(C.DEFAULT_RUNNER_CLASS_NAME),
           "Definition color_off : ustr := %s." % cstr_(C.COLOR_DEFAULT_OFF)]
    return "\n".join(out) + "\n"


def gen_outline():
    """character classes and constants Tag.make_name consults"""
    import sys
    from behave.model import Tag, ScenarioOutlineBuilder
    ranges, start, prev = [], None, None
    for c in range(sys.maxunicode + 1):
        if chr(c).isalnum():
            if start is None:
                start = c
            prev = c
        elif start is not None:
            ranges.append((start, prev))
            start = None
    if start is not None:
        ranges.append((start, prev))
    if tuple(Tag.quoting_chars) != ("'", '"', "<", ">"):
        raise ValueError("gen_outline: Tag.quoting_chars changed: %r" % (Tag.quoting_chars,))
    out = ["(* GENERATED from %s/behave/model.py (Tag.allowed_chars, default annotation schema) and str.isalnum by harness/gen_more.py *)" % REPO,
           "From BV Require Import Base.", "",
           "Definition alnum_ranges : list (N * N) := %s." % clist(["(%d%%N, %d%%N)" % r for r in ranges], "N * N"),
           "Definition tag_allowed_chars : list N := %s." % clist(["%d%%N" % ord(c) for c in Tag.allowed_chars], "N"),
           "Definition default_annotation_schema : ustr := %s." % cstr_(ScenarioOutlineBuilder.annotation_schema)]
    return "\n".join(out) + "\n"


def gen_junit():
    """the characters behave's JUnit reporter treats as invalid, ElementTree's attribute/text escaping, status tuples of _process_scenario"""
    import sys, inspect, re
    from xml.etree import ElementTree
    from behave.reporter import junit
    ranges, start, prev = [], None, None
    rx = junit._invalid_re
    for c in range(sys.maxunicode + 1):
        if 0xD800 <= c <= 0xDFFF:
            hit = True          # lone surrogates cannot be fed to the regex portably; they are in the code's table
        else:
            hit = bool(rx.match(chr(c)))
        if hit:
            if start is None:
                start = c
            prev = c
        elif start is not None:
            ranges.append((start, prev))
            start = None
    if start is not None:
        ranges.append((start, prev))
    attr = [(c, ElementTree._escape_attrib(chr(c))) for c in range(128) if ElementTree._escape_attrib(chr(c)) != chr(c)]
    text = [(c, ElementTree._escape_cdata(chr(c))) for c in range(128) if ElementTree._escape_cdata(chr(c)) != chr(c)]
    probe = junit._escape_invalid_xml_chars("\x01|\x1f|￾")
    src = inspect.getsource(junit.JUnitReporter._process_scenario)
    def tup(name):
        m = re.search(name + r"\s*=\s*[\(\[]([^\)\]]*)[\)\]]", src)
        if not m:
            raise ValueError("gen_junit: %s not found in _process_scenario" % name)
        return [x.strip().split(".")[-1] for x in m.group(1).split(",") if x.strip()]
    out = ["(* GENERATED from %s/behave/reporter/junit.py (_invalid_re, status tuples of _process_scenario) and xml.etree.ElementTree by harness/gen_more.py *)" % REPO,
           "From BV Require Import Base Status.", "",
           "Definition junit_invalid_ranges : list (N * N) := %s." % clist(["(%d%%N, %d%%N)" % r for r in ranges], "N * N"),
           "Definition et_attr_escapes : list (N * ustr) := %s." % clist(["(%d%%N, %s)" % (c, cstr_(t)) for c, t in attr], "N * ustr"),
           "Definition et_text_escapes : list (N * ustr) := %s." % clist(["(%d%%N, %s)" % (c, cstr_(t)) for c, t in text], "N * ustr"),
           "Definition invalid_probe : ustr := %s." % cstr_(probe),
           "Definition junit_error_step_statuses : list status := %s." % clist(tup("error_statuses"), "status"),
           "Definition junit_failed_step_statuses : list status := %s." % clist(tup("failed_statuses"), "status"),
           "Definition junit_skipped_statuses : list status := %s." % clist(tup("skipped_statuses"), "status"),
           "Definition junit_problematic_statuses : list status := %s." % clist(tup("problematic_statuses"), "status")]
    return "\n".join(out) + "\n"


def gen_gherkin():
    """behave/i18n.py keyword tables and the case mapping the step-keyword scan needs"""
    import sys
    from behave import i18n
    kinds = ["feature", "rule", "background", "scenario", "scenario_outline", "examples", "given", "when", "then", "and", "but"]
    langs = []
    lowered = set()
    for code in sorted(i18n.languages):
        tab = i18n.languages[code]
        fields = []
        for k in kinds:
            v = tab.get(k)
            if not isinstance(v, list) or not all(isinstance(a, str) for a in v):
                raise ValueError("gen_gherkin: language %s keyword %s is not a list of strings" % (code, k))
            fields.append(clist([cstr_(a) for a in v], "ustr"))
            for a in v:
                lowered.update(a.lower())
        langs.append("  (%s, mkKw %s)" % (cstr_(code), " ".join(fields)))
    # str.lower() restricted to what can matter for startswith(keyword.lower()): characters whose lower case is one
    # character occurring in a lower-cased keyword; characters whose lower case is longer than one character are listed apart
    pairs, multi = [], []
    for c in range(sys.maxunicode + 1):
        if 0xD800 <= c <= 0xDFFF:
            continue
        lo = chr(c).lower()
        if len(lo) != 1:
            multi.append(c)
        elif lo != chr(c) and lo in lowered:
            pairs.append((c, ord(lo)))
    out = ["(* GENERATED from %s/behave/i18n.py (languages) and str.lower by harness/gen_more.py *)" % REPO,
           "From BV Require Import Base GherkinTypes.", "",
           "Definition languages : list (ustr * kwtable) := [\n%s\n]." % ";\n".join(langs), "",
           "Definition kw_lower_pairs : list (N * N) := %s." % clist(["(%d%%N, %d%%N)" % p for p in pairs], "N * N"),
           "Definition multi_lower_cps : list N := %s." % clist(["%d%%N" % c for c in multi], "N"),
           "Definition default_language : ustr := %s." % cstr_("en")]
    return "\n".join(out) + "\n"


GENERATORS = {
    "GherkinTables.v": gen_gherkin,
    "JUnitTables.v": gen_junit,
    "OutlineTables.v": gen_outline,
    "ConfigTables.v": gen_config,
    "ActiveTagTables.v": gen_activetag,
    "SummaryTables.v": gen_summary,
    "UnicodeTables.v": gen_unicode,
}
