"""Further generated tables (one function per generated .v file); imported by gen_tables.py."""
from __future__ import annotations
from gen_tables import STATUS_NAMES, cbool, clist, REPO


def gen_summary():
    from behave.model_core import Status
    from behave.summary import STATUS_ORDER
    from behave.reporter import summary as rs
    from behave.configuration import Configuration
    out = ["(* GENERATED from %s/behave/summary.py and reporter/summary.py by harness/gen_more.py — do not edit *)" % REPO,
           "From BV Require Import Base Status.", ""]
    names = lambda seq: clist([s.name for s in seq], "status")
    out.append("Definition status_order : list status := %s." % names(STATUS_ORDER))
    out.append("Definition optional_v1 : list status := %s." % names(rs.OPTIONAL_STATUS_PARTS_V1))
    out.append("Definition optional_v2 : list status := %s." % names(rs.OPTIONAL_STATUS_PARTS_V2))
    cfg = Configuration(["--no-color"], load_config=False)
    rep = rs.SummaryReporterV1(cfg)
    def keys(d):
        return clist([k for k in d.keys() if k != "all" and k in STATUS_NAMES], "status")
    out.append("Definition element_keys : list status := %s." % keys(rep.scenario_summary))
    out.append("Definition feature_keys : list status := %s." % keys(rep.feature_summary))
    out.append("Definition rule_keys : list status := %s." % keys(rep.rule_summary))
    out.append("Definition step_keys : list status := %s." % keys(rep.step_summary))
    from behave.summary import StatusCounts
    out.append("Definition collector_keys : list status := %s." % clist([k.name for k in StatusCounts.ZERO.keys()], "status"))
    out.append("Definition default_output_format_is_v1 : bool := %s." % cbool(rs.SummaryReporterV1.output_format == "v1"))
    out.append("Definition summary_reporter_is_v1 : bool := %s." % cbool(rs.SummaryReporter is rs.SummaryReporterV1))
    return "\n".join(out) + "\n"


def gen_unicode():
    """character classes of the running Python that the string models consult"""
    import sys
    space = [c for c in range(sys.maxunicode + 1) if chr(c).isspace()]
    # str.splitlines boundaries
    lines = [c for c in range(sys.maxunicode + 1) if len(("a" + chr(c) + "b").splitlines()) == 2]
    digits = [c for c in range(128) if chr(c).isdigit()]
    out = ["(* GENERATED from the running Python (str.isspace, str.splitlines) by harness/gen_more.py *)",
           "From BV Require Import Base.", "",
           "Definition space_cps : list N := %s." % clist(["%d%%N" % c for c in space], "N"),
           "Definition linebreak_cps : list N := %s." % clist(["%d%%N" % c for c in lines], "N"),
           "Definition ascii_digit_cps : list N := %s." % clist(["%d%%N" % c for c in digits], "N")]
    return "\n".join(out) + "\n"


def gen_activetag():
    import re
    from behave.tag_matcher import ActiveTagMatcher, BoolValueObject
    word = [c for c in range(0x250) if re.match(r"\w", chr(c))]
    out = ["(* GENERATED from %s/behave/tag_matcher.py and Python's re by harness/gen_more.py *)" % REPO,
           "From BV Require Import Base.", "",
           "Definition word_cps : list N := %s." % clist(["%d%%N" % c for c in word], "N"),
           "Definition at_prefixes : list ustr := %s." % clist([cstr_(p) for p in ActiveTagMatcher.tag_prefixes], "ustr"),
           "Definition at_separator : ustr := %s." % cstr_(ActiveTagMatcher.value_separator),
           "Definition at_negated : list bool := %s." % clist([cbool(ActiveTagMatcher(None).is_tag_negated(p)) for p in ActiveTagMatcher.tag_prefixes], "bool"),
           "Definition at_ignore_unknown : bool := %s." % cbool(ActiveTagMatcher.ignore_unknown_categories),
           "Definition bool_true_strings : list ustr := %s." % clist([cstr_(x) for x in sorted(BoolValueObject.TRUE_STRINGS)], "ustr"),
           "Definition bool_false_strings : list ustr := %s." % clist([cstr_(x) for x in sorted(BoolValueObject.FALSE_STRINGS)], "ustr"),
           "Definition lower_pairs : list (N * N) := %s." % clist(["(%d%%N, %d%%N)" % (c, ord(chr(c).lower())) for c in range(0x250)
                                                                  if len(chr(c).lower()) == 1 and ord(chr(c).lower()) != c], "N * N")]
    return "\n".join(out) + "\n"


def cstr_(s):
    if not s:
        return "(@nil N)"
    return "[" + "; ".join("%d%%N" % ord(c) for c in s) + "]"


GENERATORS = {
    "ActiveTagTables.v": gen_activetag,
    "SummaryTables.v": gen_summary,
    "UnicodeTables.v": gen_unicode,
}
