#!/bin/bash
# independent re-check of all compiled property files and everything they depend on; prints coqchk's context summary (axioms)
cd /verif/coq || exit 2
mods=$(ls props/C*.v | sed 's#props/\(.*\)\.v#BVProps.\1#' | tr '\n' ' ')
timeout 3000 coqchk -silent -o -Q theories BV -Q gen BVGen -Q props BVProps $mods 2>&1 | tail -14
