#!/bin/bash
# run every registered quick (or thorough) check on the current tree; print one summary line each
tier=${1:-quick}
cd /verif
for c in $(python3 -c "import json;print(' '.join(x['property_id'] for x in json.load(open('MANIFEST.json'))['checks']))"); do
  /venv/bin/python harness/check.py $c --tier $tier 2>&1 | grep -E "^VIOLATION|^$c $tier" | cut -c1-240
done
