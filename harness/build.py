#!/venv/bin/python
"""Build the Coq development: regenerate tables from /repo, (re)write
_CoqProject + Makefile, run a full .vo `make` (never -vos).

usage: build.py [--all] [--targets a.vo b.vo] [--quiet]
"""
from __future__ import annotations
import os, sys, subprocess, glob, json, re, time

VERIF = os.path.dirname(os.path.dirname(os.path.abspath(__file__)))
COQ = os.path.join(VERIF, "coq")
PY = "/venv/bin/python"

FORBIDDEN = re.compile(
    r"\b(Admitted|admit|Axiom|Parameter|Conjecture|Parameters|Axioms|Hypothesis|Variable|Variables|Hypotheses)\b|"
    r"Unset\s+Guard|bypass_check|type-in-type|impredicative-set|Admit\s+Obligations|Unset\s+Universe\s+Checking|"
    r"Unset\s+Positivity")


def gate():
    """Fail the build when a forbidden declaration appears outside a Section."""
    bad = []
    for path in sorted(glob.glob(os.path.join(COQ, "theories", "*.v")) +
                       glob.glob(os.path.join(COQ, "props", "*.v"))):
        depth = 0
        in_comment = 0
        for ln, line in enumerate(open(path, encoding="utf-8"), 1):
            # strip comments (nesting aware, line granular is enough for a gate)
            out = []
            i = 0
            while i < len(line):
                if line.startswith("(*", i):
                    in_comment += 1; i += 2; continue
                if line.startswith("*)", i) and in_comment:
                    in_comment -= 1; i += 2; continue
                if not in_comment:
                    out.append(line[i])
                i += 1
            code = "".join(out)
            if re.match(r"\s*Section\b", code):
                depth += 1
            if re.match(r"\s*End\b", code) and depth:
                depth -= 1
            m = FORBIDDEN.search(code)
            if m:
                word = m.group(0)
                if word in ("Variable", "Variables", "Hypothesis", "Hypotheses") and depth > 0:
                    continue
                bad.append("%s:%d: %s" % (os.path.relpath(path, VERIF), ln, word))
    return bad


def gen_tables():
    env = dict(os.environ, PYTHONHASHSEED="0")
    p = subprocess.run([PY, os.path.join(VERIF, "harness", "gen_tables.py")],
                       capture_output=True, text=True, env=env, timeout=600)
    if p.returncode != 0:
        return {"changed": [], "errors": {"gen_tables": p.stderr[-2000:]}}
    try:
        return json.loads(p.stdout.strip().splitlines()[-1])
    except Exception:
        return {"changed": [], "errors": {"gen_tables": "unparsable output: " + p.stdout[-500:] + p.stderr[-1500:]}}


def write_project():
    files = []
    for sub in ("gen", "theories", "props"):
        files += sorted(os.path.relpath(p, COQ) for p in glob.glob(os.path.join(COQ, sub, "*.v")))
    text = "-Q theories BV\n-Q gen BVGen\n-Q props BVProps\n-arg -w -arg -notation-overridden,-deprecated\n" + "\n".join(files) + "\n"
    path = os.path.join(COQ, "_CoqProject")
    old = open(path).read() if os.path.exists(path) else None
    if old != text:
        open(path, "w").write(text)
        subprocess.run(["coq_makefile", "-f", "_CoqProject", "-o", "Makefile"], cwd=COQ,
                       check=True, capture_output=True)
    elif not os.path.exists(os.path.join(COQ, "Makefile")):
        subprocess.run(["coq_makefile", "-f", "_CoqProject", "-o", "Makefile"], cwd=COQ,
                       check=True, capture_output=True)


def make(targets=None, timeout=3000, jobs=16):
    cmd = ["timeout", str(timeout), "make", "-j%d" % jobs, "-k"]
    if targets:
        cmd += targets
    t0 = time.time()
    p = subprocess.run(cmd, cwd=COQ, capture_output=True, text=True)
    return p.returncode, p.stdout + p.stderr, time.time() - t0


def failed_files(log):
    """Names of .v files whose compilation failed, from make -k output."""
    out = []
    for m in re.finditer(r'File "\./([^"]+\.v)", line \d+, characters [\d-]+:\s*\n\s*Error', log):
        if m.group(1) not in out:
            out.append(m.group(1))
    for m in re.finditer(r"make.*\*\*\* \[.*?: ([^\]\s]+\.vo)\] Error", log):
        f = m.group(1)[:-1]
        if f not in out:
            out.append(f)
    return out


def build(targets=None, quiet=False):
    info = {"gate": gate()}
    info["tables"] = gen_tables()
    write_project()
    rc, log, dt = make(targets)
    info.update(rc=rc, make_s=round(dt, 1), failed=failed_files(log) if rc else [], log_tail=log[-6000:] if rc else "")
    return info


def main(argv):
    targets = None
    if "--targets" in argv:
        targets = argv[argv.index("--targets") + 1:]
    info = build(targets)
    if info["gate"]:
        print("FORBIDDEN DECLARATIONS:\n  " + "\n  ".join(info["gate"]))
    if info["tables"].get("errors"):
        print("TABLE GENERATION ERRORS:", info["tables"]["errors"])
    if info["rc"]:
        print(info["log_tail"])
        print("BUILD FAILED (rc=%s) in %ss; failed files: %s" % (info["rc"], info["make_s"], info["failed"]))
        return 1
    if info["gate"]:
        return 1
    print("build ok in %ss (tables changed: %s)" % (info["make_s"], info["tables"].get("changed")))
    return 0


if __name__ == "__main__":
    sys.exit(main(sys.argv[1:]))
