#!/bin/bash
# usage: coqdbg.sh <file.v> <line>  -- compile the file up to <line>, then Show the goal
f=$1; n=$2
cd /verif/coq
head -n $n $f > theories/Scratch__.v
echo "Show. Abort." >> theories/Scratch__.v
coqc -Q theories BV -Q gen BVGen theories/Scratch__.v 2>&1 | grep -v "^Warning\|unused-intro" | tail -${3:-50}
rm -f theories/Scratch__.* theories/.Scratch__.aux
