"""Shared by C07 / C08: abstract tag-expression trees, renderers, implementation drivers, Coq encoders."""
from __future__ import annotations
import itertools, random, re
from common import clist, cbool, cnat, cstr

LITS = ["a", "b.c", "x-y=1", "foo"]
PATS = ["a*", "*.c", "x-?=1", "f[op]o", "[!ab]*", "*"]      # the bare "*": some tag at all (false for the empty tag set)
# operand names that need escaping in the expression text: ( ) blank backslash
HOSTILE_LITS = ["p(q)", "x y", "a\\b", "x  y"]
HOSTILE_PATS = ["p(*", "x ?", "f*\\", "\\*", "a\\?b", "f[o\\]o", "x  ?", "a \t*"]
UNIVERSE = ["a", "b.c", "x-y=1", "foo", "ab", "p(q)"]


def esc(name):
    """how an operand is written in expression text"""
    out = name.replace("\\", "\\\\").replace("(", "\\(").replace(")", "\\)")
    return "".join("\\" + c if c.isspace() else c for c in out)


def subsets(u):
    for r in range(len(u) + 1):
        for c in itertools.combinations(u, r):
            yield list(c)


SUBSETS = list(subsets(UNIVERSE))


# ------------------------------------------------------------------ independent meaning
def glob_to_re(p):
    out, i = "", 0
    while i < len(p):
        c = p[i]
        if c == "*":
            out += ".*"
        elif c == "?":
            out += "."
        elif c == "[":
            j = p.find("]", i + 2 if p[i + 1:i + 2] in ("!", "]") else i + 1)
            if j < 0:
                out += re.escape(c)
            else:
                body = p[i + 1:j]
                neg = body.startswith("!")
                if neg:
                    body = body[1:]
                out += "[" + ("^" if neg else "") + body.replace("\\", "\\\\") + "]"
                i = j
        else:
            out += re.escape(c)
        i += 1
    return re.compile("(?s:" + out + r")\Z")


def ev(e, tags):
    k = e[0]
    if k == "true":
        return True
    if k == "lit":
        return e[1] in tags
    if k == "mat":
        rx = glob_to_re(e[1])
        return any(rx.match(t) for t in tags)
    if k == "not":
        return not ev(e[1], tags)
    if k == "and":
        return ev(e[1], tags) and ev(e[2], tags)
    return ev(e[1], tags) or ev(e[2], tags)


def truth(e):
    return [ev(e, s) for s in SUBSETS]


# ------------------------------------------------------------------ trees and renderings
def atoms():
    return [("lit", l) for l in LITS[:3]] + [("mat", p) for p in PATS[:2]]


def trees(depth, pool):
    if depth == 0:
        return list(pool)
    sub = trees(depth - 1, pool)
    out = list(sub)
    for a in sub:
        out.append(("not", a))
    for a in sub:
        for b in sub:
            out.append(("and", a, b))
            out.append(("or", a, b))
    return out


def rnd_tree(rnd, depth, hostile=False):
    if depth == 0 or rnd.random() < 0.25:
        if hostile and rnd.random() < 0.5:
            return ("lit", rnd.choice(HOSTILE_LITS)) if rnd.random() < 0.5 else ("mat", rnd.choice(HOSTILE_PATS))
        return ("lit", rnd.choice(LITS)) if rnd.random() < 0.6 else ("mat", rnd.choice(PATS))
    r = rnd.random()
    if r < 0.25:
        return ("not", rnd_tree(rnd, depth - 1, hostile))
    return ("and" if r < 0.6 else "or", rnd_tree(rnd, depth - 1, hostile), rnd_tree(rnd, depth - 1, hostile))


PREC = {"or": 0, "and": 1, "not": 2}


def render_min(e, rnd=None, at=False, parent=-1, right=False):
    """precedence-minimal parentheses (not > and > or, left associative)"""
    k = e[0]
    sp = lambda: " " if rnd is None or rnd.random() < 0.8 else "  "
    if k in ("lit", "mat"):
        return ("@" if at else "") + esc(e[1])
    if k == "not":
        inner = render_min(e[1], rnd, at, PREC["not"])
        s = "not" + sp() + inner
        return s
    p = PREC[k]
    s = render_min(e[1], rnd, at, p) + sp() + k + sp() + render_min(e[2], rnd, at, p, True)
    if p < parent or (p == parent and right):
        s = "(" + s + ")"
    return s


def render_full(e, at=False):
    k = e[0]
    if k in ("lit", "mat"):
        return ("@" if at else "") + esc(e[1])
    if k == "not":
        return "not (" + render_full(e[1], at) + ")"
    return "((" + render_full(e[1], at) + ") " + k + " (" + render_full(e[2], at) + "))"


def canonical(e):
    """what str(expression) must denote: the canonical fully parenthesised text"""
    k = e[0]
    if k in ("lit", "mat"):
        return esc(e[1])
    if k == "not":
        return ("not %s" if e[1][0] in ("and", "or") else "not ( %s )") % canonical(e[1])
    return "( %s %s %s )" % (canonical(e[1]), k, canonical(e[2]))


# ------------------------------------------------------------------ implementation
def impl_expr(case):
    """case: {"text": str | list, "protocol": "v2"|"v1"|"auto"}"""
    from behave.tag_expression import make_tag_expression, TagExpressionProtocol
    from behave.tag_expression.parser import TagExpressionError
    from behave.tag_expression.builder import _select_tag_expression_parser4auto, _parse_tag_expression_v1, _parse_tag_expression_v2
    proto = {"v2": TagExpressionProtocol.V2, "v1": TagExpressionProtocol.V1, "auto": TagExpressionProtocol.AUTO_DETECT}[case["protocol"]]
    text = case["text"]
    out = {}
    if case["protocol"] == "auto":
        try:
            f = _select_tag_expression_parser4auto(text)
            out["selected"] = "v1" if f is _parse_tag_expression_v1 else "v2"
        except TagExpressionError:
            out["selected"] = "mixed"
        except Exception as e:      # noqa
            out["selected"] = "EXC:" + type(e).__name__
    try:
        ex = make_tag_expression(text, protocol=proto)
    except TagExpressionError as e:
        out.update(ok=False, err="TagExpressionError")
        return out
    except Exception as e:          # noqa
        out.update(ok=False, err=type(e).__name__)
        return out
    out.update(ok=True, cls=type(ex).__name__, repr=repr(ex), str=str(ex), pretty=ex.to_string(),
               truth=[bool(ex.check(s)) for s in SUBSETS])
    # printing then parsing again must denote the same formula
    if type(ex).__name__ != "TagExpression":
        for label, txt in (("str", out["str"]), ("pretty", out["pretty"])):
            try:
                ex2 = make_tag_expression(txt, protocol=TagExpressionProtocol.V2)
                out["reparse_" + label] = [bool(ex2.check(s)) for s in SUBSETS]
            except Exception as e:  # noqa
                out["reparse_" + label] = "EXC:%s" % type(e).__name__
    return out


# ------------------------------------------------------------------ Coq encoders
HEADER = "From BV Require Import Base UStr TagExpr.\n"


def c_ustr(s):
    return cstr(s)


def c_subsets():
    return clist([clist([cstr(t) for t in s], "ustr") for s in SUBSETS], "list ustr")


HEADER_V2 = HEADER + """
Definition subsets : list (list ustr) := %s.
Definition v2obs := (bool * ustr * ustr * list bool)%%type.
Definition v2obs_eqb (a b : v2obs) : bool :=
  let '(o1, s1, p1, t1) := a in let '(o2, s2, p2, t2) := b in
  Bool.eqb o1 o2 && ustr_eqb s1 s2 && ustr_eqb p1 p2 && list_eqb Bool.eqb t1 t2.
Definition obs_of (r : pres texp) : v2obs :=
  match r with
  | POk e => (true, to_str e, to_string_pretty e, map (xeval e) subsets)
  | PErr _ => (false, [], [], [])
  end.
Definition run_v2 (c : bool * list ustr) : v2obs :=
  if fst c then obs_of (parse_v2_list (snd c))
  else match snd c with [t] => obs_of (parse_v2 t) | _ => (false, [], [], []) end.
""" % c_subsets()
